/-
  Property C11 (concurrent part) — "A queue is never reported empty while an event is pending or in
  dispatch".

  "If emptyQueue returns true … then every event whose enqueue had completed before that call began
   has been fully consumed: its dispatch by process or processOne has returned on whichever thread
   ran it, or it was taken or cleared.  In particular the queue is seen as non-empty from inside a
   listener that process or processOne is running, and from every other thread during that time."

  Model: Conc/Queue.lean.  `emptyQueue()` is two unprotected reads: `queueList.empty()`
  (`emptyRead1`) and `queueEmptyCounter == 0` (`emptyRead2`); it answers `true` iff both hold.  A
  processing call increments `queueEmptyCounter` BEFORE it moves events out of `queueList` and
  decrements it AFTER its last dispatch (and after it has put declined events back).
  The ghost `seen` of an `emptyQueue` call is `nextEv` at the moment the call began = the number of
  events spliced in before the call began; an `enqueue` that had completed before has its id `< seen`.
  "Dispatch has happened" is the `procLoop` step that appends `(e, dispatched, t)` to `consumed`
  (the listener calls of one event are one micro-step of the model).

  The property deliberately excludes `processIf` / `processUntil`: their put-back makes the answer
  momentarily wrong (`C11_processIf_counterexample`, `C11_processUntil_counterexample`).  Accordingly
  `C11_empty_true` assumes `NoIf progs` (neither `processIf` nor `processUntil` occurs; before
  `processUntil` was modelled `NoIf` only had `processIf` to exclude); the counting theorems (`C11_guard_counts`, `C11_inflight_guarded`,
  `C11_nonempty_during_dispatch`) hold for EVERY family of programs.

  Every theorem quantifies over every family of programs, both values of `dqnLocked`, every
  schedule.  The re-entrant case (`emptyQueue` called from inside a listener on the SAME thread) is
  the sequential property C11s (Q/Machine.lean); here a thread runs one call at a time, and
  `C11_nonempty_during_dispatch` covers every OTHER thread.
  Proofs: Conc/QueueInvA.lean (`GuardInv`, `ConsInv`), Conc/QueueInvB.lean (`NoIfInv`, `EmptyInv`).
-/
import EventppVerif.Generated.QueueFrag
import EventppVerif.Conc.QueueInvB

namespace Evp.Conc
open List

section
variable {progs : List (List Call)} {flag : Bool} {s s' : State}

/-! ### 1. what the guard counter counts -/

/-- **C11 (guard).** In every reachable state `queueEmptyCounter` equals the number of threads that
    are inside a processing call between its `++queueEmptyCounter` and its `--queueEmptyCounter`
    (`procTake`, `procLoop`, `procPutBack`, `procDec`). -/
theorem C11_guard_counts (h : ReachF progs flag s) : s.ec = guardCount s := h.guard

theorem C11_guard_counts' (h : ReachF progs flag s) :
    s.ec = s.threads.countP (fun th => guardActive th.pc) := h.guard

/-! ### 2. a thread that holds events has its guard up -/

/-- a thread whose local lists are non-empty is inside the guarded part (by definition of the pcs) -/
theorem C11_inflight_guarded_pc (pc : PC) (h : inflightOf pc ≠ []) : guardActive pc = true := by
  cases pc <;> first | rfl | exact absurd rfl h

theorem inflightL_nil_of_guard_zero : ∀ (l : List Thread), guardCountL l = 0 → inflightL l = []
  | [], _ => rfl
  | th :: r, h => by
    simp only [guardCountL, List.countP_cons] at h
    have h1 : guardActive th.pc = false := by
      cases hg : guardActive th.pc
      · rfl
      · simp [hg] at h
    have h2 : inflightOf th.pc = [] := by
      cases hi : inflightOf th.pc with
      | nil => rfl
      | cons a b =>
        have := C11_inflight_guarded_pc th.pc (by rw [hi]; exact List.cons_ne_nil _ _)
        rw [h1] at this; cases this
    have ih := inflightL_nil_of_guard_zero r (by simp only [guardCountL]; omega)
    simp only [inflightL, List.flatMap_cons] at ih ⊢
    rw [h2, ih]; rfl

/-- **C11 (in flight ⇒ guarded).** While any thread holds events locally, `queueEmptyCounter ≥ 1`. -/
theorem C11_inflight_guarded (h : ReachF progs flag s) (hi : inflight s ≠ []) : 1 ≤ s.ec := by
  rw [h.guard]
  cases hz : guardCountL s.threads with
  | zero => exact absurd (inflightL_nil_of_guard_zero _ hz) hi
  | succ n => omega

/-- contrapositive: `queueEmptyCounter = 0` ⇒ no thread holds an event locally -/
theorem C11_ec_zero_no_inflight (h : ReachF progs flag s) (hz : s.ec = 0) : inflight s = [] :=
  inflightL_nil_of_guard_zero _ (by rw [← h.guard]; exact hz)

/-! ### 3. `emptyQueue` returns `true` -/

/-- the second read of `emptyQueue()` -/
theorem step_emptyRead2 {t : Tid} {th : Thread} {seen ch : Nat} (ht : getT s t = some th)
    (hpc : th.pc = .emptyRead2 seen) : step s t ch = some (finish s t th (.bool (s.ec == 0))) := by
  simp [step, ht, hpc]

/-- Without `processIf` / `processUntil` (`NoIf`): once an `emptyQueue` call has read the list as empty, no event spliced in
    before the call began is in the list — events never return to the list. -/
theorem C11_seen_not_queued (hno : NoIf progs) (h : ReachF progs flag s) {t : Tid} {th : Thread} {seen : Nat}
    (ht : getT s t = some th) (hpc : th.pc = .emptyRead2 seen) :
    seen ≤ s.nextEv ∧ ∀ e, e < seen → e ∉ s.queue := by
  have := (h.noIfAll hno).empty t th ht
  rw [hpc] at this
  exact this

/-- … so if in that state `queueEmptyCounter = 0` (the second read will make the call return
    `true`), every such event is consumed: taken, cleared, or its dispatch step has happened. -/
theorem C11_empty_true_state (hno : NoIf progs) (h : ReachF progs flag s) {t : Tid} {th : Thread} {seen : Nat}
    (ht : getT s t = some th) (hpc : th.pc = .emptyRead2 seen) (hec : s.ec = 0) :
    ∀ e, e < seen → e ∈ consumedIds s := by
  obtain ⟨h1, h2⟩ := C11_seen_not_queued hno h ht hpc
  intro e he
  have hc := h.cons e
  have hi : inflightL s.threads = [] := C11_ec_zero_no_inflight h hec
  have hq : count e s.queue = 0 := List.count_eq_zero.mpr (h2 e he)
  have h3 : ind e s.nextEv = 1 := ind_eq_one.mpr (by omega)
  rw [hi, hq, h3] at hc
  exact List.count_pos_iff.mp (by simp only [consumedIds]; simp only [List.count_nil] at hc; omega)

/-- **C11 (emptyQueue = true).** For programs without `processIf` and without `processUntil` (`NoIf`,
    the two calls the property excludes): if the micro-step that performs
    the second read of an `emptyQueue()` call records the result `true`, then every event whose id
    is below `seen` — i.e. every event spliced in before the call began, in particular every event
    whose `enqueue` had completed before — is in `consumed` afterwards: it was taken, cleared, or
    dispatched (on whichever thread ran it). -/
theorem C11_empty_true (hno : NoIf progs) (h : ReachF progs flag s) {t : Tid} {th : Thread} {seen ch : Nat}
    (ht : getT s t = some th) (hpc : th.pc = .emptyRead2 seen) (hs : step s t ch = some s')
    (hret : ∃ th', getT s' t = some th' ∧ th'.rets = th.rets ++ [.bool true]) :
    ∀ e, e < seen → e ∈ consumedIds s' := by
  rw [step_emptyRead2 ht hpc] at hs
  injection hs with hs; subst hs
  obtain ⟨th', h1, h2⟩ := hret
  rw [finish_eq, getT_setT_of ht, if_pos rfl] at h1
  injection h1 with h1; subst h1
  have h3 : Ret.bool (s.ec == 0) = Ret.bool true := by
    have := List.append_cancel_left h2
    injection this
  have hec : s.ec = 0 := by
    injection h3 with h3
    exact beq_iff_eq.mp h3
  exact C11_empty_true_state hno h ht hpc hec

/-! ### 4. non-empty during dispatch -/

/-- **C11 (non-empty during dispatch).** For EVERY family of programs: while some thread `u` is
    inside a processing call between its `++queueEmptyCounter` and `--queueEmptyCounter` — in
    particular while it runs a listener — the second read of an `emptyQueue()` call of any thread
    records the result `false`. -/
theorem C11_nonempty_during_dispatch (h : ReachF progs flag s) {u t : Tid} {thu th : Thread} {seen ch : Nat}
    (hu : getT s u = some thu) (hgd : guardActive thu.pc = true)
    (ht : getT s t = some th) (hpc : th.pc = .emptyRead2 seen) (hs : step s t ch = some s') :
    ∃ th', getT s' t = some th' ∧ th'.rets = th.rets ++ [.bool false] := by
  rw [step_emptyRead2 ht hpc] at hs
  injection hs with hs; subst hs
  have hge := guardCountL_ge hu
  rw [hgd, if_pos rfl, ← h.guard] at hge
  have : (s.ec == 0) = false := by
    cases hb : s.ec == 0
    · rfl
    · have := beq_iff_eq.mp hb; omega
  refine ⟨_, by rw [finish_eq, getT_setT_of ht, if_pos rfl], ?_⟩
  simp [this]

/-- the first read already answers `false` while the list is non-empty -/
theorem C11_nonempty_while_queued {t : Tid} {th : Thread} {seen ch : Nat}
    (ht : getT s t = some th) (hpc : th.pc = .emptyRead1 seen) (hq : s.queue ≠ [])
    (hs : step s t ch = some s') :
    ∃ th', getT s' t = some th' ∧ th'.rets = th.rets ++ [.bool false] := by
  have : step s t ch = some (finish s t th (.bool false)) := by
    simp [step, ht, hpc, hq]
  rw [this] at hs
  injection hs with hs; subst hs
  exact ⟨_, by rw [finish_eq, getT_setT_of ht, if_pos rfl], rfl⟩

end

/-! ### 5. why `processIf` and `processUntil` are excluded; non-vacuity -/

namespace C11Demo

def rep (t n : Nat) : List (Tid × Nat) := List.replicate n (t, 0)

theorem step_of_isSome {s : State} {t ch : Nat} (h : (step s t ch).isSome = true) :
    step s t ch = some (exec s [(t, ch)]) := by
  cases hs : step s t ch with
  | none => rw [hs] at h; cases h
  | some s' => simp [exec, hs]

/-- producer, a `processIf` consumer that declines even ids, an observer calling `emptyQueue` -/
def progsIf : List (List Call) := [[.enqueue], [.processIf false], [.emptyQueue]]

/-- the producer enqueues event 0; the consumer raises `ec`, swaps the list out and declines event 0
    (it is now in its `kept` list); the observer starts `emptyQueue` and reads the list as empty -/
def schedIf1 : List (Tid × Nat) := rep 0 5 ++ rep 1 6 ++ rep 2 2

/-- … the consumer puts event 0 back, notifies (nobody waits) and lowers `ec`; the observer reads `ec = 0` -/
def schedIf2 : List (Tid × Nat) := schedIf1 ++ rep 1 4 ++ rep 2 1

example : (exec (init progsIf) schedIf1).queue = [] ∧ (exec (init progsIf) schedIf1).ec = 1 ∧
    (exec (init progsIf) schedIf1).threads.map (·.pc) = [.idle, .procPutBack [0] false, .emptyRead2 1] := by
  decide +kernel

/-- **Counter-example with `processIf`.** There is a reachable state in which `emptyQueue()` has
    just returned `true` although event 0, whose `enqueue` had completed before the call began, is
    pending in the queue and has never been consumed. -/
theorem C11_processIf_counterexample :
    ∃ s, Reach progsIf s ∧ (s.threads.map (·.rets))[2]? = some [Ret.bool true] ∧
      s.queue = [0] ∧ consumedIds s = [] ∧ enqueuedIds s = [0] ∧
      (s.threads.map (·.rets))[0]? = some [Ret.unit] :=
  ⟨exec (init progsIf) schedIf2, ⟨schedIf2, rfl⟩, by decide +kernel, by decide +kernel, by decide +kernel,
    by decide +kernel, by decide +kernel⟩

/-- the same with `processUntil` (stop at the first even id: it stops at event 0 and puts it back) -/
def progsUntil : List (List Call) := [[.enqueue], [.processUntil false], [.emptyQueue]]

def schedUntil : List (Tid × Nat) := rep 0 5 ++ rep 1 5 ++ rep 2 2 ++ rep 1 4 ++ rep 2 1

example : (exec (init progsUntil) (rep 0 5 ++ rep 1 5 ++ rep 2 2)).queue = [] ∧
    (exec (init progsUntil) (rep 0 5 ++ rep 1 5 ++ rep 2 2)).threads.map (·.pc) =
      [.idle, .procPutBack [0] false, .emptyRead2 1] := by
  decide +kernel

/-- **Counter-example with `processUntil`.** `emptyQueue()` has just returned `true` although event 0,
    whose `enqueue` had completed before the call began, is pending in the queue (put back by
    `processUntil`) and has never been consumed. -/
theorem C11_processUntil_counterexample :
    ∃ s, Reach progsUntil s ∧ (s.threads.map (·.rets))[2]? = some [Ret.bool true] ∧
      s.queue = [0] ∧ consumedIds s = [] ∧ enqueuedIds s = [0] ∧
      (s.threads.map (·.rets))[0]? = some [Ret.unit] :=
  ⟨exec (init progsUntil) schedUntil, ⟨schedUntil, rfl⟩, by decide +kernel, by decide +kernel, by decide +kernel,
    by decide +kernel, by decide +kernel⟩

/-- producer, a `process` consumer, an observer calling `emptyQueue` twice -/
def progsP : List (List Call) := [[.enqueue], [.process], [.emptyQueue, .emptyQueue]]

theorem progsP_ok : NoIf progsP := by unfold NoIf progsP; decide

/-- event 0 enqueued; the consumer has swapped the list out (event 0 is in its `todo`, not yet
    dispatched); the observer has read the list as empty -/
def schedP1 : List (Tid × Nat) := rep 0 5 ++ rep 1 4 ++ rep 2 2

example : (exec (init progsP) schedP1).queue = [] ∧ (exec (init progsP) schedP1).ec = 1 ∧
    (exec (init progsP) schedP1).threads.map (·.pc) = [.idle, .procLoop 0 [0] [] false, .emptyRead2 1] := by
  decide +kernel

/-- `C11_nonempty_during_dispatch` applies: the observer's second read answers `false` -/
example : ∃ th', getT (exec (init progsP) (schedP1 ++ [(2, 0)])) 2 = some th' ∧ th'.rets = [] ++ [.bool false] := by
  have hr : ReachF progsP true (exec (init progsP) schedP1) := ⟨schedP1, rfl⟩
  have hs := step_of_isSome (s := exec (init progsP) schedP1) (t := 2) (ch := 0) (by decide +kernel)
  rw [← exec_append] at hs
  exact C11_nonempty_during_dispatch hr (u := 1) (t := 2)
    (thu := { prog := [.process], pc := .procLoop 0 [0] [] false })
    (th := { prog := [.emptyQueue, .emptyQueue], pc := .emptyRead2 1 }) (seen := 1)
    (by decide +kernel) rfl (by decide +kernel) rfl hs

/-- the consumer dispatches event 0 and finishes; the observer's second call reads the list empty -/
def schedP2 : List (Tid × Nat) := schedP1 ++ [(2, 0)] ++ rep 1 3 ++ rep 2 2

example : (exec (init progsP) schedP2).queue = [] ∧ (exec (init progsP) schedP2).ec = 0 ∧
    (exec (init progsP) schedP2).threads.map (·.pc) = [.idle, .idle, .emptyRead2 1] ∧
    (exec (init progsP) schedP2).consumed = [(0, .dispatched, 1)] := by
  decide +kernel

/-- non-vacuity of `C11_empty_true`: its hypotheses hold for the observer's second call, which
    returns `true`; the conclusion says event 0 is consumed -/
example : ∀ e, e < 1 → e ∈ consumedIds (exec (init progsP) (schedP2 ++ [(2, 0)])) := by
  have hr : ReachF progsP true (exec (init progsP) schedP2) := ⟨schedP2, rfl⟩
  have hs := step_of_isSome (s := exec (init progsP) schedP2) (t := 2) (ch := 0) (by decide +kernel)
  rw [← exec_append] at hs
  exact C11_empty_true progsP_ok hr (t := 2)
    (th := { prog := [.emptyQueue], pc := .emptyRead2 1, rets := [.bool false] }) (seen := 1)
    (by decide +kernel) rfl hs
    ⟨{ prog := [], pc := .idle, rets := [.bool false, .bool true] }, by decide +kernel, rfl⟩

example : (exec (init progsP) (schedP2 ++ [(2, 0)])).threads.map (·.rets) =
    [[.unit], [.bool true], [.bool false, .bool true]] := by decide +kernel

end C11Demo

end Evp.Conc


namespace Evp.Conc
/-- bridge to the source (regenerated on every run): `emptyQueue()` reads the list first and the
    guard counter second, in both queue classes — the order the model's `emptyRead1`/`emptyRead2`
    steps (and the proofs above) assume. -/
theorem C11_bridge_read_order :
    Evp.Gen.Queue.homo_listFirst = true ∧ Evp.Gen.Queue.heter_listFirst = true := by decide
end Evp.Conc
