import EventppVerif.Q.Demo
/-
  Property C11 (sequential part) — the emptiness guard `queueEmptyCounter`.

  Model: Q/Machine.lean.  `emptyQueue` answers `queue.isEmpty && ec == 0`; a processing call
  increments `ec` before it moves events out of `queueList` and decrements it when it has put the
  declined ones back.

  All theorems quantify over every behaviour `b` of listeners, filters and predicates, every
  program, every ordering policy and every reachable configuration (`Reachable`, Q/Inv.lean).
  Proofs: Q/InvView.lean, Q/InvProofs.lean, Q/InvCor.lean.
-/
namespace Evp.Q
open Evp

/-- **C11 (guard).** In every reachable configuration `queueEmptyCounter` equals the number of
    running processing calls (`.proc` frames on the stack). -/
theorem C11_guard (b : QBeh) (c : QCfg) (h : Reachable b c) : c.ec = procCount c.stack :=
  h.guard

/-- The same for `runN`. -/
theorem C11_guard_runN (b : QBeh) (n : Nat) (c0 : QCfg) (h0 : Init c0) :
    (QCfg.runN b n c0).1.ec = procCount (QCfg.runN b n c0).1.stack :=
  ((Reachable.init h0).runN (b := b) n).guard

/-- Whatever runs inside a processing call — a listener, a filter, the predicate, at any nesting
    depth — sees `emptyQueue = false`, although `queueList` itself may be empty at that moment
    (the events are in the call's local lists). -/
theorem C11_listener_sees_nonempty (b : QBeh) (c : QCfg) (h : Reachable b c) (f : QFrame)
    (hf : f ∈ c.stack) (hp : isProc f = true) : c.emptyQueue = false :=
  h.sees_nonempty hf hp

/-- If `emptyQueue` answers `true` then no slot anywhere holds an event — nothing is queued, no
    processing call is running — and (by C05, exactly once) every event ever enqueued has been
    fully consumed: its dispatch has ended, or it was taken, or it was cleared. -/
theorem C11_empty_means_consumed (b : QBeh) (c : QCfg) (h : Reachable b c) (he : c.emptyQueue = true) :
    c.queue = [] ∧ procCount c.stack = 0 ∧ c.inflight = [] ∧
    (consumedSeqs c.trace).Perm (List.range c.nextSeq) :=
  h.empty_consumed he

/-- Conversely `emptyQueue` answers `true` as soon as nothing is queued and no processing call is
    running. -/
theorem C11_empty_iff (b : QBeh) (c : QCfg) (h : Reachable b c) :
    c.emptyQueue = true ↔ c.queue = [] ∧ procCount c.stack = 0 := by
  constructor
  · intro he
    exact ⟨(h.empty_consumed he).1, (h.empty_consumed he).2.1⟩
  · rintro ⟨hq, hp⟩
    simp [QCfg.emptyQueue, hq, h.guard, hp]

/-! ### non-vacuity

`Demo.main`: `listen 0 1; enqueue 0 10; enqueue 0 11; enqueue 0 12; processIf 7; process; emptyq`
where listener 1 enqueues (0, 99) on its first call and predicate 7 declines argument 11. -/

example : Reachable Demo.beh (Demo.at_ 15) := Demo.at_reachable 15

/-- step 15: inside the listener called by the final `process`, which took both queued events:
    `queueList` is empty, but the guard is up -/
example : (Demo.at_ 15).queue = [] ∧ (Demo.at_ 15).ec = 1 ∧ procCount (Demo.at_ 15).stack = 1 ∧
    seqsOf (Demo.at_ 15).inflight = [1, 3] ∧ (Demo.at_ 15).emptyQueue = false := by decide +kernel

/-- step 7: inside listener 1 during `processIf`, after its re-entrant `enqueue` -/
example : (Demo.at_ 7).ec = 1 ∧ procCount (Demo.at_ 7).stack = 1 ∧
    (Demo.at_ 7).emptyQueue = false := by decide +kernel

/-- the final `emptyq` answers `true`, and all four events have been consumed -/
example : (QCfg.runN Demo.beh 20 Demo.c0).2 = true ∧ (Demo.at_ 20).emptyQueue = true ∧
    (Demo.at_ 20).trace.head? = some (.res (.bool true)) ∧
    consumedSeqs (Demo.at_ 20).trace = [3, 1, 2, 0] ∧ (Demo.at_ 20).nextSeq = 4 := by decide +kernel

end Evp.Q
