import EventppVerif.Q.DispAux
/-
  Property C12 — Filters and canContinueInvoking gate every dispatch, synchronous or queued.

  "With MixinFilter, every dispatch - direct or performed by a queue's processing call - first runs
  the filters in the order they were added: each filter receives the arguments as lvalues, its
  modifications are seen by later filters and by all listeners, and the first filter returning false
  stops the remaining filters and all listeners of that dispatch only. … removed filters never run
  again."

  Model: Q/Machine.lean.  `directDispatch` = `nextFilter` (filters over a snapshot of the filter
  list, skipping removed ones; a filter returning `true` rewrites the argument by
  `b.rewrite cur arg` for everything that follows; `false` ends the dispatch) then `nextListener`.
  Specification: `dispatchCalls` (Q/DispAux.lean), a pure function.

  The `conditionalFunctor` / `argumentAdapter` utilities are tiny self-contained models at the end.
-/
namespace Evp.Q
open Evp QCfg

/-! ### the specification, spelled out -/

/-- no filter (left): the listeners are called in list order with the current argument -/
theorem C12_spec_nil (listeners : SList) (verdict : Cb → Nat → Bool) (rw : Cb → Nat → Nat)
    (key arg : Nat) :
    dispatchCalls [] listeners verdict rw key arg =
      listeners.map (fun e => ⟨.listener, key, e.id, e.cb, arg⟩) := rfl

/-- the first filter is called with the current argument; if it returns `true` the dispatch goes on
    with the remaining filters and the argument as rewritten by it -/
theorem C12_spec_pass (f : Entry) (fs listeners : SList) (verdict : Cb → Nat → Bool)
    (rw : Cb → Nat → Nat) (key arg : Nat) (h : verdict f.cb arg = true) :
    dispatchCalls (f :: fs) listeners verdict rw key arg =
      ⟨.filter, key, f.id, f.cb, arg⟩ :: dispatchCalls fs listeners verdict rw key (rw f.cb arg) := by
  simp [dispatchCalls, callsFrom, h]

/-- … if it returns `false` nothing else of this dispatch is called -/
theorem C12_spec_block (f : Entry) (fs listeners : SList) (verdict : Cb → Nat → Bool)
    (rw : Cb → Nat → Nat) (key arg : Nat) (h : verdict f.cb arg = false) :
    dispatchCalls (f :: fs) listeners verdict rw key arg = [⟨.filter, key, f.id, f.cb, arg⟩] := by
  simp [dispatchCalls, callsFrom, h]

/-! ### the machine implements it -/

/-- **C12 (a dispatch is `dispatchCalls`).**  Let the filters and listeners return immediately (a
    filter's verdict being a function `verdict` of callback and argument).  From any configuration
    that is about to execute `dispatch key arg` there is a number of steps after which the program
    continues (`k .unit`) on the same stack, the listener lists, the filter list and the queue are
    unchanged, and the trace has gained exactly the calls `dispatchCalls …` — the filters in the
    order they were added, each seeing the argument as modified by the earlier ones, stopping at the
    first `false`; otherwise all listeners, with the final argument — followed by the result of
    the command.  (The trace is kept newest first, hence the `reverse`.) -/
theorem C12_dispatch_flat (b : QBeh) (verdict : Cb → Nat → Bool) (hb : Flat b verdict) (c : QCfg)
    (key arg : Nat) (k : QRes → QProg) (rest : List QFrame)
    (hst : c.stack = .prog (.op (.dispatch key arg) k) :: rest) :
    ∃ n, (runN b n c).1.stack = .prog (k .unit) :: rest ∧
      (runN b n c).1.lists = c.lists ∧ (runN b n c).1.filters = c.filters ∧
      (runN b n c).1.queue = c.queue ∧
      (runN b n c).1.trace =
        .res .unit ::
          ((dispatchCalls c.filters (c.lists key) verdict b.rewrite key arg).map QEv.call).reverse
            ++ c.trace := by
  obtain ⟨n, hn⟩ := dispatch_flat hb c key arg k rest hst
  exact ⟨n, by rw [hn], by rw [hn], by rw [hn], by rw [hn], by rw [hn]⟩

/-- **C12 (a queued event is dispatched by the same function), modes `process`/`processOne`.**
    Examining the head `s` (holding event `e`) of a processing call's `todo` *is*
    `nextFilter … e.key e.arg c.filters …`: the filter phase over the current filter list, then the
    listeners of `e.key` — on top of the processing-call frame. -/
theorem C12_queued_same (b : QBeh) (c : QCfg) (mode : PMode) (hm : mode = .all ∨ mode = .one)
    (s : Slot) (e : QEvent) (rest kept idle : List Slot) (below : List QFrame)
    (hev : s.ev = some e) :
    procNext b c mode (s :: rest) kept idle below =
      nextFilter b c e.key e.arg c.filters (.proc mode (s :: rest) kept idle .disp :: below) := by
  rcases hm with rfl | rfl <;> simp [procNext, hev]

/-- … and so is, for `processIf`, an event whose predicate returned `true` and, for `processUntil`,
    one whose predicate returned `false`. -/
theorem C12_queued_same_pred (b : QBeh) (c : QCfg) (mode : PMode) (v : Bool)
    (hm : (∃ p, mode = .ifp p ∧ v = true) ∨ (∃ p, mode = .untilp p ∧ v = false))
    (s : Slot) (e : QEvent) (rest kept idle : List Slot) (below : List QFrame) (hev : s.ev = some e)
    (hst : c.stack = .prog (.ret v) :: .proc mode (s :: rest) kept idle .pred :: below) :
    step b c = some
      (nextFilter b c e.key e.arg c.filters (.proc mode (s :: rest) kept idle .disp :: below)) := by
  unfold step
  rw [hst]
  rcases hm with ⟨p, rfl, rfl⟩ | ⟨p, rfl, rfl⟩ <;> simp [hev]

/-- … exactly what the machine does for the command `dispatch e.key e.arg` — on top of the waiting
    program. -/
theorem C12_direct_same (b : QBeh) (c : QCfg) (key arg : Nat) (k : QRes → QProg)
    (rest : List QFrame) (hst : c.stack = .prog (.op (.dispatch key arg) k) :: rest) :
    step b c = some (nextFilter b c key arg c.filters (.wait k :: rest)) :=
  step_dispatch hst

/-- … and the two differ in nothing but the frame they return to: `nextFilter` pushes frames and
    extends the trace independently of what is below. -/
theorem C12_same_up_to_below (b : QBeh) (c : QCfg) (key arg : Nat) (snap : List Entry) :
    ∃ fs tr, ∀ below,
      nextFilter b c key arg snap below = { c with trace := tr, stack := fs ++ below } :=
  nextFilter_below b c key arg snap

/-- **C12 (modifications are seen by later filters and by the listeners), any behaviour.**  When
    the running filter `cur` returns `true`, the rest of the dispatch — the remaining filters and
    then the listeners — runs with the argument as rewritten by `cur`. -/
theorem C12_rewrite_propagates (b : QBeh) (c : QCfg) (key arg : Nat) (rest : List Entry) (cur : Cb)
    (below : List QFrame) (hst : c.stack = .prog (.ret true) :: .filt key arg rest cur :: below) :
    step b c = some (nextFilter b c key (b.rewrite cur arg) rest below) :=
  step_filt_true hst

/-- **C12 (a veto stops this dispatch only), any behaviour.**  When the running filter returns
    `false`, the next configuration is "dispatch ended" (`.done`): no further filter and no listener
    of this dispatch is called (the trace is unchanged), and the listener lists, the filter list and
    the queue are untouched. -/
theorem C12_block_only_this (b : QBeh) (c : QCfg) (key arg : Nat) (rest : List Entry) (cur : Cb)
    (below : List QFrame) (hst : c.stack = .prog (.ret false) :: .filt key arg rest cur :: below) :
    ∃ c', step b c = some c' ∧ c'.stack = .done :: below ∧ c'.trace = c.trace ∧
      c'.lists = c.lists ∧ c'.filters = c.filters ∧ c'.queue = c.queue :=
  ⟨_, step_filt_false hst, rfl, rfl, rfl, rfl, rfl⟩

/-- … a vetoed direct dispatch then simply returns to the program that issued it … -/
theorem C12_block_direct (b : QBeh) (c : QCfg) (key arg : Nat) (rest : List Entry) (cur : Cb)
    (k : QRes → QProg) (below : List QFrame)
    (hst : c.stack = .prog (.ret false) :: .filt key arg rest cur :: .wait k :: below) :
    (runN b 2 c).1 = { c with stack := .prog (k .unit) :: below, trace := .res .unit :: c.trace } := by
  rw [runN_succ_some (step_filt_false hst), runN_succ_some (step_done rfl)]
  rfl

/-- … and a vetoed dispatch of a queued event consumes that event and lets the processing call go
    on with the next one (`rest'`). -/
theorem C12_block_queued (b : QBeh) (c : QCfg) (key arg : Nat) (rest : List Entry) (cur : Cb)
    (mode : PMode) (s : Slot) (e : QEvent) (rest' kept idle : List Slot) (below : List QFrame)
    (hev : s.ev = some e)
    (hst : c.stack = .prog (.ret false) :: .filt key arg rest cur ::
      .proc mode (s :: rest') kept idle .disp :: below) :
    (runN b 2 c).1 =
      procNext b ({ c with stack := .done :: .proc mode (s :: rest') kept idle .disp :: below }.push
        (.consumed e.seq 0)) mode rest' kept (idle ++ [{ s with ev := none }]) below := by
  rw [runN_succ_some (step_filt_false hst), runN_succ_some (step_done rfl)]
  simp [runN, endDispatch, hev]

/-- **C12 (removed filters never run again): a removed filter is skipped.**  If the next filter of
    the snapshot is no longer in the filter list (it was removed, e.g. by an earlier filter or
    listener, or by itself), `nextFilter` passes over it without calling it. -/
theorem C12_removed_filter_skipped (b : QBeh) (c : QCfg) (key arg : Nat) (e : Entry)
    (es : List Entry) (below : List QFrame) (hp : c.filters.present e.id = false) :
    nextFilter b c key arg (e :: es) below = nextFilter b c key arg es below :=
  nextFilter_cons_absent b c key arg e es below hp

/-- **C12 (removed filters never run again): every call is of a current filter.**  In every step of
    every run, with every behaviour: every filter call recorded by the step is of a handle that is
    in the filter list at that moment, and every listener call is of a handle that is in the list
    of the call's event at that moment (`CallOK`). -/
theorem C12_calls_are_current (b : QBeh) (c c' : QCfg) (hs : step b c = some c') :
    ∃ new, c'.trace = new ++ c.trace ∧
      ∀ call, QEv.call call ∈ new →
        (call.kind = .filter → c.filters.present call.h = true) ∧
        (call.kind = .listener → (c.lists call.key).present call.h = true) := by
  obtain ⟨new, hn, hc⟩ := step_NC hs
  refine ⟨new, hn, ?_⟩
  intro call hm
  have := hc call hm
  unfold CallOK at this
  constructor <;> intro hk <;> rw [hk] at this <;> exact this

/-! ### `conditionalFunctor` and `argumentAdapter` (utilities) — self-contained models

These two laws are close to the definitions: the utilities are one-line wrappers, and the models
below are those lines. -/

/-- `conditionalFunctor(f, cond)`: calls `f` iff `cond` accepts the arguments. `none` = not called. -/
def conditionalFunctor {α β : Type} (cond : α → Bool) (f : α → β) (args : α) : Option β :=
  if cond args then some (f args) else none

/-- `argumentAdapter<Sig>(f)`: casts the arguments, then calls `f`. -/
def argumentAdapter {α α' β : Type} (cast : α → α') (f : α' → β) (args : α) : β :=
  f (cast args)

/-- the wrapped callable is called iff the condition holds … -/
theorem C12_conditional_called {α β : Type} (cond : α → Bool) (f : α → β) (args : α) :
    (conditionalFunctor cond f args).isSome = cond args := by
  unfold conditionalFunctor; split <;> simp_all

/-- … and then with the very same arguments (the result is `f args`). -/
theorem C12_conditional {α β : Type} (cond : α → Bool) (f : α → β) (args : α) (r : β) :
    conditionalFunctor cond f args = some r ↔ cond args = true ∧ f args = r := by
  unfold conditionalFunctor; split <;> simp_all

/-- the adapted callable is called exactly once, with the cast arguments -/
theorem C12_adapter {α α' β : Type} (cast : α → α') (f : α' → β) (args : α) :
    argumentAdapter cast f args = f (cast args) := rfl

/-- adapting composes: an adapter around an adapter is the adapter of the composed cast -/
theorem C12_adapter_comp {α α' α'' β : Type} (cast : α → α') (cast' : α' → α'') (f : α'' → β) :
    argumentAdapter cast (argumentAdapter cast' f) = argumentAdapter (cast' ∘ cast) f := rfl

/-! ### non-vacuity -/

namespace C12ex

def seqP : List QCmd → QProg
  | [] => .ret true
  | c :: r => .op c (fun _ => seqP r)

def verdict (cb : Cb) (arg : Nat) : Bool := if cb = 101 then decide (arg ≤ 10) else true

/-- filter 100 adds 5 to the argument and passes; filter 101 vetoes when the argument exceeds 10;
    listener 7 returns -/
def beh : QBeh where
  run := fun call _ => match call.kind with
    | .filter => .ret (verdict call.cb call.arg)
    | _ => .ret true
  rewrite := fun cb a => if cb = 100 then a + 5 else a

theorem beh_flat : Flat beh verdict :=
  ⟨fun call _ h => by simp [beh, h], fun call _ h => ⟨true, by simp [beh, h]⟩⟩

def prog : QProg :=
  seqP [.addFilter 100, .addFilter 101, .listen 0 7, .dispatch 0 3, .dispatch 0 7]

def c0 : QCfg := { stack := [.prog prog] }

def calls (tr : List QEv) : List QCall := tr.reverse.filterMap (fun | .call c => some c | _ => none)

/-- dispatch 3: filter 100 sees 3, filter 101 sees 8 and passes, the listener sees 8;
    dispatch 7: filter 100 sees 7, filter 101 sees 12 and vetoes, the listener is not called. -/
example : calls (runN beh 40 c0).1.trace =
    [⟨.filter, 0, 0, 100, 3⟩, ⟨.filter, 0, 1, 101, 8⟩, ⟨.listener, 0, 2, 7, 8⟩,
     ⟨.filter, 0, 0, 100, 7⟩, ⟨.filter, 0, 1, 101, 12⟩] ∧ (runN beh 40 c0).2 = true := by
  decide +kernel

/-- the specification says the same -/
example : dispatchCalls [⟨0, 100⟩, ⟨1, 101⟩] [⟨2, 7⟩] verdict beh.rewrite 0 3 =
      [⟨.filter, 0, 0, 100, 3⟩, ⟨.filter, 0, 1, 101, 8⟩, ⟨.listener, 0, 2, 7, 8⟩] ∧
    dispatchCalls [⟨0, 100⟩, ⟨1, 101⟩] [⟨2, 7⟩] verdict beh.rewrite 0 7 =
      [⟨.filter, 0, 0, 100, 7⟩, ⟨.filter, 0, 1, 101, 12⟩] := by
  decide +kernel

/-- the hypotheses of `C12_dispatch_flat` hold at step 3 of this run -/
example : ∃ k rest, (runN beh 3 c0).1.stack = .prog (.op (.dispatch 0 3) k) :: rest ∧
    (runN beh 3 c0).1.filters = [⟨0, 100⟩, ⟨1, 101⟩] := ⟨_, _, rfl, rfl⟩

/-- queued: the same gate.  The vetoed event (argument 7) is consumed without reaching the listener
    and the processing call goes on with the next event (argument 1 → 6). -/
example : calls (runN beh 60
      { stack := [.prog (seqP [.addFilter 100, .addFilter 101, .listen 0 7,
                               .enqueue 0 3, .enqueue 0 7, .enqueue 0 1, .process])] }).1.trace =
    [⟨.filter, 0, 0, 100, 3⟩, ⟨.filter, 0, 1, 101, 8⟩, ⟨.listener, 0, 2, 7, 8⟩,
     ⟨.filter, 0, 0, 100, 7⟩, ⟨.filter, 0, 1, 101, 12⟩,
     ⟨.filter, 0, 0, 100, 1⟩, ⟨.filter, 0, 1, 101, 6⟩, ⟨.listener, 0, 2, 7, 6⟩] := by
  decide +kernel

/-- a removed filter never runs again: filter 101 (handle 1) is removed between the dispatches, so
    the second dispatch (argument 7 → 12) now reaches the listener -/
example : calls (runN beh 60
      { stack := [.prog (seqP [.addFilter 100, .addFilter 101, .listen 0 7,
                               .dispatch 0 7, .removeFilter 1, .dispatch 0 7])] }).1.trace =
    [⟨.filter, 0, 0, 100, 7⟩, ⟨.filter, 0, 1, 101, 12⟩,
     ⟨.filter, 0, 0, 100, 7⟩, ⟨.listener, 0, 2, 7, 12⟩] := by
  decide +kernel

example : conditionalFunctor (fun a : Nat => decide (a > 2)) (· + 1) 5 = some 6 ∧
    conditionalFunctor (fun a : Nat => decide (a > 2)) (· + 1) 1 = none ∧
    argumentAdapter (fun a : Nat => (a, a)) (fun p : Nat × Nat => p.1 + p.2) 4 = 8 := by
  decide

end C12ex
end Evp.Q
