import EventppVerif.Q.DispAux
/-
  Property C12 — Filters and canContinueInvoking gate every dispatch, synchronous or queued.

  "With MixinFilter, every dispatch - direct or performed by a queue's processing call - first runs
  the filters in the order they were added: each filter receives the arguments as lvalues, its
  modifications are seen by later filters and by all listeners, and the first filter returning false
  stops the remaining filters and all listeners of that dispatch only. … removed filters never run
  again."

  Model: Q/Machine.lean.  `directDispatch` = `nextFilter` (filters over a snapshot of the filter
  list, skipping removed ones; a filter returning `true` rewrites the argument by
  `b.rewrite cur arg` for everything that follows; `false` ends the dispatch) then `nextListener`;
  after each listener has returned the policy `b.cont` (`CanContinueInvoking::canContinueInvoking`)
  is evaluated on the dispatch's argument, `false` ends the dispatch (`C12_canContinue_*`).
  Specification: `dispatchCalls` (Q/DispAux.lean), a pure function.

  The `conditionalFunctor` / `argumentAdapter` utilities are tiny self-contained models at the end.
-/
namespace Evp.Q
open Evp QCfg

/-! ### the specification, spelled out -/

/-- no filter (left): the listeners that the `CanContinueInvoking` policy lets run (`policyCut`) are
    called in list order with the current argument -/
theorem C12_spec_nil (listeners : SList) (verdict : Cb → Nat → Bool) (rw : Cb → Nat → Nat)
    (cont : Nat → Bool) (key arg : Nat) :
    dispatchCalls [] listeners verdict rw cont key arg =
      (policyCut cont arg listeners).map (fun e => ⟨.listener, key, e.id, e.cb, arg⟩) := rfl

/-- … all of them if the policy says "continue" for this argument (always so with the default
    policy) … -/
theorem C12_spec_nil_all (listeners : SList) (verdict : Cb → Nat → Bool) (rw : Cb → Nat → Nat)
    (cont : Nat → Bool) (key arg : Nat) (h : cont arg = true) :
    dispatchCalls [] listeners verdict rw cont key arg =
      listeners.map (fun e => ⟨.listener, key, e.id, e.cb, arg⟩) := by
  simp [dispatchCalls, callsFrom, listenerCalls, h]

/-- … and only the first one if it says "stop": the policy is asked after each listener has
    returned, so the first listener always runs -/
theorem C12_spec_nil_stop (listeners : SList) (verdict : Cb → Nat → Bool) (rw : Cb → Nat → Nat)
    (cont : Nat → Bool) (key arg : Nat) (h : cont arg = false) :
    dispatchCalls [] listeners verdict rw cont key arg =
      (listeners.take 1).map (fun e => ⟨.listener, key, e.id, e.cb, arg⟩) := by
  simp [dispatchCalls, callsFrom, listenerCalls, h]

/-- the first filter is called with the current argument; if it returns `true` the dispatch goes on
    with the remaining filters and the argument as rewritten by it -/
theorem C12_spec_pass (f : Entry) (fs listeners : SList) (verdict : Cb → Nat → Bool)
    (rw : Cb → Nat → Nat) (cont : Nat → Bool) (key arg : Nat) (h : verdict f.cb arg = true) :
    dispatchCalls (f :: fs) listeners verdict rw cont key arg =
      ⟨.filter, key, f.id, f.cb, arg⟩ ::
        dispatchCalls fs listeners verdict rw cont key (rw f.cb arg) := by
  simp [dispatchCalls, callsFrom, h]

/-- … if it returns `false` nothing else of this dispatch is called -/
theorem C12_spec_block (f : Entry) (fs listeners : SList) (verdict : Cb → Nat → Bool)
    (rw : Cb → Nat → Nat) (cont : Nat → Bool) (key arg : Nat) (h : verdict f.cb arg = false) :
    dispatchCalls (f :: fs) listeners verdict rw cont key arg =
      [⟨.filter, key, f.id, f.cb, arg⟩] := by
  simp [dispatchCalls, callsFrom, h]

/-! ### the machine implements it -/

/-- **C12 (a dispatch is `dispatchCalls`).**  Let the filters and listeners return immediately (a
    filter's verdict being a function `verdict` of callback and argument).  From any configuration
    that is about to execute `dispatch key arg` there is a number of steps after which the program
    continues (`k .unit`) on the same stack, the listener lists, the filter list and the queue are
    unchanged, and the trace has gained exactly the calls `dispatchCalls …` — the filters in the
    order they were added, each seeing the argument as modified by the earlier ones, stopping at the
    first `false`; otherwise the listeners, with the final argument `a`: all of them if the
    `CanContinueInvoking` policy `b.cont a` holds, only the first one if not — followed by the
    result of the command.  (The trace is kept newest first, hence the `reverse`.) -/
theorem C12_dispatch_flat (b : QBeh) (verdict : Cb → Nat → Bool) (hb : Flat b verdict) (c : QCfg)
    (key arg : Nat) (k : QRes → QProg) (rest : List QFrame)
    (hst : c.stack = .prog (.op (.dispatch key arg) k) :: rest) :
    ∃ n, (runN b n c).1.stack = .prog (k .unit) :: rest ∧
      (runN b n c).1.lists = c.lists ∧ (runN b n c).1.filters = c.filters ∧
      (runN b n c).1.queue = c.queue ∧
      (runN b n c).1.trace =
        .res .unit ::
          ((dispatchCalls c.filters (c.lists key) verdict b.rewrite b.cont key arg).map QEv.call).reverse
            ++ c.trace := by
  obtain ⟨n, hn⟩ := dispatch_flat hb c key arg k rest hst
  exact ⟨n, by rw [hn], by rw [hn], by rw [hn], by rw [hn], by rw [hn]⟩

/-- **C12 (a queued event is dispatched by the same function), modes `process`/`processOne`.**
    Examining the head `s` (holding event `e`) of a processing call's `todo` *is*
    `nextFilter … e.key e.arg c.filters …`: the filter phase over the current filter list, then the
    listeners of `e.key` — on top of the processing-call frame. -/
theorem C12_queued_same (b : QBeh) (c : QCfg) (mode : PMode) (hm : mode = .all ∨ mode = .one)
    (s : Slot) (e : QEvent) (rest kept idle : List Slot) (below : List QFrame)
    (hev : s.ev = some e) :
    procNext b c mode (s :: rest) kept idle below =
      nextFilter b c e.key e.arg c.filters (.proc mode (s :: rest) kept idle .disp :: below) := by
  rcases hm with rfl | rfl <;> simp [procNext, hev]

/-- … and so is, for `processIf`, an event whose predicate returned `true` and, for `processUntil`,
    one whose predicate returned `false`. -/
theorem C12_queued_same_pred (b : QBeh) (c : QCfg) (mode : PMode) (v : Bool)
    (hm : (∃ p, mode = .ifp p ∧ v = true) ∨ (∃ p, mode = .untilp p ∧ v = false))
    (s : Slot) (e : QEvent) (rest kept idle : List Slot) (below : List QFrame) (hev : s.ev = some e)
    (hst : c.stack = .prog (.ret v) :: .proc mode (s :: rest) kept idle .pred :: below) :
    step b c = some
      (nextFilter b c e.key e.arg c.filters (.proc mode (s :: rest) kept idle .disp :: below)) := by
  unfold step
  rw [hst]
  rcases hm with ⟨p, rfl, rfl⟩ | ⟨p, rfl, rfl⟩ <;> simp [hev]

/-- … exactly what the machine does for the command `dispatch e.key e.arg` — on top of the waiting
    program. -/
theorem C12_direct_same (b : QBeh) (c : QCfg) (key arg : Nat) (k : QRes → QProg)
    (rest : List QFrame) (hst : c.stack = .prog (.op (.dispatch key arg) k) :: rest) :
    step b c = some (nextFilter b c key arg c.filters (.wait k :: rest)) :=
  step_dispatch hst

/-- … and the two differ in nothing but the frame they return to: `nextFilter` pushes frames and
    extends the trace independently of what is below. -/
theorem C12_same_up_to_below (b : QBeh) (c : QCfg) (key arg : Nat) (snap : List Entry) :
    ∃ fs tr, ∀ below,
      nextFilter b c key arg snap below = { c with trace := tr, stack := fs ++ below } :=
  nextFilter_below b c key arg snap

/-- **C12 (modifications are seen by later filters and by the listeners), any behaviour.**  When
    the running filter `cur` returns `true`, the rest of the dispatch — the remaining filters and
    then the listeners — runs with the argument as rewritten by `cur`. -/
theorem C12_rewrite_propagates (b : QBeh) (c : QCfg) (key arg : Nat) (rest : List Entry) (cur : Cb)
    (below : List QFrame) (hst : c.stack = .prog (.ret true) :: .filt key arg rest cur :: below) :
    step b c = some (nextFilter b c key (b.rewrite cur arg) rest below) :=
  step_filt_true hst

/-- **C12 (a veto stops this dispatch only), any behaviour.**  When the running filter returns
    `false`, the next configuration is "dispatch ended" (`.done`): no further filter and no listener
    of this dispatch is called (the trace is unchanged), and the listener lists, the filter list and
    the queue are untouched. -/
theorem C12_block_only_this (b : QBeh) (c : QCfg) (key arg : Nat) (rest : List Entry) (cur : Cb)
    (below : List QFrame) (hst : c.stack = .prog (.ret false) :: .filt key arg rest cur :: below) :
    ∃ c', step b c = some c' ∧ c'.stack = .done :: below ∧ c'.trace = c.trace ∧
      c'.lists = c.lists ∧ c'.filters = c.filters ∧ c'.queue = c.queue :=
  ⟨_, step_filt_false hst, rfl, rfl, rfl, rfl, rfl⟩

/-- … a vetoed direct dispatch then simply returns to the program that issued it … -/
theorem C12_block_direct (b : QBeh) (c : QCfg) (key arg : Nat) (rest : List Entry) (cur : Cb)
    (k : QRes → QProg) (below : List QFrame)
    (hst : c.stack = .prog (.ret false) :: .filt key arg rest cur :: .wait k :: below) :
    (runN b 2 c).1 = { c with stack := .prog (k .unit) :: below, trace := .res .unit :: c.trace } := by
  rw [runN_succ_some (step_filt_false hst), runN_succ_some (step_done rfl)]
  rfl

/-- … and a vetoed dispatch of a queued event consumes that event and lets the processing call go
    on with the next one (`rest'`). -/
theorem C12_block_queued (b : QBeh) (c : QCfg) (key arg : Nat) (rest : List Entry) (cur : Cb)
    (mode : PMode) (s : Slot) (e : QEvent) (rest' kept idle : List Slot) (below : List QFrame)
    (hev : s.ev = some e)
    (hst : c.stack = .prog (.ret false) :: .filt key arg rest cur ::
      .proc mode (s :: rest') kept idle .disp :: below) :
    (runN b 2 c).1 =
      procNext b ({ c with stack := .done :: .proc mode (s :: rest') kept idle .disp :: below }.push
        (.consumed e.seq 0)) mode rest' kept (idle ++ [{ s with ev := none }]) below := by
  rw [runN_succ_some (step_filt_false hst), runN_succ_some (step_done rfl)]
  simp [runN, endDispatch, hev]

/-! ### `canContinueInvoking`

`CallbackList::operator()` is `forEachIf([&](Callback & cb){ cb(args...); return
CanContinueInvoking::canContinueInvoking(args...); })`: after *each* listener has returned the
policy is asked, with the arguments the listeners got (as rewritten by the filters); `false` ends the
dispatch — normally: a direct dispatch returns to its caller, a queued event counts as consumed.
Model: `b.cont`, evaluated by `QCfg.step` on the `.iter` frame's argument.  The filters run before
the listeners and are not affected. -/

/-- **C12 (canContinueInvoking = true: go on), any behaviour.**  When a listener of a dispatch
    returns (whatever it did meanwhile, with any return value `v`) and the policy holds for the
    dispatch's argument, the dispatch continues with the next listener of its snapshot that is
    still in the list — exactly `nextListener`, as without a policy. -/
theorem C12_canContinue_all (b : QBeh) (c : QCfg) (v : Bool) (key arg : Nat) (rest : List Entry)
    (below : List QFrame) (hst : c.stack = .prog (.ret v) :: .iter key arg rest :: below)
    (hc : b.cont arg = true) :
    step b c = some (nextListener b c key arg rest below) :=
  step_iter_ret hst hc

/-- … in particular with the default policy (hypothesis: `b.cont` is constantly `true`) every
    listener return is followed by `nextListener`. -/
theorem C12_canContinue_default (b : QBeh) (hb : ∀ a, b.cont a = true) (c : QCfg) (v : Bool)
    (key arg : Nat) (rest : List Entry) (below : List QFrame)
    (hst : c.stack = .prog (.ret v) :: .iter key arg rest :: below) :
    step b c = some (nextListener b c key arg rest below) :=
  step_iter_ret hst (hb arg)

/-- **C12 (canContinueInvoking = false: stop this dispatch), any behaviour.**  When a listener of a
    dispatch returns and the policy fails for the dispatch's argument, the next configuration is
    "dispatch ended" (`.done` in place of the listener phase frame `.iter key arg rest`, whose
    remaining snapshot `rest` is dropped): no further listener of this dispatch is called (the
    trace is unchanged), and the listener lists, the filter list and the queue are untouched. -/
theorem C12_canContinue_stop (b : QBeh) (c : QCfg) (v : Bool) (key arg : Nat) (rest : List Entry)
    (below : List QFrame) (hst : c.stack = .prog (.ret v) :: .iter key arg rest :: below)
    (hc : b.cont arg = false) :
    ∃ c', step b c = some c' ∧ c'.stack = .done :: below ∧ c'.trace = c.trace ∧
      c'.lists = c.lists ∧ c'.filters = c.filters ∧ c'.queue = c.queue ∧ c'.free = c.free :=
  ⟨_, step_iter_stop hst hc, rfl, rfl, rfl, rfl, rfl, rfl⟩

/-- … a direct dispatch stopped by the policy then simply returns to the program that issued it (the
    dispatch ends normally: result `unit`) … -/
theorem C12_canContinue_stop_direct (b : QBeh) (c : QCfg) (v : Bool) (key arg : Nat)
    (rest : List Entry) (k : QRes → QProg) (below : List QFrame)
    (hst : c.stack = .prog (.ret v) :: .iter key arg rest :: .wait k :: below)
    (hc : b.cont arg = false) :
    (runN b 2 c).1 = { c with stack := .prog (k .unit) :: below, trace := .res .unit :: c.trace } := by
  rw [runN_succ_some (step_iter_stop hst hc), runN_succ_some (step_done rfl)]
  rfl

/-- … and a dispatch of a queued event stopped by the policy consumes that event exactly as a
    dispatch that ran all listeners does: the ghost event `consumed e.seq 0` is recorded, the slot
    is cleared and joins the slots to be recycled (`idle`), and the processing call goes on with
    the next event (`rest'`). -/
theorem C12_canContinue_stop_queued (b : QBeh) (c : QCfg) (v : Bool) (key arg : Nat)
    (rest : List Entry) (mode : PMode) (s : Slot) (e : QEvent) (rest' kept idle : List Slot)
    (below : List QFrame) (hev : s.ev = some e)
    (hst : c.stack = .prog (.ret v) :: .iter key arg rest ::
      .proc mode (s :: rest') kept idle .disp :: below)
    (hc : b.cont arg = false) :
    (runN b 2 c).1 =
      procNext b ({ c with stack := .done :: .proc mode (s :: rest') kept idle .disp :: below }.push
        (.consumed e.seq 0)) mode rest' kept (idle ++ [{ s with ev := none }]) below := by
  rw [runN_succ_some (step_iter_stop hst hc), runN_succ_some (step_done rfl)]
  simp [runN, endDispatch, hev]

/-- … so the trace continues with `consumed e.seq 0` directly on top of what it was when the last
    listener returned: nothing of the stopped dispatch comes in between. -/
theorem C12_canContinue_stop_consumed (b : QBeh) (c : QCfg) (v : Bool) (key arg : Nat)
    (rest : List Entry) (mode : PMode) (s : Slot) (e : QEvent) (rest' kept idle : List Slot)
    (below : List QFrame) (hev : s.ev = some e)
    (hst : c.stack = .prog (.ret v) :: .iter key arg rest ::
      .proc mode (s :: rest') kept idle .disp :: below)
    (hc : b.cont arg = false) :
    ∃ new, (runN b 2 c).1.trace = new ++ .consumed e.seq 0 :: c.trace := by
  rw [C12_canContinue_stop_queued b c v key arg rest mode s e rest' kept idle below hev hst hc]
  obtain ⟨new, hn, -⟩ := procNext_NC b
    ({ c with stack := .done :: .proc mode (s :: rest') kept idle .disp :: below }.push
      (.consumed e.seq 0)) mode rest' kept (idle ++ [{ s with ev := none }]) below
  exact ⟨new, hn⟩

/-- **C12 (a queued event is `dispatchCalls`, too), `process`/`processOne`, flat behaviours.**
    Examining the head `s` (holding event `e`) of a processing call's `todo` records exactly the
    calls `dispatchCalls … e.key e.arg` of a direct dispatch (filters, then — with the final
    argument `a` — all listeners if `b.cont a`, only the first if not), then `consumed e.seq 0`,
    and goes on with the rest of `todo`, the cleared slot having joined `idle` — whether the
    listeners ran to the end, a filter vetoed or the policy stopped them. -/
theorem C12_canContinue_queued (b : QBeh) (verdict : Cb → Nat → Bool) (hb : Flat b verdict)
    (c : QCfg) (mode : PMode) (hm : mode = .all ∨ mode = .one) (s : Slot) (e : QEvent)
    (rest' kept idle : List Slot) (below : List QFrame) (hev : s.ev = some e) :
    ∃ n, (runN b n (procNext b c mode (s :: rest') kept idle below)).1 =
      procNext b
        { c with
          stack := .done :: .proc mode (s :: rest') kept idle .disp :: below
          trace := .consumed e.seq 0 ::
            ((dispatchCalls c.filters (c.lists e.key) verdict b.rewrite b.cont e.key e.arg).map
              QEv.call).reverse ++ c.trace }
        mode rest' kept (idle ++ [{ s with ev := none }]) below := by
  rw [C12_queued_same b c mode hm s e rest' kept idle below hev]
  refine (run_filters hb e.key (.proc mode (s :: rest') kept idle .disp :: below) c.filters e.arg c
    (fun e he => present_of_mem he)).trans ?_
  refine Steps.head (step_done rfl) ?_
  simp only [endDispatch, hev, push, dispatchCalls]
  exact Steps.refl _ _

/-- **C12 (`process` / `processOne` of one queued event, flat behaviours).**  `processOne` with the
    event `e` at the head of the queue, or `process` with `e` the only queued event: after a number
    of steps the program continues with result `true`, the trace has gained the calls
    `dispatchCalls … e.key e.arg` — the same as for `dispatch e.key e.arg`, policy included — then
    `consumed e.seq 0` and the result; the event has left the queue, its slot is back in the free
    list, empty; the guard counter, the listener lists and the filters are unchanged.  This holds
    whether or not the policy let all listeners run. -/
theorem C12_canContinue_process_flat (b : QBeh) (verdict : Cb → Nat → Bool) (hb : Flat b verdict)
    (c : QCfg) (cmd : QCmd) (k : QRes → QProg) (rest : List QFrame) (s : Slot) (e : QEvent)
    (q' : List Slot) (hcmd : (cmd = .process ∧ q' = []) ∨ cmd = .processOne)
    (hst : c.stack = .prog (.op cmd k) :: rest) (hq : c.queue = s :: q') (hev : s.ev = some e) :
    ∃ n, (runN b n c).1.stack = .prog (k (.bool true)) :: rest ∧
      (runN b n c).1.lists = c.lists ∧ (runN b n c).1.filters = c.filters ∧
      (runN b n c).1.queue = q' ∧
      (runN b n c).1.free = settle c.ordered (c.free ++ [{ s with ev := none }]) ∧
      (runN b n c).1.ec = c.ec ∧
      (runN b n c).1.trace =
        .res (.bool true) :: .consumed e.seq 0 ::
          ((dispatchCalls c.filters (c.lists e.key) verdict b.rewrite b.cont e.key e.arg).map
            QEv.call).reverse ++ c.trace := by
  have key : ∃ mode, (mode = .all ∨ mode = .one) ∧
      step b c = some (procNext b { c with queue := q', ec := c.ec + 1 } mode [s] [] []
        (.wait k :: rest)) := by
    rcases hcmd with ⟨rfl, rfl⟩ | rfl
    · exact ⟨.all, .inl rfl, by unfold step; rw [hst]; simp [startProc, hq, hst]⟩
    · exact ⟨.one, .inr rfl, by unfold step; rw [hst]; simp [startProc, hq, hst]⟩
  obtain ⟨mode, hm, hs⟩ := key
  obtain ⟨n, hn⟩ := Steps.head hs
    (C12_canContinue_queued b verdict hb { c with queue := q', ec := c.ec + 1 } mode hm s e [] [] []
      (.wait k :: rest) hev)
  refine ⟨n, ?_⟩
  rw [hn]
  rcases hm with rfl | rfl <;>
    simp [procNext, finishProc, deliver]

/-- **C12 (removed filters never run again): a removed filter is skipped.**  If the next filter of
    the snapshot is no longer in the filter list (it was removed, e.g. by an earlier filter or
    listener, or by itself), `nextFilter` passes over it without calling it. -/
theorem C12_removed_filter_skipped (b : QBeh) (c : QCfg) (key arg : Nat) (e : Entry)
    (es : List Entry) (below : List QFrame) (hp : c.filters.present e.id = false) :
    nextFilter b c key arg (e :: es) below = nextFilter b c key arg es below :=
  nextFilter_cons_absent b c key arg e es below hp

/-- **C12 (removed filters never run again): every call is of a current filter.**  In every step of
    every run, with every behaviour: every filter call recorded by the step is of a handle that is
    in the filter list at that moment, and every listener call is of a handle that is in the list
    of the call's event at that moment (`CallOK`). -/
theorem C12_calls_are_current (b : QBeh) (c c' : QCfg) (hs : step b c = some c') :
    ∃ new, c'.trace = new ++ c.trace ∧
      ∀ call, QEv.call call ∈ new →
        (call.kind = .filter → c.filters.present call.h = true) ∧
        (call.kind = .listener → (c.lists call.key).present call.h = true) := by
  obtain ⟨new, hn, hc⟩ := step_NC hs
  refine ⟨new, hn, ?_⟩
  intro call hm
  have := hc call hm
  unfold CallOK at this
  constructor <;> intro hk <;> rw [hk] at this <;> exact this

/-! ### `conditionalFunctor` and `argumentAdapter` (utilities) — self-contained models

These two laws are close to the definitions: the utilities are one-line wrappers, and the models
below are those lines. -/

/-- `conditionalFunctor(f, cond)`: calls `f` iff `cond` accepts the arguments. `none` = not called. -/
def conditionalFunctor {α β : Type} (cond : α → Bool) (f : α → β) (args : α) : Option β :=
  if cond args then some (f args) else none

/-- `argumentAdapter<Sig>(f)`: casts the arguments, then calls `f`. -/
def argumentAdapter {α α' β : Type} (cast : α → α') (f : α' → β) (args : α) : β :=
  f (cast args)

/-- the wrapped callable is called iff the condition holds … -/
theorem C12_conditional_called {α β : Type} (cond : α → Bool) (f : α → β) (args : α) :
    (conditionalFunctor cond f args).isSome = cond args := by
  unfold conditionalFunctor; split <;> simp_all

/-- … and then with the very same arguments (the result is `f args`). -/
theorem C12_conditional {α β : Type} (cond : α → Bool) (f : α → β) (args : α) (r : β) :
    conditionalFunctor cond f args = some r ↔ cond args = true ∧ f args = r := by
  unfold conditionalFunctor; split <;> simp_all

/-- the adapted callable is called exactly once, with the cast arguments -/
theorem C12_adapter {α α' β : Type} (cast : α → α') (f : α' → β) (args : α) :
    argumentAdapter cast f args = f (cast args) := rfl

/-- adapting composes: an adapter around an adapter is the adapter of the composed cast -/
theorem C12_adapter_comp {α α' α'' β : Type} (cast : α → α') (cast' : α' → α'') (f : α'' → β) :
    argumentAdapter cast (argumentAdapter cast' f) = argumentAdapter (cast' ∘ cast) f := rfl

/-! ### non-vacuity -/

namespace C12ex

def seqP : List QCmd → QProg
  | [] => .ret true
  | c :: r => .op c (fun _ => seqP r)

def verdict (cb : Cb) (arg : Nat) : Bool := if cb = 101 then decide (arg ≤ 10) else true

/-- filter 100 adds 5 to the argument and passes; filter 101 vetoes when the argument exceeds 10;
    listener 7 returns -/
def beh : QBeh where
  run := fun call _ => match call.kind with
    | .filter => .ret (verdict call.cb call.arg)
    | _ => .ret true
  rewrite := fun cb a => if cb = 100 then a + 5 else a

theorem beh_flat : Flat beh verdict :=
  ⟨fun call _ h => by simp [beh, h], fun call _ h => ⟨true, by simp [beh, h]⟩⟩

def prog : QProg :=
  seqP [.addFilter 100, .addFilter 101, .listen 0 7, .dispatch 0 3, .dispatch 0 7]

def c0 : QCfg := { stack := [.prog prog] }

def calls (tr : List QEv) : List QCall := tr.reverse.filterMap (fun | .call c => some c | _ => none)

/-- dispatch 3: filter 100 sees 3, filter 101 sees 8 and passes, the listener sees 8;
    dispatch 7: filter 100 sees 7, filter 101 sees 12 and vetoes, the listener is not called. -/
example : calls (runN beh 40 c0).1.trace =
    [⟨.filter, 0, 0, 100, 3⟩, ⟨.filter, 0, 1, 101, 8⟩, ⟨.listener, 0, 2, 7, 8⟩,
     ⟨.filter, 0, 0, 100, 7⟩, ⟨.filter, 0, 1, 101, 12⟩] ∧ (runN beh 40 c0).2 = true := by
  decide +kernel

/-- the specification says the same -/
example : dispatchCalls [⟨0, 100⟩, ⟨1, 101⟩] [⟨2, 7⟩] verdict beh.rewrite beh.cont 0 3 =
      [⟨.filter, 0, 0, 100, 3⟩, ⟨.filter, 0, 1, 101, 8⟩, ⟨.listener, 0, 2, 7, 8⟩] ∧
    dispatchCalls [⟨0, 100⟩, ⟨1, 101⟩] [⟨2, 7⟩] verdict beh.rewrite beh.cont 0 7 =
      [⟨.filter, 0, 0, 100, 7⟩, ⟨.filter, 0, 1, 101, 12⟩] := by
  decide +kernel

/-- the hypotheses of `C12_dispatch_flat` hold at step 3 of this run -/
example : ∃ k rest, (runN beh 3 c0).1.stack = .prog (.op (.dispatch 0 3) k) :: rest ∧
    (runN beh 3 c0).1.filters = [⟨0, 100⟩, ⟨1, 101⟩] := ⟨_, _, rfl, rfl⟩

/-- queued: the same gate.  The vetoed event (argument 7) is consumed without reaching the listener
    and the processing call goes on with the next event (argument 1 → 6). -/
example : calls (runN beh 60
      { stack := [.prog (seqP [.addFilter 100, .addFilter 101, .listen 0 7,
                               .enqueue 0 3, .enqueue 0 7, .enqueue 0 1, .process])] }).1.trace =
    [⟨.filter, 0, 0, 100, 3⟩, ⟨.filter, 0, 1, 101, 8⟩, ⟨.listener, 0, 2, 7, 8⟩,
     ⟨.filter, 0, 0, 100, 7⟩, ⟨.filter, 0, 1, 101, 12⟩,
     ⟨.filter, 0, 0, 100, 1⟩, ⟨.filter, 0, 1, 101, 6⟩, ⟨.listener, 0, 2, 7, 6⟩] := by
  decide +kernel

/-- a removed filter never runs again: filter 101 (handle 1) is removed between the dispatches, so
    the second dispatch (argument 7 → 12) now reaches the listener -/
example : calls (runN beh 60
      { stack := [.prog (seqP [.addFilter 100, .addFilter 101, .listen 0 7,
                               .dispatch 0 7, .removeFilter 1, .dispatch 0 7])] }).1.trace =
    [⟨.filter, 0, 0, 100, 7⟩, ⟨.filter, 0, 1, 101, 12⟩,
     ⟨.filter, 0, 0, 100, 7⟩, ⟨.listener, 0, 2, 7, 12⟩] := by
  decide +kernel

/-! #### canContinueInvoking -/

/-- listeners 5, 6, 7 return; filter 100 adds 1 to the argument and passes;
    policy: continue iff the argument (as the listeners got it) is odd -/
def behC : QBeh where
  run := fun _ _ => .ret true
  rewrite := fun cb a => if cb = 100 then a + 1 else a
  cont := fun a => a % 2 != 0

theorem behC_flat : Flat behC (fun _ _ => true) :=
  ⟨fun _ _ _ => rfl, fun _ _ _ => ⟨true, rfl⟩⟩

def progC : QProg :=
  seqP [.listen 0 5, .listen 0 6, .listen 0 7, .dispatch 0 4, .dispatch 0 3,
        .enqueue 0 4, .enqueue 0 3, .process]

def c0C : QCfg := { stack := [.prog progC] }

/-- direct: argument 4 (even → stop) reaches the first listener only, argument 3 all three;
    queued: the same, in queue order -/
example : calls (runN behC 80 c0C).1.trace =
    [⟨.listener, 0, 0, 5, 4⟩,
     ⟨.listener, 0, 0, 5, 3⟩, ⟨.listener, 0, 1, 6, 3⟩, ⟨.listener, 0, 2, 7, 3⟩,
     ⟨.listener, 0, 0, 5, 4⟩,
     ⟨.listener, 0, 0, 5, 3⟩, ⟨.listener, 0, 1, 6, 3⟩, ⟨.listener, 0, 2, 7, 3⟩] ∧
    (runN behC 80 c0C).2 = true := by
  decide +kernel

/-- the queued event whose listeners the policy stopped is consumed like the other one: both
    `consumed` ghost events are recorded (seq 0 right after its single listener call), the queue is
    empty, both slots are back in the free list, empty, and the guard counter is back to 0 -/
example : (runN behC 80 c0C).1.trace.filterMap (fun
      | .consumed s h => some (s, h, 0) | .call q => some (q.cb, q.arg, 1) | _ => none) =
      [(1, 0, 0), (7, 3, 1), (6, 3, 1), (5, 3, 1), (0, 0, 0), (5, 4, 1),
       (7, 3, 1), (6, 3, 1), (5, 3, 1), (5, 4, 1)] ∧
    (runN behC 80 c0C).1.queue = [] ∧ (runN behC 80 c0C).1.free = [⟨0, none⟩, ⟨1, none⟩] ∧
    (runN behC 80 c0C).1.ec = 0 := by
  decide +kernel

/-- the specification says the same -/
example : dispatchCalls [] [⟨0, 5⟩, ⟨1, 6⟩, ⟨2, 7⟩] (fun _ _ => true) behC.rewrite behC.cont 0 4 =
      [⟨.listener, 0, 0, 5, 4⟩] ∧
    dispatchCalls [] [⟨0, 5⟩, ⟨1, 6⟩, ⟨2, 7⟩] (fun _ _ => true) behC.rewrite behC.cont 0 3 =
      [⟨.listener, 0, 0, 5, 3⟩, ⟨.listener, 0, 1, 6, 3⟩, ⟨.listener, 0, 2, 7, 3⟩] ∧
    dispatchCalls [] [] (fun _ _ => true) behC.rewrite behC.cont 0 4 = [] := by
  decide +kernel

/-- the hypotheses of `C12_canContinue_stop` / `C12_canContinue_stop_direct` hold at step 4 of this
    run (the first listener has returned from `dispatch 0 4`, two listeners are still to come, the
    policy says stop) and those of `C12_canContinue_all` at step 7 (`dispatch 0 3`) -/
example : (∃ k below, (runN behC 4 c0C).1.stack =
      .prog (.ret true) :: .iter 0 4 [⟨1, 6⟩, ⟨2, 7⟩] :: .wait k :: below) ∧ behC.cont 4 = false ∧
    (∃ below, (runN behC 7 c0C).1.stack =
      .prog (.ret true) :: .iter 0 3 [⟨1, 6⟩, ⟨2, 7⟩] :: below) ∧ behC.cont 3 = true :=
  ⟨⟨_, _, rfl⟩, rfl, ⟨_, rfl⟩, rfl⟩

/-- the hypotheses of `C12_canContinue_stop_queued` hold at step 14: the first listener has returned
    for the queued event (seq 0, argument 4) of slot 0, under the processing call's frame -/
example : ∃ below, (runN behC 14 c0C).1.stack =
    .prog (.ret true) :: .iter 0 4 [⟨1, 6⟩, ⟨2, 7⟩] ::
      .proc .all [⟨0, some ⟨0, 0, 4⟩⟩, ⟨1, some ⟨1, 0, 3⟩⟩] [] [] .disp :: below :=
  ⟨_, rfl⟩

/-- the policy sees the argument as rewritten by the filters: filter 100 turns 3 into 4, so the
    dispatch of 3 now stops after the first listener, and the dispatch of 4 (→ 5) reaches all -/
example : calls (runN behC 80
      { stack := [.prog (seqP [.addFilter 100, .listen 0 5, .listen 0 6, .listen 0 7,
                               .dispatch 0 3, .enqueue 0 4, .processOne])] }).1.trace =
    [⟨.filter, 0, 0, 100, 3⟩, ⟨.listener, 0, 1, 5, 4⟩,
     ⟨.filter, 0, 0, 100, 4⟩, ⟨.listener, 0, 1, 5, 5⟩, ⟨.listener, 0, 2, 6, 5⟩,
     ⟨.listener, 0, 3, 7, 5⟩] := by
  decide +kernel

/-- re-entrant: listener 5 removes itself and appends listener 8 on its first call.  With argument
    4 the policy stops the dispatch after listener 5 all the same (6, 7, 8 are not called); the
    second dispatch (argument 3) then runs 6, 7, 8. -/
def behR : QBeh where
  run := fun call nth =>
    if call.cb = 5 ∧ nth = 0 then .op (.unlisten 0 call.h) (fun _ => .op (.listen 0 8) (fun _ => .ret true))
    else .ret true
  rewrite := fun _ a => a
  cont := fun a => a % 2 != 0

example : calls (runN behR 80
      { stack := [.prog (seqP [.listen 0 5, .listen 0 6, .listen 0 7,
                               .dispatch 0 4, .dispatch 0 3])] }).1.trace =
    [⟨.listener, 0, 0, 5, 4⟩,
     ⟨.listener, 0, 1, 6, 3⟩, ⟨.listener, 0, 2, 7, 3⟩, ⟨.listener, 0, 3, 8, 3⟩] := by
  decide +kernel

example : conditionalFunctor (fun a : Nat => decide (a > 2)) (· + 1) 5 = some 6 ∧
    conditionalFunctor (fun a : Nat => decide (a > 2)) (· + 1) 1 = none ∧
    argumentAdapter (fun a : Nat => (a, a)) (fun p : Nat × Nat => p.1 + p.2) 4 = 8 := by
  decide

end C12ex
end Evp.Q
