import EventppVerif.Properties.C01
/-
  Property C12, the `canContinueInvoking` clause at the level of the callback list (pointer Model).

  "With a canContinueInvoking policy, listeners are invoked in order until the policy returns false
  for the current arguments, after which no further listener of that dispatch runs."

  `CallbackList::operator()(args...)` is, in the source,
      forEachIf([&](Callback & cb) { cb(args...); return CanContinueInvoking::canContinueInvoking(args...); })
  i.e. the verdict-honouring traversal `enum` of the Model whose visit verdict is the policy's value
  on the arguments (`PolicyVisit`).  The two theorems below are that traversal on the pointer Model,
  for every state related to a Spec state (every reachable state, C02).  The dispatcher / queue
  machine carries the same clause for direct and queued dispatches (`Properties/C12.lean`,
  `C12_canContinue_*`).
-/
namespace Evp

/-- every callback of `L` returns at once when called with `arg`, and the visit then reports what
    the policy `P` says about the arguments -/
def PolicyVisit (P : Nat → Bool) (beh : Beh) (l : Nat) (L : SList) (arg : Nat) : Prop :=
  ∀ e ∈ L, ∀ n, beh ⟨l, e.id, e.cb, arg, true⟩ n = .ret (P arg)

/-- **C12 (policy lets the invocation continue).**  `P arg = true`: every callback of the list is
    called, once, in list order, with `arg`; no list object changes. -/
theorem C12_cl_canContinue_all (P : Nat → Bool) (beh : Beh) {m : MCfg} {s : SCfg} (h : Sim m s)
    (l arg : Nat) (k : Res → Prog) (mrest : List MFrame)
    (hst : m.stack = .prog (.op (.enum l arg) k) :: mrest)
    (hb : PolicyVisit P beh l (s.lists l) arg) (hp : P arg = true) :
    (MCfg.runN beh ((s.lists l).length + 1) m).1.trace =
      .res (.bool true) :: ((callsOf l arg true (s.lists l)).reverse ++ m.trace) ∧
    (MCfg.runN beh ((s.lists l).length + 1) m).1.lists = m.lists := by
  have := C01_model_enum beh h l arg k mrest hst (fun e he n => by rw [hb e he n, hp])
  exact ⟨this.1, this.2.1⟩

/-- **C12 (policy stops the invocation).**  `P arg = false` and the list is `e :: Q`: exactly `e`
    is called (the policy is consulted only after a callback has run), nothing of `Q` is; no list
    object changes. -/
theorem C12_cl_canContinue_stop (P : Nat → Bool) (beh : Beh) {m : MCfg} {s : SCfg} (h : Sim m s)
    (l arg : Nat) (k : Res → Prog) (mrest : List MFrame)
    (hst : m.stack = .prog (.op (.enum l arg) k) :: mrest)
    (e : Entry) (Q : List Entry) (hl : s.lists l = e :: Q)
    (hb : PolicyVisit P beh l (s.lists l) arg) (hp : P arg = false) :
    (MCfg.runN beh 2 m).1.trace =
      .res (.bool false) :: .call ⟨l, e.id, e.cb, arg, true⟩ :: m.trace ∧
    (MCfg.runN beh 2 m).1.lists = m.lists := by
  have := C01_model_enum_stop beh h l arg k mrest hst [] e Q (by simpa using hl)
    (by simp) (fun n => by rw [hb e (by rw [hl]; simp) n, hp])
  refine ⟨?_, this.2.1⟩
  have h1 := this.1
  simpa [callsOf] using h1

/-- an empty list: nothing is called and the policy is never consulted -/
theorem C12_cl_canContinue_empty (beh : Beh) {m : MCfg} {s : SCfg} (h : Sim m s)
    (l arg : Nat) (k : Res → Prog) (mrest : List MFrame)
    (hst : m.stack = .prog (.op (.enum l arg) k) :: mrest) (hl : s.lists l = []) :
    (MCfg.runN beh 1 m).1.trace = .res (.bool true) :: m.trace := by
  have := C01_model_enum beh h l arg k mrest hst (by rw [hl]; simp)
  simpa [hl, callsOf] using this.1

end Evp
