import EventppVerif.Q.OrdAux
import EventppVerif.Q.Shape
import EventppVerif.Q.Eval
/-
  Property C13 — OrderedQueueList processes events in comparator order, stably, exactly once.

  "With the OrderedQueueList queue policy, every processing call dispatches the pending events in
  non-decreasing order of the comparator, events that compare equal keep their enqueue order, …
  also for events put back by processIf/processUntil and for events enqueued while a processing
  call runs, which are merged in order for the next call."

  Model: Q/Machine.lean with `ordered = some asc` (`asc = true`: ascending by event key,
  `asc = false`: descending): every splice into `queueList` is followed by the stable re-sort
  `settle` (= `List.mergeSort (slotLe asc)`).  Events carry the ghost enqueue sequence number `seq`.

  The order: `lexLe asc a b` (Q/OrdAux.lean) — both slots hold an event and `a`'s event is
  strictly before `b`'s in comparator order, or they have equal keys and `a`'s was enqueued earlier.
  A list that is `Pairwise (lexLe asc)` is therefore in non-decreasing comparator order with ties
  in enqueue order, and all its slots (if there are at least two) are occupied.

  All theorems quantify over every behaviour `b` of listeners, filters and predicates (arbitrary
  programs, re-entrant to any depth), every initial world and both directions `asc`.
  Proof: the invariant `SI` of Q/OrdAux.lean (holds initially, preserved by `QCfg.step`, through the
  building blocks `nextFilter`/`nextListener`/`procNext`/`finishProc`/`endDispatch`/`startProc`/
  `apply`) and the stack-shape invariant `Shape` of Q/Shape.lean.
-/
namespace Evp.Q
open Evp QCfg

/-- **C13 (the queue is always sorted).**  In every reachable configuration of an ordered queue,
    `queueList` is in comparator order with ties in enqueue order — whatever was enqueued (also from
    inside listeners, filters and predicates while processing calls run) and whatever was put back
    by `processIf`/`processUntil`.  Moreover every queued slot is occupied. -/
theorem C13_queue_sorted (b : QBeh) (c : QCfg) (asc : Bool) (hr : ReachE b c)
    (ho : c.ordered = some asc) :
    c.queue.Pairwise (fun a b => lexLe asc a b) ∧ ∀ s ∈ c.queue, ∃ e, s.ev = some e := by
  obtain ⟨-, h⟩ := reachable_SIc hr ho
  refine ⟨h.qsorted, ?_⟩
  intro s hs
  obtain ⟨e, he, -⟩ := h.occ s (List.mem_append_right _ hs)
  exact ⟨e, he⟩

/-- **C13 (a processing call dispatches in that order).**  In every reachable configuration of an
    ordered queue, for every processing-call frame `.proc mode todo kept idle phase` anywhere in the
    stack (processing calls nest when a listener calls `process` again):
    * the events already put back followed by the events still to be examined, `kept ++ todo`, are
      sorted by `lexLe` (so `todo` is: the call examines the pending events from the head of `todo`,
      in comparator order, ties in enqueue order);
    * `todo` is not empty, its head slot holds an event `e` — the event being examined —, and there
      is a frame directly above the processing call; in phase `.disp` that frame is the running
      dispatch of `e.key` (`.filt e.key ..`, `.iter e.key ..`, or `.done` when it has just ended),
      in phase `.pred` it is the predicate's program. -/
theorem C13_dispatch_order (b : QBeh) (c : QCfg) (asc : Bool) (hr : ReachE b c)
    (ho : c.ordered = some asc) (above below : List QFrame) (mode : PMode)
    (todo kept idle : List Slot) (ph : Phase)
    (hst : c.stack = above ++ .proc mode todo kept idle ph :: below) :
    (kept ++ todo).Pairwise (fun a b => lexLe asc a b) ∧
    todo.Pairwise (fun a b => lexLe asc a b) ∧
    ∃ above' f s rest e, above = above' ++ [f] ∧ todo = s :: rest ∧ s.ev = some e ∧
      (ph = .disp → isDisp e.key f) ∧ (ph = .pred → isProgish f) := by
  obtain ⟨-, h⟩ := reachable_SIc hr ho
  have hs := reachable_shape hr
  rw [hst] at hs
  have hk : (kept ++ todo).Pairwise (lexLe asc) :=
    h.fsorted (.proc mode todo kept idle ph) (by rw [hst]; simp)
  exact ⟨hk, (List.pairwise_append.1 hk).2.1, shape_proc_frame hs⟩

/-- **C13 (ties across calls).**  In every reachable configuration of an ordered queue, an event
    heldE by a processing call (taken from the queue earlier) and an event with the same key that is
    in the queue now are in enqueue order: the heldE one was enqueued first.  Hence an event enqueued
    while a processing call runs never overtakes an equal event of that call, also when that one is
    put back: it is "merged in order for the next call".  Every heldE or queued event has
    `seq < nextSeq`, the number the next enqueued event gets. -/
theorem C13_taken_before_queued (b : QBeh) (c : QCfg) (asc : Bool) (hr : ReachE b c)
    (ho : c.ordered = some asc) (mode : PMode) (todo kept idle : List Slot) (ph : Phase)
    (hf : QFrame.proc mode todo kept idle ph ∈ c.stack) (s t : Slot) (x y : QEvent)
    (hs : s ∈ kept ++ todo) (ht : t ∈ c.queue) (hx : s.ev = some x) (hy : t.ev = some y) :
    (x.key = y.key → x.seq < y.seq) ∧ x.seq < c.nextSeq ∧ y.seq < c.nextSeq := by
  obtain ⟨-, h⟩ := reachable_SIc hr ho
  have hsh : s ∈ heldE c.stack := mem_held hf hs
  refine ⟨(List.pairwise_append.1 h.tie).2.2 s hsh t ht x y hx hy, ?_, ?_⟩
  · obtain ⟨e, he, hlt⟩ := h.occ s (List.mem_append_left _ hsh)
    rw [hx] at he; cases he; exact hlt
  · obtain ⟨e, he, hlt⟩ := h.occ t (List.mem_append_right _ ht)
    rw [hy] at he; cases he; exact hlt

/-- **C13 (a new processing call takes a prefix of the sorted queue).**  `startProc` on a non-empty
    queue continues as `procNext` with `todo` and the remaining queue `q` such that
    `todo ++ q` is the (sorted) queue: everything for `process`/`processIf`/`processUntil`, the head
    for `processOne`. -/
theorem C13_startProc_prefix (b : QBeh) (c : QCfg) (mode : PMode) (k : QRes → QProg)
    (rest : List QFrame) (hne : c.queue ≠ []) :
    ∃ todo q, todo ++ q = c.queue ∧ (mode = .one → todo = c.queue.take 1) ∧
      (mode ≠ .one → todo = c.queue) ∧
      startProc b c mode k rest =
        procNext b { c with queue := q, ec := c.ec + 1 } mode todo [] [] (.wait k :: rest) := by
  have hne' : c.queue.isEmpty = false := by
    cases hq : c.queue with
    | nil => exact (hne hq).elim
    | cons _ _ => rfl
  cases mode with
  | one =>
    exact ⟨c.queue.take 1, c.queue.drop 1, List.take_append_drop 1 c.queue, fun _ => rfl,
      fun h => (h rfl).elim, by simp [startProc, hne']⟩
  | all => exact ⟨c.queue, [], by simp, nofun, fun _ => rfl, by simp [startProc, hne']⟩
  | ifp p => exact ⟨c.queue, [], by simp, nofun, fun _ => rfl, by simp [startProc, hne']⟩
  | untilp p => exact ⟨c.queue, [], by simp, nofun, fun _ => rfl, by simp [startProc, hne']⟩

/-- **C13 (`todo` is consumed from the head).**  When the dispatch of the head `s` of `todo` has
    ended, the event is consumed (ghost event `.consumed seq 0`), the emptied slot goes to `idle`,
    and the call goes on with the rest of `todo`.  (By definition of `endDispatch`; stated for the
    record.) -/
theorem C13_next_is_tail (b : QBeh) (c : QCfg) (mode : PMode) (s : Slot) (e : QEvent)
    (rest kept idle : List Slot) (below : List QFrame) (hev : s.ev = some e) :
    endDispatch b c (.proc mode (s :: rest) kept idle .disp :: below) =
      procNext b (c.push (.consumed e.seq 0)) mode rest kept (idle ++ [{ s with ev := none }]) below := by
  simp [endDispatch, hev]

/-- **C13 (settling is a permutation).**  The re-sort of `OrderedQueueList` (and the plain splice of
    `std::list`) never loses or duplicates a slot, so the exactly-once accounting of C05 does not
    depend on the queue policy. -/
theorem C13_perm (o : Option Bool) (l : List Slot) : List.Perm (settle o l) l :=
  settle_perm o l

/-- **C13 (what settling produces).**  If every slot of `l` is occupied and equal keys occur in `l`
    in enqueue order (`tieOK`), then `settle (some asc) l` is in comparator order with ties in
    enqueue order: the stable sort merges put-back and newly enqueued events in order. -/
theorem C13_settle_sorted (asc : Bool) (l : List Slot) (hocc : ∀ s ∈ l, ∃ e, s.ev = some e)
    (htie : l.Pairwise tieOK) : (settle (some asc) l).Pairwise (fun a b => lexLe asc a b) :=
  pairwise_lexLe_settle asc l hocc htie

/-! ### non-vacuity -/

namespace C13ex

def seqP : List QCmd → QProg
  | [] => .ret true
  | c :: r => .op c (fun _ => seqP r)

/-- listener 7 returns; predicate 50 declines exactly the event with argument 10 -/
def beh : QBeh where
  run := fun call _ => match call.kind with
    | .pred => .ret (decide (call.arg ≠ 10))
    | _ => .ret true
  rewrite := fun _ a => a

/-- ascending queue; keys 3,1,2,1 enqueued (arguments 30,10,20,11); `processIf` whose predicate
    declines the first key-1 event (argument 10); another key-1 event (argument 12); `process`. -/
def prog : QProg := seqP
  [.listen 1 7, .listen 2 7, .listen 3 7,
   .enqueue 3 30, .enqueue 1 10, .enqueue 2 20, .enqueue 1 11,
   .processIf 50, .enqueue 1 12, .process]

def c0 : QCfg := { ordered := some true, nkeys := 4, stack := [.prog prog] }

def listenerArgs (tr : List QEv) : List (Nat × Nat) :=
  tr.reverse.filterMap (fun
    | .call ⟨.listener, key, _, _, arg⟩ => some (key, arg)
    | _ => none)

def consumedSeqs (tr : List QEv) : List Nat :=
  tr.reverse.filterMap (fun | .consumed s 0 => some s | _ => none)

theorem c0_init : InitE c0 := ⟨rfl, rfl, rfl, rfl, rfl, rfl, _, rfl⟩

/-- The first call dispatches key 1 (the second one enqueued: the first was declined), 2, 3 — sorted
    although enqueued as 3,1,2,1; the declined event is put back and the next call dispatches it
    *before* the key-1 event enqueued later (ties in enqueue order).  Every event exactly once. -/
example : listenerArgs (runN beh 200 c0).1.trace = [(1, 11), (2, 20), (3, 30), (1, 10), (1, 12)] ∧
    consumedSeqs (runN beh 200 c0).1.trace = [3, 2, 0, 1, 4] ∧
    (runN beh 200 c0).2 = true := by
  rw [runN_eq_eval]
  decide +kernel

/-- after the four enqueues the queue is sorted: keys 1,1,2,3 with the two key-1 events in enqueue
    order (seq 1 before seq 3) -/
example : (runN beh 7 c0).1.queue.map (fun s => s.ev.map (fun e => (e.key, e.seq))) =
    [some (1, 1), some (1, 3), some (2, 2), some (3, 0)] := by
  rw [runN_eq_eval]
  decide +kernel

/-- the hypotheses of the theorems are satisfiable: that configuration is reachable and ordered, and
    its queue is sorted (checked here by evaluation as well) -/
example : ReachE beh (runN beh 7 c0).1 ∧ (runN beh 7 c0).1.ordered = some true :=
  ⟨⟨c0, 7, c0_init, rfl⟩, by rw [runN_ordered]; rfl⟩

/-- descending order works the same way -/
example : listenerArgs (runN beh 200 { c0 with ordered := some false }).1.trace =
    [(3, 30), (2, 20), (1, 11), (1, 10), (1, 12)] := by
  rw [runN_eq_eval]
  decide +kernel

/-- a processing-call frame in the middle of a run: while listener 7 runs for the event with
    argument 11 (step 10), the frame's `todo` is keys `[1, 2, 3]`, `kept` is the declined key-1
    event, phase `.disp`, and the frame sits under the listener's program and the `.iter 1` frame -/
example : ((runN beh 10 c0).1.stack.map (fun
      | .proc _ todo kept _ ph => some (todo.map (fun s => s.ev.map (·.key)), kept.map (fun s => s.ev.map (·.key)), ph)
      | _ => none)) =
    [none, none, some ([some 1, some 2, some 3], [some 1], .disp), none] := by
  rw [runN_eq_eval]
  decide +kernel

end C13ex
end Evp.Q
