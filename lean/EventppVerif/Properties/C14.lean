import EventppVerif.Util.Heter
