import EventppVerif.Util.HeterAux
/-
  Property C14 — heterogeneous classes: prototype selection, routing and queued events.

  "In HeterCallbackList, HeterEventDispatcher and HeterEventQueue a callback is bound to the first
   listed prototype it can be called with, and an invocation, dispatch or enqueue selects the first
   listed prototype callable with its argument types and reaches exactly the callbacks bound to that
   prototype, in their order, once each, with intact arguments.  Queued events of different
   prototypes are each consumed exactly once in FIFO order by process and processOne, and processIf
   examines only events of prototypes its predicate is callable with, leaving every other event
   untouched, intact and in place."

  Model (Util/Heter.lean): a `Sig` lists `nproto` prototypes and three callable matrices
  (`cbOk kind p`: a callback of kind `kind` can be called with the arguments of prototype `p`;
  `argOk p kind`: prototype `p` can be called with arguments of kind `kind`; `predOk f p`: a
  processIf predicate of kind `f` can be called with the arguments of prototype `p`); the harness
  measures them from the compiler.  A world `HW` has one Spec-level callback list (`SList`, C01/C02)
  per (event key, prototype) at `lists (slot key p)`, a queue of `HEvent`s (sequence number, key,
  `tag` = the prototype index the event was filed under, argument kind and value), the counters
  `nextId` / `nextSeq` and the ghost flag `confused`.  `step sg w op` performs one public operation
  (`HOp`) and returns the new world and the observable events (`HEv.call key p handle cb kind val`
  for a listener call, `HEv.pred pkind kind val` for a predicate call, `HEv.res s` for the result of
  the operation); `run` performs a sequence (non-re-entrant histories).

  All theorems quantify over every `Sig`, every world (or every history from the empty world where
  stated) and all keys, kinds, values, callbacks.  All proofs are in Util/HeterAux.lean or below.
  (The slots of two different (key, prototype) pairs are different as long as at most 16 prototypes
  are listed: `C14_slot_inj`.)
-/
namespace Evp.Heter
open Evp

/-! ## 1. selection -/

/-- `firstMatch n ok` is the least index `p < n` with `ok p`, and `none` iff there is none;
    `nextMatch n ok p` is the least index `p' < n` greater than `p` with `ok p'`, and `none` iff
    there is none. -/
theorem C14_select (n : Nat) (ok : Nat → Bool) :
    (∀ p, firstMatch n ok = some p ↔ p < n ∧ ok p = true ∧ ∀ q < p, ok q = false) ∧
    (firstMatch n ok = none ↔ ∀ q < n, ok q = false) ∧
    (∀ p p', nextMatch n ok p = some p' ↔
      p' < n ∧ p < p' ∧ ok p' = true ∧ ∀ q, p < q → q < p' → ok q = false) ∧
    (∀ p, nextMatch n ok p = none ↔ ∀ q, p < q → q < n → ok q = false) :=
  ⟨firstMatch_some n ok, firstMatch_none n ok, nextMatch_some n ok, nextMatch_none n ok⟩

/-- distinct (key, prototype) pairs have distinct listener lists (at most 16 prototypes) -/
theorem C14_slot_inj (key key' p p' : Nat) (hp : p < 16) (hp' : p' < 16)
    (h : slot key p = slot key' p') : key = key' ∧ p = p' :=
  slot_inj hp hp' h

/-! ## 2. binding a callback -/

/-- `appendListener` / `append` of a callback of kind `kind` for event `key`: if `p` is the first
    listed prototype the callback can be called with, the entry `⟨w.nextId, cb⟩` is appended to the
    list of (key, p), every other list (every other prototype of `key`, every other key) is
    unchanged, the queue is unchanged and the handle returned is `w.nextId`.  If the callback can be
    called with no listed prototype, nothing changes. -/
theorem C14_bind (sg : Sig) (w : HW) (key kind : Nat) (cb : Cb) :
    (∀ p, p < sg.nproto → sg.cbOk kind p = true → (∀ q < p, sg.cbOk kind q = false) →
      (step sg w (.listen key kind cb)).1.lists (slot key p) =
          w.lists (slot key p) ++ [⟨w.nextId, cb⟩] ∧
      (∀ s, s ≠ slot key p → (step sg w (.listen key kind cb)).1.lists s = w.lists s) ∧
      (step sg w (.listen key kind cb)).1.nextId = w.nextId + 1 ∧
      (step sg w (.listen key kind cb)).1.queue = w.queue ∧
      (step sg w (.listen key kind cb)).1.nextSeq = w.nextSeq ∧
      (step sg w (.listen key kind cb)).2 = [.res s!"h{w.nextId}"]) ∧
    ((∀ q < sg.nproto, sg.cbOk kind q = false) →
      step sg w (.listen key kind cb) = (w, [.res "nomatch"])) := by
  constructor
  · intro p h1 h2 h3
    have hfm := (firstMatch_some sg.nproto (fun p => sg.cbOk kind p) p).2 ⟨h1, h2, h3⟩
    rw [step_listen_some sg w key kind cb p hfm]
    refine ⟨?_, ?_, rfl, rfl, rfl, rfl⟩
    · show (upd w.lists (slot key p) _) (slot key p) = _
      rw [upd_get, if_pos rfl]; rfl
    · intro s hs
      show (upd w.lists (slot key p) _) s = _
      rw [upd_get, if_neg hs]
  · intro h
    exact step_listen_none sg w key kind cb ((firstMatch_none _ _).2 h)

/-! ## 3. routing an invocation / dispatch -/

/-- `dispatch key (args of kind `kind`, value `val`)`: if `p` is the first listed prototype callable
    with the argument kind, the events are exactly one call per entry of the list of (key, p), in
    list order, each carrying the same `kind val` (arguments intact), followed by the result; the
    world is unchanged.  If no prototype is callable nothing is called. -/
theorem C14_route (sg : Sig) (w : HW) (key kind val : Nat) :
    (∀ p, p < sg.nproto → sg.argOk p kind = true → (∀ q < p, sg.argOk q kind = false) →
      step sg w (.dispatch key kind val) =
        (w, (w.lists (slot key p)).map (fun e => HEv.call key p e.id e.cb kind val)
              ++ [.res "unit"])) ∧
    ((∀ q < sg.nproto, sg.argOk q kind = false) →
      step sg w (.dispatch key kind val) = (w, [.res "unit"])) := by
  constructor
  · intro p h1 h2 h3
    have hfm := (firstMatch_some sg.nproto (fun p => sg.argOk p kind) p).2 ⟨h1, h2, h3⟩
    rw [step_dispatch, dispatchEv_of_some sg w key kind val p hfm]
  · intro h
    rw [step_dispatch, dispatchEv_of_none sg w key kind val ((firstMatch_none _ _).2 h)]; rfl

/-- … hence no entry of any other list is called and no argument is altered: every call event of a
    dispatch is a call of an entry of the list of (key, first callable prototype) with the given
    arguments. -/
theorem C14_route_only (sg : Sig) (w : HW) (key kind val : Nat)
    (key' p' : Nat) (h : Hd) (cb : Cb) (kind' val' : Nat)
    (hmem : HEv.call key' p' h cb kind' val' ∈ (step sg w (.dispatch key kind val)).2) :
    key' = key ∧ kind' = kind ∧ val' = val ∧ p' < sg.nproto ∧ sg.argOk p' kind = true ∧
      (∀ q < p', sg.argOk q kind = false) ∧ ⟨h, cb⟩ ∈ w.lists (slot key p') := by
  cases hfm : firstMatch sg.nproto (fun p => sg.argOk p kind) with
  | none =>
    rw [step_dispatch, dispatchEv_of_none sg w key kind val hfm] at hmem
    rcases List.mem_singleton.1 hmem with hmem
    cases hmem
  | some p =>
    obtain ⟨h1, h2, h3⟩ := (firstMatch_some _ _ _).1 hfm
    rw [step_dispatch, dispatchEv_of_some sg w key kind val p hfm] at hmem
    rcases List.mem_append.1 hmem with hmem | hmem
    · rw [List.mem_map] at hmem
      obtain ⟨e, he, heq⟩ := hmem
      cases heq
      exact ⟨rfl, rfl, rfl, h1, h2, h3, he⟩
    · rcases List.mem_singleton.1 hmem with hmem
      cases hmem

/-! ## 4. enqueue -/

/-- `enqueue key (args of kind `kind`, value `val`)` appends exactly one event at the back of the
    queue: fresh sequence number, the given key / kind / value, filed under the first listed
    prototype callable with the argument kind; listener lists are unchanged.  Without a callable
    prototype nothing changes. -/
theorem C14_enqueue_tag (sg : Sig) (w : HW) (key kind val : Nat) :
    (∀ p, p < sg.nproto → sg.argOk p kind = true → (∀ q < p, sg.argOk q kind = false) →
      (step sg w (.enqueue key kind val)).1.queue =
          w.queue ++ [{ seq := w.nextSeq, key := key, tag := p, kind := kind, val := val }] ∧
      (step sg w (.enqueue key kind val)).1.nextSeq = w.nextSeq + 1 ∧
      (step sg w (.enqueue key kind val)).1.lists = w.lists ∧
      (step sg w (.enqueue key kind val)).1.nextId = w.nextId ∧
      (step sg w (.enqueue key kind val)).2 = [.res "unit"]) ∧
    ((∀ q < sg.nproto, sg.argOk q kind = false) →
      step sg w (.enqueue key kind val) = (w, [.res "nomatch"])) := by
  constructor
  · intro p h1 h2 h3
    have hfm := (firstMatch_some sg.nproto (fun p => sg.argOk p kind) p).2 ⟨h1, h2, h3⟩
    rw [step_enqueue_some sg w key kind val p hfm]
    exact ⟨rfl, rfl, rfl, rfl, rfl⟩
  · intro h
    exact step_enqueue_none sg w key kind val ((firstMatch_none _ _).2 h)

/-! ## 5. process / processOne: exactly once, FIFO -/

/-- `process` on a non-empty queue empties it; its events are the concatenation, in queue order, of
    the dispatch of every queued event (each exactly once, with its own key / kind / value),
    followed by `true`.  On an empty queue it does nothing and returns `false`. -/
theorem C14_process (sg : Sig) (w : HW) :
    (w.queue ≠ [] →
      step sg w .process =
        ({ w with queue := [] },
          w.queue.flatMap (fun e => dispatchEv sg w e.key e.kind e.val) ++ [.res "true"])) ∧
    (w.queue = [] → step sg w .process = (w, [.res "false"])) :=
  ⟨step_process_ne sg w, step_process_nil sg w⟩

/-- `processOne` consumes exactly the head of the queue (the oldest event), dispatches it once and
    leaves the rest in place. -/
theorem C14_processOne (sg : Sig) (w : HW) :
    (∀ e rest, w.queue = e :: rest →
      step sg w .processOne =
        ({ w with queue := rest }, dispatchEv sg w e.key e.kind e.val ++ [.res "true"])) ∧
    (w.queue = [] → step sg w .processOne = (w, [.res "false"])) :=
  ⟨step_processOne_cons sg w, step_processOne_nil sg w⟩

/-- What the invariant `WF sg w` says. -/
theorem C14_WF_def (sg : Sig) (w : HW) : WF sg w ↔
    (w.queue.map (·.seq)).Pairwise (· < ·) ∧
    (∀ e ∈ w.queue, e.seq < w.nextSeq) ∧
    (∀ e ∈ w.queue, firstMatch sg.nproto (fun p => sg.argOk p e.kind) = some e.tag) ∧
    (∀ s, ((w.lists s).map (·.id)).Pairwise (· < ·)) ∧
    (∀ s, ∀ e ∈ w.lists s, e.id < w.nextId) ∧
    w.confused = false :=
  ⟨fun ⟨a, b, c, d, e, f⟩ => ⟨a, b, c, d, e, f⟩, fun ⟨a, b, c, d, e, f⟩ => ⟨a, b, c, d, e, f⟩⟩

/-- The invariant is preserved by every operation and every history. -/
theorem C14_WF_step (sg : Sig) (w : HW) (h : WF sg w) (op : HOp) : WF sg (step sg w op).1 :=
  WF_step h op

theorem C14_WF_run (sg : Sig) (w : HW) (h : WF sg w) (ops : List HOp) : WF sg (run sg w ops).1 :=
  WF_run h ops

/-- FIFO, globally: after any history from the empty world the queue is in enqueue order (the
    sequence numbers are strictly increasing, hence distinct, and all issued), every queued event
    is filed under the first listed prototype callable with its argument kind (and that index is
    `< nproto`), and the handles in every listener list are strictly increasing (so "once per
    entry" is "once per handle").  Together with `C14_process`, `C14_processOne` and
    `C14_processIf_scope` (every operation removes a sub-list of the queue and dispatches exactly
    what it removes): every enqueued event is consumed at most once, oldest first. -/
theorem C14_fifo (sg : Sig) (ops : List HOp) :
    ((run sg {} ops).1.queue.map (·.seq)).Pairwise (· < ·) ∧
    (∀ e ∈ (run sg {} ops).1.queue, e.seq < (run sg {} ops).1.nextSeq) ∧
    (∀ e ∈ (run sg {} ops).1.queue,
      e.tag < sg.nproto ∧ sg.argOk e.tag e.kind = true ∧ ∀ q < e.tag, sg.argOk q e.kind = false) ∧
    (∀ s, (((run sg {} ops).1.lists s).map (·.id)).Pairwise (· < ·)) := by
  have h := WF_run (WF_init sg) ops
  exact ⟨h.fifo, h.fresh, fun e he => (firstMatch_some _ _ _).1 (h.tagged e he), h.idsInc⟩

/-- Every operation leaves a sub-list of the queue plus, for `enqueue`, one new event at the back:
    nothing is reordered, duplicated or invented. -/
theorem C14_queue_order (sg : Sig) (w : HW) (op : HOp) :
    ((step sg w op).1.queue).Sublist w.queue ∨
    ∃ e, (step sg w op).1.queue = w.queue ++ [e] := by
  cases op with
  | listen key kind cb =>
    left
    cases hfm : firstMatch sg.nproto (fun p => sg.cbOk kind p) with
    | none => rw [step_listen_none _ _ _ _ _ hfm]; exact List.Sublist.refl _
    | some p => rw [step_listen_some _ _ _ _ _ _ hfm]; exact List.Sublist.refl _
  | remove key hd p => left; exact List.Sublist.refl _
  | dispatch key kind val => left; exact List.Sublist.refl _
  | enqueue key kind val =>
    cases hfm : firstMatch sg.nproto (fun p => sg.argOk p kind) with
    | none => left; rw [step_enqueue_none _ _ _ _ _ hfm]; exact List.Sublist.refl _
    | some p => right; rw [step_enqueue_some _ _ _ _ _ _ hfm]; exact ⟨_, rfl⟩
  | process =>
    left
    by_cases hq : w.queue = []
    · rw [step_process_nil _ _ hq]; exact List.Sublist.refl _
    · rw [step_process_ne _ _ hq]; exact List.nil_sublist _
  | processOne =>
    left
    cases hq : w.queue with
    | nil => rw [step_processOne_nil _ _ hq, hq]; exact List.Sublist.refl _
    | cons e rest => rw [step_processOne_cons _ _ e rest hq]; exact List.sublist_cons_self _ _
  | processIf pkind m r => left; exact step_processIf_queue_sublist sg w pkind m r

/-- A queued event is dispatched to the listeners of the prototype it was filed under: in a
    well-formed world the dispatch of a queued event `e` is exactly one call per entry of the list
    of (e.key, e.tag), in order, with `e`'s own kind and value. -/
theorem C14_queued_dispatch (sg : Sig) (w : HW) (h : WF sg w) (e : HEvent) (he : e ∈ w.queue) :
    dispatchEv sg w e.key e.kind e.val =
      (w.lists (slot e.key e.tag)).map (fun x => HEv.call e.key e.tag x.id x.cb e.kind e.val) :=
  dispatchEv_of_some sg w e.key e.kind e.val e.tag (h.tagged e he)

/-! ## 6. processIf -/

/-- One pass of `doProcessIf` for prototype `p` over a queue `q`
    (`ifPass … p q = (kept, evs, any)`):
    (a) `kept` is a sub-list of `q` (order preserved, nothing duplicated or invented);
    (b) every event filed under another prototype is kept, in place;
    (c) the events removed are exactly those filed under `p` which the predicate accepts;
    (d) every predicate call is for an event filed under `p` (with that event's kind and value);
    (e) the other events of the pass are exactly the dispatches of the removed events, in order;
    (f) `any` is `true` iff some event was removed. -/
theorem C14_processIf_pass (sg : Sig) (w : HW) (pkind m r p : Nat) (q : List HEvent) :
    ((ifPass sg w pkind m r p q).1).Sublist q ∧
    q.filter (fun e => decide (e.tag ≠ p)) =
      (ifPass sg w pkind m r p q).1.filter (fun e => decide (e.tag ≠ p)) ∧
    (ifPass sg w pkind m r p q).1 =
      q.filter (fun e => !(decide (e.tag = p) && predVal m r e.val)) ∧
    (∀ ev ∈ (ifPass sg w pkind m r p q).2.1, ev.isPred = true →
      ∃ e ∈ q, e.tag = p ∧ ev = HEv.pred pkind e.kind e.val) ∧
    (ifPass sg w pkind m r p q).2.1.filter (fun ev => !ev.isPred) =
      (q.filter (fun e => decide (e.tag = p) && predVal m r e.val)).flatMap
        (fun e => dispatchEv sg w e.key e.kind e.val) ∧
    ((ifPass sg w pkind m r p q).2.2 = true ↔ ∃ e ∈ q, e.tag = p ∧ predVal m r e.val = true) := by
  refine ⟨?_, ?_, ifPass_kept .., fun ev h hp => ifPass_pred_mem _ _ _ _ _ _ _ _ h hp,
    ifPass_evs_noPred .., ?_⟩
  · rw [ifPass_kept]; exact List.filter_sublist
  · rw [ifPass_kept, List.filter_filter]
    apply List.filter_congr
    intro e _
    by_cases ht : e.tag = p <;> simp [removedBy, ht]
  · rw [ifPass_any, List.any_eq_true]
    constructor
    · rintro ⟨e, he, hr⟩
      simp only [removedBy, Bool.and_eq_true, decide_eq_true_eq] at hr
      exact ⟨e, he, hr⟩
    · rintro ⟨e, he, h1, h2⟩
      exact ⟨e, he, by simp [removedBy, h1, h2]⟩

/-- `Cand sg pkind m r q 0 p`: `p` is a listed prototype the predicate is callable with and some
    event of `q` filed under `p` is accepted by the predicate. -/
theorem C14_Cand_def (sg : Sig) (pkind m r : Nat) (q : List HEvent) (lb p : Nat) :
    Cand sg pkind m r q lb p ↔
      lb ≤ p ∧ p < sg.nproto ∧ sg.predOk pkind p = true ∧
        ∃ e ∈ q, (decide (e.tag = p) && predVal m r e.val) = true :=
  Iff.rfl

/-- `processIf` with a predicate of kind `pkind` — scope:
    (a) the new queue is a sub-list of the old one;
    (b) the events filed under prototypes the predicate is NOT callable with are all kept, in
        their original relative order (untouched, in place);
    (c) every predicate call is for a queued event filed under a prototype the predicate IS
        callable with, and carries that event's kind and value (intact);
    (d) listener lists and counters are unchanged;
    (e) the returned boolean is `true` iff something was removed (= dispatched). -/
theorem C14_processIf_scope (sg : Sig) (w : HW) (pkind m r : Nat) :
    ((step sg w (.processIf pkind m r)).1.queue).Sublist w.queue ∧
    w.queue.filter (fun e => !sg.predOk pkind e.tag) =
      (step sg w (.processIf pkind m r)).1.queue.filter (fun e => !sg.predOk pkind e.tag) ∧
    (∀ ev ∈ (step sg w (.processIf pkind m r)).2, ev.isPred = true →
      ∃ e ∈ w.queue, sg.predOk pkind e.tag = true ∧ ev = HEv.pred pkind e.kind e.val) ∧
    ((step sg w (.processIf pkind m r)).1.lists = w.lists ∧
      (step sg w (.processIf pkind m r)).1.nextId = w.nextId ∧
      (step sg w (.processIf pkind m r)).1.nextSeq = w.nextSeq) ∧
    (HEv.res "true" ∈ (step sg w (.processIf pkind m r)).2 ↔
      (step sg w (.processIf pkind m r)).1.queue.length < w.queue.length) := by
  refine ⟨step_processIf_queue_sublist sg w pkind m r, ?_,
    fun ev h hp => step_processIf_pred sg w pkind m r ev h hp, ?_, ?_⟩
  · rcases step_processIf_spec sg w pkind m r with ⟨h1, _, _⟩ | ⟨p, hc, _, h1, _⟩
    · rw [h1]
    · rw [h1]
      show _ = List.filter _ (List.filter _ _)
      rw [List.filter_filter]
      apply List.filter_congr
      intro e _
      by_cases ht : e.tag = p
      · rw [ht, hc.2.2.1]; rfl
      · simp [removedBy, ht]
  · rcases step_processIf_spec sg w pkind m r with ⟨h1, _, _⟩ | ⟨p, _, _, h1, _⟩
    · rw [h1]; exact ⟨rfl, rfl, rfl⟩
    · rw [h1]; exact ⟨rfl, rfl, rfl⟩
  · have hres : HEv.res "true" ∈ (step sg w (.processIf pkind m r)).2 ↔
        HEv.res "true" ∈ (step sg w (.processIf pkind m r)).2.filter (fun ev => !ev.isPred) := by
      rw [List.mem_filter]
      exact ⟨fun h => ⟨h, rfl⟩, fun h => h.1⟩
    rw [hres]
    rcases step_processIf_spec sg w pkind m r with ⟨h1, h2, _⟩ | ⟨p, hc, _, h1, h2⟩
    · rw [h1, h2]
      constructor
      · intro h
        rcases List.mem_singleton.1 h with h
        exact absurd h (by decide)
      · intro h; exact absurd h (Nat.lt_irrefl _)
    · rw [h1, h2]
      constructor
      · intro _
        show (List.filter _ w.queue).length < _
        rw [List.length_filter_lt_length_iff_exists]
        obtain ⟨_, _, _, e, he, hr⟩ := hc
        exact ⟨e, he, by simp [hr]⟩
      · intro _
        exact List.mem_append_right _ (List.mem_singleton.2 rfl)

/-- `processIf` — exact effect.  Either no listed prototype the predicate is callable with has a
    queued event the predicate accepts: then the world is unchanged, nothing is dispatched and the
    result is `false`.  Or `p` is the FIRST listed prototype the predicate is callable with that has
    an accepted queued event: then exactly the accepted events filed under `p` are removed, every
    other event (of `p` or of any other prototype) stays in place, the removed events are dispatched
    exactly once each, in queue order, and the result is `true`.  (The events not shown by the
    filter are the predicate calls, see `C14_processIf_scope` (c).) -/
theorem C14_processIf_exact (sg : Sig) (w : HW) (pkind m r : Nat) :
    ((step sg w (.processIf pkind m r)).1 = w ∧
      (step sg w (.processIf pkind m r)).2.filter (fun ev => !ev.isPred) = [.res "false"] ∧
      ∀ p, ¬ Cand sg pkind m r w.queue 0 p) ∨
    (∃ p, Cand sg pkind m r w.queue 0 p ∧ (∀ p', p' < p → ¬ Cand sg pkind m r w.queue 0 p') ∧
      (step sg w (.processIf pkind m r)).1 =
        { w with queue :=
            w.queue.filter (fun e => !(decide (e.tag = p) && predVal m r e.val)) } ∧
      (step sg w (.processIf pkind m r)).2.filter (fun ev => !ev.isPred) =
        (w.queue.filter (fun e => decide (e.tag = p) && predVal m r e.val)).flatMap
            (fun e => dispatchEv sg w e.key e.kind e.val)
          ++ [.res "true"]) :=
  step_processIf_spec sg w pkind m r

/-! ## 7. no type confusion -/

/-- `confused` records a queued slot being read as the wrong type.  In this model a typed read of a
    queued event happens only in `ifPass`, behind the test `e.tag = p` — which is what the repaired
    `doProcessIf` does (the prototype index is read through `QueuedItemBase` before the slot is
    re-typed) — and `process` / `processOne` dispatch through the event's own index.  So no
    operation sets the flag, and it is `false` after every history. -/
theorem C14_no_confusion (sg : Sig) :
    (∀ w op, (step sg w op).1.confused = w.confused) ∧
    (∀ ops, (run sg {} ops).1.confused = false) := by
  constructor
  · intro w op
    cases op with
    | listen key kind cb =>
      cases hfm : firstMatch sg.nproto (fun p => sg.cbOk kind p) with
      | none => rw [step_listen_none _ _ _ _ _ hfm]
      | some p => rw [step_listen_some _ _ _ _ _ _ hfm]
    | remove key hd p => rfl
    | dispatch key kind val => rfl
    | enqueue key kind val =>
      cases hfm : firstMatch sg.nproto (fun p => sg.argOk p kind) with
      | none => rw [step_enqueue_none _ _ _ _ _ hfm]
      | some p => rw [step_enqueue_some _ _ _ _ _ _ hfm]
    | process =>
      by_cases hq : w.queue = []
      · rw [step_process_nil _ _ hq]
      · rw [step_process_ne _ _ hq]
    | processOne =>
      cases hq : w.queue with
      | nil => rw [step_processOne_nil _ _ hq]
      | cons e rest => rw [step_processOne_cons _ _ e rest hq]
    | processIf pkind m r =>
      rw [step_processIf_eq]
      split <;> rfl
  · intro ops
    exact (WF_run (WF_init sg) ops).unconfused

/-! ## 8. non-vacuity -/

/-- argument / callback / predicate kinds: 0 none, 1 int, 2 std::string, 3 Big, 4 long, 5 short;
    prototypes: 0 `void()`, 1 `void(int)`, 2 `void(const std::string&)`, 3 `void(const Big&)`,
    4 `void(long)`.  int / long / short convert into each other, everything else only matches
    itself.  (Predicate kind 9 is a generic lambda, callable with every prototype.) -/
def conv : Nat → Nat → Bool
  | 0, 0 => true
  | 1, 1 => true
  | 1, 4 => true
  | 4, 1 => true
  | 4, 4 => true
  | 5, 1 => true
  | 5, 4 => true
  | 2, 2 => true
  | 3, 3 => true
  | _, _ => false

def realSig : Sig where
  nproto := 5
  cbOk := fun kind p => conv kind p
  argOk := fun p kind => conv kind p
  -- predicate kind 9: a generic lambda, callable with every prototype
  predOk := fun f p => f == 9 || conv f p

/-- listeners of kinds int, string, long, Big on event 1; `dispatch(1, long 7)` -/
def demoOps : List HOp :=
  [.listen 1 1 101, .listen 1 2 201, .listen 1 4 401, .listen 1 3 301, .dispatch 1 4 7,
   .enqueue 1 2 10, .enqueue 1 1 11, .enqueue 1 3 12]

/-- The `long` argument selects `void(int)` (prototype 1, the first callable one) and reaches the
    `int` and the `long` callback — both bound to prototype 1 — in order, once each, and neither the
    `string` nor the `Big` callback.  The three enqueued events are filed under prototypes 2, 1, 3.
    `processIf` with an `int` predicate accepting everything examines and dispatches only the
    prototype-1 event; the string and Big events stay, in order. -/
example :
    (run realSig {} demoOps).2 =
      [.res "h0", .res "h1", .res "h2", .res "h3",
       .call 1 1 0 101 4 7, .call 1 1 2 401 4 7, .res "unit",
       .res "unit", .res "unit", .res "unit"] ∧
    (run realSig {} demoOps).1.queue =
      [⟨0, 1, 2, 2, 10⟩, ⟨1, 1, 1, 1, 11⟩, ⟨2, 1, 3, 3, 12⟩] ∧
    (run realSig {} (demoOps ++ [.processIf 1 1 0])).2.drop 10 =
      [.pred 1 1 11, .call 1 1 0 101 1 11, .call 1 1 2 401 1 11, .res "true"] ∧
    (run realSig {} (demoOps ++ [.processIf 1 1 0])).1.queue =
      [⟨0, 1, 2, 2, 10⟩, ⟨2, 1, 3, 3, 12⟩] := by
  decide +kernel

/-- A `string` predicate rejecting the value: only the string event is examined, nothing is
    dispatched, the queue is unchanged; then `processOne` consumes the oldest event (the string
    one, reaching the string callback only) and `process` the remaining two in FIFO order. -/
example :
    (run realSig {} (demoOps ++ [.processIf 2 2 1, .processOne, .process])).2.drop 10 =
      [.pred 2 2 10, .res "false",
       .call 1 2 1 201 2 10, .res "true",
       .call 1 1 0 101 1 11, .call 1 1 2 401 1 11, .call 1 3 3 301 3 12, .res "true"] ∧
    (run realSig {} (demoOps ++ [.processIf 2 2 1, .processOne, .process])).1.queue = [] := by
  decide +kernel

/-- A generic predicate (callable with every prototype) accepting even values: the passes run in
    listed prototype order — `void()` has no event, the `int` event 11 is examined and rejected,
    the `string` event 10 is examined, accepted, removed and dispatched to the string callback;
    that pass dispatched something, so `processIf` stops: the `Big` event is not examined.  The
    `int` and `Big` events stay in place, in order. -/
example :
    (run realSig {} (demoOps ++ [.processIf 9 2 0])).2.drop 10 =
      [.pred 9 1 11, .pred 9 2 10, .call 1 2 1 201 2 10, .res "true"] ∧
    (run realSig {} (demoOps ++ [.processIf 9 2 0])).1.queue =
      [⟨1, 1, 1, 1, 11⟩, ⟨2, 1, 3, 3, 12⟩] := by
  decide +kernel

end Evp.Heter
