import EventppVerif.Util.HeterSpawn
import EventppVerif.Properties.C14
/-
  Property C14 — queued events and listeners that enqueue while a processing call runs.

  "Queued events of different prototypes are each consumed exactly once in FIFO order by process and
  processOne, and processIf examines only events of prototypes its predicate is callable with,
  leaving every other event untouched, intact and in place."

  `stepS` (Util/HeterSpawn.lean) is one top-level operation whose listeners may enqueue.  "In place"
  has a consequence that the non-re-entrant theorems of C14.lean cannot see: the events that
  `processIf` does not consume (and the rest of the queue after `processOne`) must come back IN
  FRONT of the events enqueued while the call was running — otherwise an older event ends up
  behind a younger one and FIFO order is lost.
-/
namespace Evp.Heter
open Evp

/-- **C14 (listeners that enqueue).**  For every operation: the listener calls and results are
    those of the non-re-entrant operation; so are the listener lists; and the queue is the queue
    the non-re-entrant operation leaves — every event in place and intact — followed by the
    events the listeners enqueued (each filed under the first listed prototype callable with its
    argument kind, carrying its key / kind / value). -/
theorem C14_spawn_in_place (sg : Sig) (sp : Spawn) (w : HW) (op : HOp) :
    (stepS sg sp w op).2 = (step sg w op).2 ∧
    (stepS sg sp w op).1.lists = (step sg w op).1.lists ∧
    ∃ added, (stepS sg sp w op).1.queue = (step sg w op).1.queue ++ added ∧
      added.length ≤ (spawnedOf sp (step sg w op).2).length ∧
      ∀ e ∈ added, ∃ x ∈ spawnedOf sp (step sg w op).2, e.key = x.1 ∧ e.kind = x.2.1 ∧ e.val = x.2.2 ∧
        firstMatch sg.nproto (fun p => sg.argOk p x.2.1) = some e.tag := by
  obtain ⟨added, h1, h2, _, h4, h5⟩ := enqueueAll_prefix sg (spawnedOf sp (step sg w op).2) (step sg w op).1
  exact ⟨rfl, h2, added, h1, h4, h5⟩

/-- **C14 (`processIf` puts back in front).**  With enqueuing listeners, after `processIf` the
    queue is: the events `processIf` did not consume — exactly as `C14_processIf_exact` describes
    them, in their original order — and behind them whatever was enqueued meanwhile. -/
theorem C14_spawn_processIf (sg : Sig) (sp : Spawn) (w : HW) (pkind m r : Nat) :
    ∃ added, (stepS sg sp w (.processIf pkind m r)).1.queue =
      (step sg w (.processIf pkind m r)).1.queue ++ added := by
  obtain ⟨_, _, added, h, _⟩ := C14_spawn_in_place sg sp w (.processIf pkind m r)
  exact ⟨added, h⟩

/-- `process` consumes everything that was queued when it started; what remains is exactly what
    the listeners enqueued -/
theorem C14_spawn_process (sg : Sig) (sp : Spawn) (w : HW) :
    ∃ added, (stepS sg sp w .process).1.queue = added ∧
      added.length ≤ (spawnedOf sp (step sg w .process).2).length := by
  obtain ⟨_, _, added, h, hl, _⟩ := C14_spawn_in_place sg sp w .process
  have hs : (step sg w .process).1.queue = [] := by
    unfold step
    by_cases hq : w.queue.isEmpty
    · simp [List.isEmpty_iff.mp hq]
    · simp [hq]
  exact ⟨added, by rw [h, hs, List.nil_append], hl⟩

/-- `processOne`: the rest of the queue stays in front of what the listeners of the consumed event
    enqueued -/
theorem C14_spawn_processOne (sg : Sig) (sp : Spawn) (w : HW) (e : HEvent) (rest : List HEvent)
    (hq : w.queue = e :: rest) :
    ∃ added, (stepS sg sp w .processOne).1.queue = rest ++ added := by
  obtain ⟨_, _, added, h, _⟩ := C14_spawn_in_place sg sp w .processOne
  refine ⟨added, ?_⟩
  rw [h]; unfold step; simp [hq]

/-- listeners that enqueue nothing: the non-re-entrant model -/
theorem C14_spawn_none (sg : Sig) (w : HW) (op : HOp) :
    stepS sg (fun _ _ _ => none) w op = step sg w op := stepS_none sg w op

/-! ### non-vacuity: the harness's spawning rule -/

/-- the rule of harness/seq_heter.cpp: a listener whose callback id ends in 9, called with a value
    `v` with `v % 4 ≠ 3`, enqueues `(key, int, v + 1)` -/
def harnessSpawn : Spawn := fun key cb val =>
  if cb % 10 == 9 && val % 4 != 3 then some (key, 1, val + 1) else none

/-- string event 10, int event 9 (its listener 109 enqueues int 10 when called), Big event 12;
    `processIf` with an int predicate accepting everything: the int event is consumed, the string
    and Big events stay in place IN FRONT of the int event 10 enqueued by the listener. -/
example :
    (runS realSig harnessSpawn {} [.listen 1 1 109, .enqueue 1 2 10, .enqueue 1 1 9, .enqueue 1 3 12,
        .processIf 1 1 0]).1.queue =
      [⟨0, 1, 2, 2, 10⟩, ⟨2, 1, 3, 3, 12⟩, ⟨3, 1, 1, 1, 10⟩] := by
  decide +kernel

/-! ### a listener that empties its own heterogeneous list while it runs (`list = HeterCallbackList()`) -/

/-- The invocation in flight is not disturbed by a callback that empties the container: it reaches
    exactly the callbacks bound to the selected prototype, in their order, once each (the calls are
    those of `step`), the pending events are untouched, and afterwards every per-prototype list of
    that key is empty while the lists of every other key are as `stepS` left them. -/
theorem C14_clear_in_flight (sg : Sig) (sp : Spawn) (cl : Clear) (w : HW) (op : HOp) :
    (stepC sg sp cl w op).2 = (step sg w op).2 ∧
    (stepC sg sp cl w op).1.queue = (stepS sg sp w op).1.queue :=
  ⟨stepC_calls sg sp cl w op, stepC_queue sg sp cl w op⟩

theorem C14_cleared_lists (n : Nat) (w : HW) (key k p : Nat) (hp : p < 16) (hn : n ≤ 16) :
    (clearKey n w key).lists (slot k p) = if k = key ∧ p < n then default else w.lists (slot k p) :=
  clearKey_lists n w key k p hp hn

/-- the rule of harness/seq_heter.cpp: the stand-alone list is event key 7 of the model; a callback of it
    whose id ends in 8 assigns an empty list to it -/
def harnessClear : Clear := fun key cb => key == 7 && cb % 10 == 8

/-- non-vacuity: three int callbacks, the second empties the list while the invocation runs: all three
    are called, in order, and the list is empty for the next invocation -/
example :
    let w1 := (run realSig {} [.listen 7 1 101, .listen 7 1 108, .listen 7 1 103]).1
    let r := stepC realSig harnessSpawn harnessClear w1 (.dispatch 7 1 5)
    r.2 = [.call 7 1 0 101 1 5, .call 7 1 1 108 1 5, .call 7 1 2 103 1 5, .res "unit"] ∧
    (stepC realSig harnessSpawn harnessClear r.1 (.dispatch 7 1 6)).2 = [.res "unit"] := by
  decide +kernel

end Evp.Heter
