import EventppVerif.Util.RemoversAux
/-
  Property C15 — no listener added through a ScopedRemover outlives its remover.

  Model (Util/Removers.lean): a world `RW` of Spec-level callback lists (`SList`; that the real
  lists behave like them is C01/C02), the live remover objects `rems` (name ↦ target list and
  recorded handles), a global handle counter `nextId` and the ghost set `via` of all handles ever
  returned by an `append/prepend/insert` made *through a remover*.  `step w op` performs one
  operation of `ROp` (remover construction, add through a remover, remove through a remover,
  reset, setCallbackList, move construction, move assignment, swap, destruction, and direct
  `append` / `remove` on a list), `run` a sequence of them.

  All theorems quantify over every world satisfying the invariant `Resp` (defined in
  Util/RemoversAux.lean and spelled out by `C15_Resp_def`), which holds in every world reachable
  from the empty world by any sequence of operations (`C15_invariant`), and over all remover names,
  list ids, handles and callback ids.  All proofs are in Util/RemoversAux.lean.
-/
namespace Evp.Rem
open Evp

/-- What the invariant `Resp w` says, in full:
    (a) the names of the live removers are unique;
    (b) every handle present in a list has been issued (`< nextId`), occurs once in that list and
        in no other list; every handle of `via` has been issued;
    (c) every handle recorded by a live remover is in `via`, is recorded once by that remover and
        by no other live remover;
    (d) **responsibility**: every handle that was added through a remover and is still present in
        a list `l` is recorded by a live remover whose target is `l`. -/
theorem C15_Resp_def (w : RW) : Resp w ↔
    (w.rems.map (·.1)).Nodup ∧
    (∀ l h, (w.lists l).present h = true → h < w.nextId) ∧
    (∀ l, (w.lists l).ids.Nodup) ∧
    (∀ l l' h, (w.lists l).present h = true → (w.lists l').present h = true → l = l') ∧
    (∀ h ∈ w.via, h < w.nextId) ∧
    (∀ r v, (r, v) ∈ w.rems → ∀ h ∈ v.items, h ∈ w.via) ∧
    (∀ r v, (r, v) ∈ w.rems → v.items.Nodup) ∧
    (∀ r v r' v' h, (r, v) ∈ w.rems → (r', v') ∈ w.rems → h ∈ v.items → h ∈ v'.items → r = r') ∧
    (∀ h ∈ w.via, ∀ l, (w.lists l).present h = true →
      ∃ r v, (r, v) ∈ w.rems ∧ h ∈ v.items ∧ v.target = some l) :=
  ⟨fun ⟨a, b, c, d, e, f, g, h, i⟩ => ⟨a, b, c, d, e, f, g, h, i⟩,
   fun ⟨a, b, c, d, e, f, g, h, i⟩ => ⟨a, b, c, d, e, f, g, h, i⟩⟩

/-- `Resp` is preserved by every single operation, from every world satisfying it. -/
theorem C15_invariant_step (w : RW) (H : Resp w) (op : ROp) : Resp (step w op).1 :=
  Resp_step H op

/-- **C15 (invariant).** `Resp` holds after every sequence of operations from the empty world. -/
theorem C15_invariant (ops : List ROp) : Resp (run {} ops).1 :=
  Resp_run Resp_init ops

/-- **C15 (responsibility).** After every sequence of operations: a listener that was added
    through a remover and is still attached to list `l` is recorded by a remover that is alive and
    targets `l` — whatever moves, swaps, resets and re-targetings happened in between. -/
theorem C15_responsibility (ops : List ROp) (h : Hd) (hv : h ∈ (run {} ops).1.via) (l : Nat)
    (hp : ((run {} ops).1.lists l).present h = true) :
    ∃ r v, (r, v) ∈ (run {} ops).1.rems ∧ h ∈ v.items ∧ v.target = some l :=
  (C15_invariant ops).resp h hv l hp

/-- **C15 (nothing outlives the removers).** After every sequence of operations that leaves no
    remover alive, no listener ever added through a remover is attached to any list. -/
theorem C15_gone (ops : List ROp) (he : (run {} ops).1.rems = []) :
    ∀ h ∈ (run {} ops).1.via, ∀ l, ((run {} ops).1.lists l).present h = false :=
  gone_of_no_removers (C15_invariant ops) he

/-- **C15 (stays attached).** A listener `h` recorded by the live remover `r` (target `l`) and
    attached to `l` stays attached to `l` under every operation except those of `MayDetach r l h`:
    destroying, resetting, re-targeting (to another list) or move-assigning into `r`, removing
    `h` through `r`, and removing `h` from `l` directly.  (Who is responsible afterwards is given
    by the invariant.) -/
theorem C15_stays (w : RW) (H : Resp w) (r l : Nat) (v : Remover) (h : Hd)
    (hr : getRem w r = some v) (hi : h ∈ v.items) (ht : v.target = some l)
    (hp : (w.lists l).present h = true) (op : ROp) (hop : ¬ MayDetach r l h op) :
    ((step w op).1.lists l).present h = true :=
  stays H hr hi ht hp op hop

/-- **C15 (detached when the remover ends).** When the live remover `r` with target `l` is
    destroyed, reset, or re-targeted to another list (`EndsOp r l op`), none of the handles it had
    recorded is present in any list afterwards. -/
theorem C15_detach_on_end (w : RW) (H : Resp w) (r l : Nat) (v : Remover)
    (hr : getRem w r = some v) (ht : v.target = some l) (op : ROp) (hop : EndsOp r l op) :
    ∀ h ∈ v.items, ∀ l', ((step w op).1.lists l').present h = false :=
  detach_on_end H hr ht hop

/-- … and the remover is then gone (destroy), or alive with no records and the same (reset) or
    the new (setCallbackList) target. -/
theorem C15_after_end (w : RW) (r l : Nat) (v : Remover)
    (hr : getRem w r = some v) (ht : v.target = some l) :
    getRem (step w (.rdestroy r)).1 r = none ∧
    getRem (step w (.rreset r)).1 r = some ⟨some l, []⟩ ∧
    ∀ l', l' ≠ l → getRem (step w (.rtarget r l')).1 r = some ⟨some l', []⟩ :=
  after_end hr ht

/-- **C15 (move assignment).** After `dst = std::move(src)` of two different live removers:
    nothing the destination had recorded is present in any list; every other handle is present
    exactly where it was (in particular the source's listeners, which are none of the
    destination's); the destination now has the source's target and records, the source keeps its
    target and records nothing. -/
theorem C15_move_assign (w : RW) (H : Resp w) (dst src : Nat) (d v : Remover) (hne : dst ≠ src)
    (hd : getRem w dst = some d) (hs : getRem w src = some v) :
    let w' := (step w (.rmoveassign dst src)).1
    (∀ h ∈ d.items, ∀ l, (w'.lists l).present h = false) ∧
    (∀ h, h ∉ d.items → ∀ l, (w'.lists l).present h = (w.lists l).present h) ∧
    (∀ h ∈ v.items, h ∉ d.items) ∧
    getRem w' dst = some v ∧ getRem w' src = some ⟨v.target, []⟩ :=
  move_assign H hne hd hs

/-- **C15 (move construction, swap).** Move-constructing `dst` (not alive before) from the live
    `src` and swapping two live removers change no list; the records and target go to the
    destination (move: the source keeps its target and records nothing; swap: exchanged). -/
theorem C15_transfer (w : RW) (dst src : Nat) (v : Remover) (hs : getRem w src = some v) :
    (getRem w dst = none →
      let w' := (step w (.rmovector dst src)).1
      w'.lists = w.lists ∧ getRem w' dst = some v ∧ getRem w' src = some ⟨v.target, []⟩) ∧
    (∀ d, getRem w dst = some d →
      let w' := (step w (.rswap dst src)).1
      w'.lists = w.lists ∧ getRem w' dst = some v ∧ getRem w' src = some d) :=
  transfer hs

/-- **C15 (others are never touched).** For an issued handle `h` that was not added through a
    remover, every operation other than a direct `remove _ h` — in particular every operation of
    every remover — leaves the presence of `h` in every list unchanged. -/
theorem C15_others (w : RW) (H : Resp w) (h : Hd) (hv : h ∉ w.via) (hlt : h < w.nextId) (op : ROp)
    (hop : ∀ l, op ≠ .remove l h) :
    ∀ l, ((step w op).1.lists l).present h = (w.lists l).present h :=
  others H hv hlt op hop

/-- **C15 (remove through the remover).** `r.remove(h)` reports `true` exactly when `r` is alive
    with a target `l`, has recorded `h`, and `h` is present in `l` (needs no invariant).  If it
    reports `true`, `h` is afterwards present in no list, every other handle is present exactly
    where it was, and `r` no longer records `h`.  Otherwise the world is unchanged. -/
theorem C15_remove (w : RW) (r : Nat) (h : Hd) :
    ((step w (.rremove r h)).2 = .bool true ↔
      ∃ v l, getRem w r = some v ∧ v.target = some l ∧ h ∈ v.items ∧ (w.lists l).present h = true) ∧
    (Resp w → (step w (.rremove r h)).2 = .bool true →
      let w' := (step w (.rremove r h)).1
      (∀ l, (w'.lists l).present h = false) ∧
      (∀ x, x ≠ h → ∀ l, (w'.lists l).present x = (w.lists l).present x) ∧
      (∃ v, getRem w r = some v ∧ getRem w' r = some ⟨v.target, v.items.erase h⟩ ∧
        h ∉ v.items.erase h)) ∧
    ((step w (.rremove r h)).2 ≠ .bool true → (step w (.rremove r h)).1 = w) :=
  ⟨rremove_true_iff w r h, fun H ht => rremove_true H ht, rremove_false w r h⟩

/-- Non-vacuity: a direct listener (handle 0), remover 1 on list 0 adds handle 1, remover 2 (on
    list 1) is move-assigned from 1, removes handle 1 through itself (`true`), adds handle 2 (to
    list 0, its new target); both removers are destroyed: handle 0 is still attached, 1 and 2 are
    not, and no remover is alive. -/
example :
    let ops : List ROp := [.append 0 7, .rnew 1 0, .rappend 1 8, .rnew 2 1, .rmoveassign 2 1,
      .rremove 2 1, .rappend 2 9, .rdestroy 2, .rdestroy 1]
    (run {} ops).2 = [.handle 0, .unit, .handle 1, .unit, .unit, .bool true, .handle 2, .unit, .unit] ∧
    (run {} ops).1.rems = [] ∧ (run {} ops).1.via = [2, 1] ∧
    attached (run {} ops).1 2 0 = true ∧ attached (run {} ops).1 2 1 = false ∧
    attached (run {} ops).1 2 2 = false := by decide +kernel

end Evp.Rem
