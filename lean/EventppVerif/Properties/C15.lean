import EventppVerif.Util.Removers
import EventppVerif.Util.Wrappers
