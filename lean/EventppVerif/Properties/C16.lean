import EventppVerif.Util.WrappersAux
/-
  Property C16 — CounterRemover and ConditionalRemover detach listeners exactly when promised.

  Model (Util/Wrappers.lean): the wrappers are behaviour transformers `counterBeh w n inner` /
  `condBeh w cond inner` for the callback-list machines of CL/Machine.lean: callback id `w` is the
  wrapped listener, `inner` is what the wrapped listener and every other callback do.  What one
  call of the counter wrapper does (`if(triggerCount <= 1) remove; else --triggerCount;`: the test,
  its threshold, and the decrement of the stored count) is the regenerated `Gen.Remover.call`; the
  proofs unfold it (`call_eq`, `call_not_due` in Util/WrappersAux.lean), so they are re-checked
  when the source changes.  The count is a 32-bit `int` (`dec32` wraps at `INT_MIN`, but is only
  ever applied to a count `> 1`: `C16_no_overflow`).

  The machine theorems are about the Spec machine `SCfg` (an invocation iterates over a snapshot
  and skips entries that are no longer present); the pointer-level Model `MCfg` produces the same
  trace (C02), which `C16_counter_bound_model` uses.  They quantify over every behaviour `inner`
  whose programs are `Clean w lw`, every start configuration as described, every number of steps
  — hence every interleaving with other listeners and every nesting depth.  All proofs are in
  Util/WrappersAux.lean.

  `Clean w lw p`: no command of the interaction tree `p`, whatever results the earlier ones
  returned, registers callback id `w` again, enumerates (`forEachIf`) list `lw`, or copies, moves
  or swaps list `lw`.  (The machines count an enumeration visit as a call — `nth`, `countCalls` —
  although it does not run the wrapper; therefore enumerations of `lw` are outside these theorems.)
-/
namespace Evp.Wrap
open Evp Evp.Gen.Remover

/-! ### the test -/

/-- **C16 (which call finds the test true).** For every trigger count `n` (every integer, hence
    every 32-bit `int` including `INT_MIN`) and every 0-based call number `k`: the regenerated
    wrapper finds the removal due on call `k` iff `k + 1 ≥ max(n,1)` — the first call that finds it
    due is call number `max(n,1)` (1-based), and every later call would too (the count stays
    `n - k` while that is `> 1`; once it is `≤ 1` it is never decremented again). -/
theorem C16_due_iff (n : Int) (k : Nat) :
    counterDue n k = true ↔ (k + 1 : Int) ≥ max n 1 :=
  counterDue_iff n k

/-- the same, in the form used below: every call before number `max(n,1)` finds the test false and
    call number `max(n,1)` finds it true. -/
theorem C16_due_first (n : Int) (k : Nat) :
    (k + 1 < (max n 1).toNat → counterDue n k = false) ∧
    (k + 1 = (max n 1).toNat → counterDue n k = true) :=
  counterDue_first n k

/-- a listener added with trigger count `INT_MIN` is removed on its first trigger, as
    `max(n,1) = 1` promises (the former `--triggerCount <= 0` overflowed here). -/
theorem C16_intmin_ok : counterDue intMin 0 = true ∧ max intMin 1 = 1 :=
  ⟨by decide, by decide⟩

/-- **C16 (no overflow).** Along the calls of one wrapper, a call that does not find the removal
    due — the only kind of call that decrements — has a stored count `> 1`: `dec32` is never
    applied to `INT_MIN`, and the decrement is the true subtraction. -/
theorem C16_no_overflow (n : Int) (k : Nat) (h : (call (countAfter k n)).1 = false) :
    countAfter k n > 1 ∧ countAfter k n ≠ intMin ∧ countAfter (k + 1) n = countAfter k n - 1 :=
  counter_no_overflow n k h

/-- the stored count in closed form (a count `≤ 1` is never changed; a count `n > 1` is `n - k`
    while that is `> 1` and stays `1` afterwards), and it stays a 32-bit `int`. -/
theorem C16_count (n : Int) (k : Nat) :
    countAfter k n = (if n ≤ 1 then n else max (n - k) 1) ∧
    (intMin ≤ n ∧ n ≤ intMax → intMin ≤ countAfter k n ∧ countAfter k n ≤ intMax) :=
  ⟨countAfter_eq k n, countAfter_range k⟩

/-! ### the wrapper's program -/

/-- **C16 (the wrapped listener runs whenever the wrapper is called).** For every call, the
    wrapper's program is the wrapped listener's program `inner call nth`, preceded by exactly one
    command `remove call.list call.h` (its own handle) iff it is an invocation of `w` whose test is
    true.  Same for the conditional wrapper, whose test is `cond call.arg`: a pure function of
    the trigger's argument, so it is evaluated on the trigger's argument, once per call. -/
theorem C16_wrapper_calls_inner (w : Cb) (n : Int) (cond : Nat → Bool) (inner : Beh) (call : Call) (nth : Nat) :
    (counterBeh w n inner call nth =
      if call.cb = w ∧ call.enum = false ∧ counterDue n nth = true
      then .op (.remove call.list call.h) (fun _ => inner call nth) else inner call nth) ∧
    (condBeh w cond inner call nth =
      if call.cb = w ∧ call.enum = false ∧ cond call.arg = true
      then .op (.remove call.list call.h) (fun _ => inner call nth) else inner call nth) :=
  ⟨rfl, rfl⟩

/-- hence, for every `n` and an invocation of `w` that is call number `nth + 1`: before call
    number `max(n,1)` the wrapper does nothing but run the listener; on call number `max(n,1)` it
    first removes its own handle. -/
theorem C16_counter_program (w : Cb) (n : Int) (inner : Beh) (call : Call) (nth : Nat)
    (hcb : call.cb = w) (hen : call.enum = false) :
    (nth + 1 < (max n 1).toNat → counterBeh w n inner call nth = inner call nth) ∧
    (nth + 1 = (max n 1).toNat →
      counterBeh w n inner call nth = .op (.remove call.list call.h) (fun _ => inner call nth)) :=
  counter_program n inner call nth hcb hen

/-- for the conditional wrapper and an invocation of `w`: the call whose condition holds starts
    with the self-removal, a call whose condition does not hold is just the listener. -/
theorem C16_cond_program (w : Cb) (cond : Nat → Bool) (inner : Beh) (call : Call) (nth : Nat)
    (hcb : call.cb = w) (hen : call.enum = false) :
    (cond call.arg = false → condBeh w cond inner call nth = inner call nth) ∧
    (cond call.arg = true →
      condBeh w cond inner call nth = .op (.remove call.list call.h) (fun _ => inner call nth)) :=
  cond_program cond inner call nth hcb hen

/-- the regenerated facts about the order in the source: removal (when due) before the call of the
    wrapped listener, one evaluation of the condition per call -/
theorem C16_generated_flags : removeBeforeCall = true ∧ condEvaluatedOnce = true :=
  ⟨rfl, rfl⟩

/-! ### a removed listener is never called -/

/-- **C16 (removed ⇒ never called).** For every behaviour, configuration, list, remaining
    snapshot, argument and stack: when the Spec machine continues a traversal it either calls an
    entry of the snapshot that is present in the list *now* (and records that call), or none of
    the remaining entries is present and the traversal finishes.  So once the wrapper has removed
    its own handle no invocation — nested, outer or later — calls it again. -/
theorem C16_removed_never_called (beh : Beh) (c : SCfg) (l : Nat) (snap : List Entry) (arg : Nat)
    (honour : Bool) (below : List SFrame) :
    (∃ e es, e ∈ snap ∧ (c.lists l).present e.id = true ∧
      SCfg.seekCall beh c l snap arg honour below =
        { c with
          trace := .call ⟨l, e.id, e.cb, arg, honour⟩ :: c.trace
          stack := .prog (beh ⟨l, e.id, e.cb, arg, honour⟩ (countCalls c.trace e.cb)) ::
            .iter l es arg honour :: below }) ∨
    ((∀ e ∈ snap, (c.lists l).present e.id = false) ∧
      SCfg.seekCall beh c l snap arg honour below = c.deliver (MCfg.finishRes honour true) below) :=
  seekCall_cases beh c l snap arg honour below

/-- the same for whole steps: every step of the Spec machine records nothing, one result, or one
    call; a recorded call is the call of a handle present in its list at that moment, the lists
    are unchanged by that step and the program started is `beh` of that call. -/
theorem C16_call_only_when_present (beh : Beh) (c c' : SCfg) (hs : SCfg.step beh c = some c') :
    c'.trace = c.trace ∨ (∃ r, c'.trace = .res r :: c.trace) ∨
    (∃ cl, c'.trace = .call cl :: c.trace ∧ (c.lists cl.list).present cl.h = true ∧ c'.lists = c.lists ∧
      ∃ rest, c'.stack = .prog (beh cl (countCalls c.trace cl.cb)) :: rest) :=
  step_call_present hs

/-- the self-removal is effective: in a configuration where callback `w` is registered at most as
    entry `⟨hw, w⟩` of list `lw` and handle `hw` is used by no other entry, executing
    `remove lw hw` leaves `hw` not present in `lw`. -/
theorem C16_self_removal_effective (w lw hw : Nat) (c : SCfg) (busy : Nat → Bool) (hfresh : hw < c.nextId)
    (hent : ∀ l e, e ∈ c.lists l → (e.cb = w ∨ e.id = hw) → e.cb = w ∧ e.id = hw ∧ l = lw) :
    ((c.apply busy (.remove lw hw)).1.lists lw).present hw = false :=
  apply_remove_absent ⟨hfresh, hent⟩ busy

/-! ### the global statements -/

/-- **C16 (CounterRemover: at most `max(n,1)` calls, then detached).**
    For every trigger count `n` (`INT_MIN` included), every behaviour `inner` of the wrapped listener and of
    all other callbacks with `Clean w lw` programs, every start configuration `c0` in which
    callback `w` is registered at most as entry `⟨hw, w⟩` of list `lw` (and `hw` is an issued handle
    used by no other entry), no traversal is running (the stack is one `Clean` program `p`) and `w`
    has not been called yet, and every number `k` of steps of the Spec machine:
    the wrapped listener has been called at most `max(n,1)` times, and if it has been called
    `max(n,1)` times then its handle is no longer present in its list, or the top frame is the
    wrapper's program about to execute `remove lw hw` (the one-step window between the recording of
    call number `max(n,1)` and the removal).  By `C16_removed_never_called` it is then never called
    again, whatever the other listeners do and however deeply invocations are nested. -/
theorem C16_counter_bound (w lw hw : Nat) (n : Int) (inner : Beh)
    (hin : ∀ call nth, Clean w lw (inner call nth)) (c0 : SCfg) (p : Prog)
    (hstack : c0.stack = [.prog p]) (hp : Clean w lw p) (hfresh : hw < c0.nextId)
    (hent : ∀ l e, e ∈ c0.lists l → (e.cb = w ∨ e.id = hw) → e.cb = w ∧ e.id = hw ∧ l = lw)
    (hcount : countCalls c0.trace w = 0) (k : Nat) :
    countCalls (SCfg.runN (counterBeh w n inner) k c0).1.trace w ≤ (max n 1).toNat ∧
    (countCalls (SCfg.runN (counterBeh w n inner) k c0).1.trace w = (max n 1).toNat →
      ((SCfg.runN (counterBeh w n inner) k c0).1.lists lw).present hw = false ∨
      AboutToRemove lw hw (SCfg.runN (counterBeh w n inner) k c0).1.stack) :=
  counter_bound n hin hstack hp hfresh hent hcount k

/-- the bound on the pointer-level Model: for a Model configuration related to `c0` by the C02
    simulation and a run without generation-counter wrap (C19), the Model's trace has at most
    `max(n,1)` calls of the wrapped listener. -/
theorem C16_counter_bound_model (w lw hw : Nat) (n : Int) (inner : Beh)
    (hin : ∀ call nth, Clean w lw (inner call nth)) (c0 : SCfg) (p : Prog)
    (hstack : c0.stack = [.prog p]) (hp : Clean w lw p) (hfresh : hw < c0.nextId)
    (hent : ∀ l e, e ∈ c0.lists l → (e.cb = w ∨ e.id = hw) → e.cb = w ∧ e.id = hw ∧ l = lw)
    (hcount : countCalls c0.trace w = 0) (k : Nat) (m0 : MCfg) (hsim : Sim m0 c0)
    (nowrap : (MCfg.runN (counterBeh w n inner) k m0).1.wraps = m0.wraps) :
    countCalls (MCfg.runN (counterBeh w n inner) k m0).1.trace w ≤ (max n 1).toNat :=
  counter_bound_model n hin hstack hp hfresh hent hcount k hsim nowrap

/-- **C16 (ConditionalRemover: called up to and including the first trigger whose condition
    holds).**  Same quantification as `C16_counter_bound`, for every condition `cond`.  After every
    number of steps (the trace is newest first, so `tr2` is what happened before `cl`):
    every recorded call of `w` is an invocation of `⟨hw, w⟩` on `lw` before which no call of `w`
    had an argument satisfying the condition; and if some recorded call of `w` has an argument
    satisfying the condition, then `hw` is no longer present in `lw` or the top frame is the
    wrapper's program about to execute `remove lw hw`. -/
theorem C16_cond_bound (w lw hw : Nat) (cond : Nat → Bool) (inner : Beh)
    (hin : ∀ call nth, Clean w lw (inner call nth)) (c0 : SCfg) (p : Prog)
    (hstack : c0.stack = [.prog p]) (hp : Clean w lw p) (hfresh : hw < c0.nextId)
    (hent : ∀ l e, e ∈ c0.lists l → (e.cb = w ∨ e.id = hw) → e.cb = w ∧ e.id = hw ∧ l = lw)
    (hcount : countCalls c0.trace w = 0) (k : Nat) :
    (∀ tr1 cl tr2, (SCfg.runN (condBeh w cond inner) k c0).1.trace = tr1 ++ .call cl :: tr2 → cl.cb = w →
      cl.enum = false ∧ cl.list = lw ∧ cl.h = hw ∧
      ∀ cl', Ev.call cl' ∈ tr2 → cl'.cb = w → cond cl'.arg = false) ∧
    ((∃ cl, Ev.call cl ∈ (SCfg.runN (condBeh w cond inner) k c0).1.trace ∧ cl.cb = w ∧ cond cl.arg = true) →
      ((SCfg.runN (condBeh w cond inner) k c0).1.lists lw).present hw = false ∨
      AboutToRemove lw hw (SCfg.runN (condBeh w cond inner) k c0).1.stack) :=
  cond_bound cond hin hstack hp hfresh hent hcount k

/-! ### non-vacuity -/

/-- A counted listener (callback 1, n = 2) and a plain one (callback 2) on list 0, invoked four
    times: the counted one is called exactly twice, the run halts. -/
example :
    calls (SCfg.runN (counterBeh 1 2 innerPlain) 100 { stack := [.prog (withTwo (invokes [0, 0, 0, 0]))] }).1.trace
      = [(1, 0), (2, 0), (1, 0), (2, 0), (2, 0), (2, 0)] ∧
    (SCfg.runN (counterBeh 1 2 innerPlain) 100 { stack := [.prog (withTwo (invokes [0, 0, 0, 0]))] }).2 = true := by
  decide +kernel

/-- Trigger count `INT_MIN`: the counted listener (callback 1), invoked three times, is called
    exactly once (`max(n,1) = 1`). -/
example :
    calls (SCfg.runN (counterBeh 1 intMin innerPlain) 100 { stack := [.prog (withTwo (invokes [0, 0, 0]))] }).1.trace
      = [(1, 0), (2, 0), (2, 0), (2, 0)] ∧
    (SCfg.runN (counterBeh 1 intMin innerPlain) 100 { stack := [.prog (withTwo (invokes [0, 0, 0]))] }).2 = true := by
  decide +kernel

/-- Nested: the counted listener (n = 2) re-invokes its list from inside; it is called twice in
    total (the second time from inside the first), callback 2 at every nesting level. -/
example :
    calls (SCfg.runN (counterBeh 1 2 innerNested) 100 { stack := [.prog (withTwo (invokes [0, 0]))] }).1.trace
      = [(1, 0), (1, 0), (2, 0), (2, 0), (2, 0), (2, 0)] ∧
    (SCfg.runN (counterBeh 1 2 innerNested) 100 { stack := [.prog (withTwo (invokes [0, 0]))] }).2 = true := by
  decide +kernel

/-- Conditional (`arg == 5`), triggers 1, 5, 7: called for 1 and 5 only. -/
example :
    calls (SCfg.runN (condBeh 1 (fun a => a == 5) innerPlain) 100
      { stack := [.prog (withTwo (invokes [1, 5, 7]))] }).1.trace
      = [(1, 1), (2, 1), (1, 5), (2, 5), (2, 7)] := by
  decide +kernel

/-- The hypotheses of `C16_counter_bound` are satisfiable: for the nested behaviour, the
    configuration `twoCfg args` (entries `⟨0,1⟩`, `⟨1,2⟩` on list 0, a program invoking it for every
    argument of `args`), every `args` and every number of steps, callback 1 is called at most
    twice. -/
example (args : List Nat) (k : Nat) :
    countCalls (SCfg.runN (counterBeh 1 2 innerNested) k (twoCfg args)).1.trace 1 ≤ 2 :=
  (C16_counter_bound 1 0 0 2 innerNested innerNested_clean (twoCfg args) _ rfl
    (invokes_clean 1 0 args) (by show (0 : Nat) < 2; decide) (twoCfg_ent args) rfl k).1

/-- the same with trigger count `INT_MIN`: at most one call. -/
example (args : List Nat) (k : Nat) :
    countCalls (SCfg.runN (counterBeh 1 intMin innerNested) k (twoCfg args)).1.trace 1 ≤ 1 :=
  (C16_counter_bound 1 0 0 intMin innerNested innerNested_clean (twoCfg args) _ rfl
    (invokes_clean 1 0 args) (by show (0 : Nat) < 2; decide) (twoCfg_ent args) rfl k).1

end Evp.Wrap
