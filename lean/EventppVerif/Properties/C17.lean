import EventppVerif.Util.AnyData
/-
  Property C17 — AnyData holds, moves and destroys its value like the value itself (partial: the
  C++ object mechanics — placement new, alignment, function-pointer identity — are abstracted;
  they are exercised by the correspondence run with ASan).

  The size split is the regenerated `Gen.AnyData.inlineCond / largeCond / effCap`.
-/
namespace Evp.AnyData
open Evp.Gen.AnyData

/-- For every object size and every template argument exactly one constructor is enabled, and the
    effective capacity is `max cap sizeof(LargeData)`. -/
theorem C17_partition (size cap szLarge : Nat) :
    (inlineCond size (effCap cap szLarge) = !largeCond size (effCap cap szLarge)) ∧
    effCap cap szLarge = max cap szLarge := by
  constructor
  · by_cases h : size ≤ effCap cap szLarge
    · have h' : ¬ effCap cap szLarge < size := by omega
      simp [inlineCond, largeCond, h, h']
    · have h' : effCap cap szLarge < size := by omega
      simp [inlineCond, largeCond, h, h']
  · unfold effCap; split <;> omega

/-- hence construction never fails to select a representation -/
theorem C17_ctor_total (cap szLarge size : Nat) (o : Obj) : (mkShell cap szLarge size o).isSome := by
  have := (C17_partition size cap szLarge).1
  unfold mkShell
  simp only
  cases h : inlineCond size (effCap cap szLarge) <;> simp_all

def heldTotal (l : List (Nat × Shell)) : Nat := (l.map (fun p => p.2.held)).sum

/-- slot names are unique -/
def Uniq (l : List (Nat × Shell)) : Prop := (l.map (·.1)).Nodup

structure Inv (s : St) : Prop where
  uniq : Uniq s.slots
  ledger : s.live = heldTotal s.slots

/-- `lookup` on the slot list alone -/
def lk (l : List (Nat × Shell)) (a : Nat) : Option Shell := (l.find? (fun p => p.1 == a)).map (·.2)

theorem lookup_eq (s : St) (a : Nat) : lookup s a = lk s.slots a := rfl

theorem lk_cons (x : Nat) (sh : Shell) (l : List (Nat × Shell)) (a : Nat) :
    lk ((x, sh) :: l) a = if x = a then some sh else lk l a := by
  unfold lk
  by_cases h : x = a <;> simp [h]

theorem erase_cons_eq (x : Nat) (sh : Shell) (l : List (Nat × Shell)) :
    erase ((x, sh) :: l) x = erase l x := by
  simp [erase]

theorem erase_cons_ne {x a : Nat} (sh : Shell) (l : List (Nat × Shell)) (h : x ≠ a) :
    erase ((x, sh) :: l) a = (x, sh) :: erase l a := by
  simp [erase, h]

theorem lk_erase (l : List (Nat × Shell)) (a c : Nat) :
    lk (erase l a) c = if c = a then none else lk l c := by
  induction l with
  | nil => simp [lk, erase]
  | cons p r ih =>
    obtain ⟨x, sh⟩ := p
    by_cases hxa : x = a
    · subst hxa
      rw [erase_cons_eq, ih, lk_cons]
      by_cases hca : c = x
      · simp [hca]
      · have : x ≠ c := Ne.symm hca
        simp [hca, this]
    · rw [erase_cons_ne sh r hxa, lk_cons, lk_cons, ih]
      by_cases hxc : x = c
      · subst hxc
        simp [hxa]
      · simp [hxc]

theorem heldTotal_cons (x : Nat) (sh : Shell) (l : List (Nat × Shell)) :
    heldTotal ((x, sh) :: l) = sh.held + heldTotal l := by
  simp [heldTotal]

theorem erase_eq_self_of_notin {l : List (Nat × Shell)} {a : Nat} (h : a ∉ l.map (·.1)) :
    erase l a = l := by
  unfold erase
  apply List.filter_eq_self.mpr
  intro q hq
  have : q.1 ≠ a := by
    intro e; apply h; rw [← e]; exact List.mem_map_of_mem hq
  simpa using this

theorem heldTotal_erase {l : List (Nat × Shell)} {a : Nat} {sh : Shell} (hu : Uniq l)
    (hl : (l.find? (fun p => p.1 == a)).map (·.2) = some sh) :
    heldTotal l = heldTotal (erase l a) + sh.held := by
  induction l with
  | nil => simp at hl
  | cons p r ih =>
    obtain ⟨x, sh'⟩ := p
    simp only [Uniq, List.map_cons, List.nodup_cons] at hu
    change lk ((x, sh') :: r) a = some sh at hl
    rw [lk_cons] at hl
    by_cases hp : x = a
    · subst hp
      rw [if_pos rfl] at hl
      cases hl
      rw [erase_cons_eq, erase_eq_self_of_notin hu.1, heldTotal_cons]; omega
    · rw [if_neg hp] at hl
      have := ih hu.2 hl
      rw [erase_cons_ne sh' r hp, heldTotal_cons, heldTotal_cons, this]; omega

theorem uniq_erase {l : List (Nat × Shell)} {a : Nat} (hu : Uniq l) : Uniq (erase l a) ∧ a ∉ (erase l a).map (·.1) := by
  constructor
  · unfold Uniq erase
    exact List.Nodup.sublist (List.Sublist.map _ (List.filter_sublist)) hu
  · simp [erase]

theorem lookup_none_notin {s : St} {a : Nat} (h : lookup s a = none) : a ∉ s.slots.map (·.1) := by
  unfold lookup at h
  simp at h
  intro hm
  simp at hm
  obtain ⟨sh, hm⟩ := hm
  exact h _ _ hm rfl

/-- **Ledger invariant**: after any sequence of constructions, moves (also out of already
    moved-from objects), reads and destructions, the number of live payload objects equals the
    number of objects held by the existing `AnyData`s: nothing is leaked, nothing destroyed twice
    (the count never underflows: `del` subtracts exactly what the shell holds). -/
theorem C17_step_inv (cap szLarge : Nat) (s : St) (op : Op) (h : Inv s) : Inv (step cap szLarge s op).1 := by
  cases op with
  | new a ty size val =>
    simp only [step]
    cases hl : lookup s a with
    | some _ => exact h
    | none =>
      simp only
      cases hm : mkShell cap szLarge size ⟨ty, val, false⟩ with
      | none => exact h
      | some sh =>
        have hheld : sh.held = 1 := by
          unfold mkShell at hm
          simp only at hm
          split at hm
          · cases hm; rfl
          · split at hm
            · cases hm; rfl
            · cases hm
        refine ⟨?_, ?_⟩
        · simp only [Uniq, List.map_cons, List.nodup_cons]
          exact ⟨lookup_none_notin hl, h.uniq⟩
        · simp [heldTotal, hheld, h.ledger]; omega
  | move b a =>
    simp only [step]
    cases hb : lookup s b with
    | some _ => cases lookup s a <;> exact h
    | none =>
      cases ha : lookup s a with
      | none => exact h
      | some sh =>
        have hba : b ≠ a := by
          intro e; subst e; rw [hb] at ha; cases ha
        have hbn := lookup_none_notin hb
        have he := heldTotal_erase h.uniq (by simpa [lookup] using ha)
        have hue := uniq_erase (a := a) h.uniq
        have hbe : b ∉ (erase s.slots a).map (·.1) := fun hm =>
          hbn ((List.Sublist.map _ List.filter_sublist).subset hm)
        cases sh with
        | inl o =>
          refine ⟨?_, ?_⟩
          · simp only [Uniq, List.map_cons, List.nodup_cons, List.mem_cons]
            exact ⟨fun hh => hh.elim hba hbe, hue.2, hue.1⟩
          · show s.live + 1 = heldTotal _
            simp only [heldTotal_cons, Shell.held] at he ⊢
            rw [h.ledger]; omega
        | large p =>
          refine ⟨?_, ?_⟩
          · simp only [Uniq, List.map_cons, List.nodup_cons, List.mem_cons]
            exact ⟨fun hh => hh.elim hba hbe, hue.2, hue.1⟩
          · show s.live = heldTotal _
            rw [h.ledger]
            cases p <;> simp only [heldTotal_cons, Shell.held] at he ⊢ <;> omega
  | get a =>
    simp only [step]
    cases lookup s a with
    | none => exact h
    | some sh => simp only; split; exact h; split <;> exact h
  | isType a ty =>
    simp only [step]
    cases lookup s a with
    | none => exact h
    | some sh => simp only; split; exact h; split <;> exact h
  | del a =>
    simp only [step]
    cases ha : lookup s a with
    | none => exact h
    | some sh =>
      have he := heldTotal_erase h.uniq (by simpa [lookup] using ha)
      refine ⟨(uniq_erase h.uniq).1, ?_⟩
      simp only
      rw [h.ledger]; omega

theorem C17_run_inv (cap szLarge : Nat) : ∀ (ops : List Op) (s : St), Inv s → Inv (run cap szLarge s ops).1
  | [], s, h => h
  | op :: r, s, h => by
    simp only [run]
    exact C17_run_inv cap szLarge r _ (C17_step_inv cap szLarge s op h)

/-- **No leak, exactly-once destruction**: whenever all `AnyData` objects are gone, no payload
    object is alive. -/
theorem C17_no_leak (cap szLarge : Nat) (ops : List Op) :
    (run cap szLarge {} ops).1.slots = [] → (run cap szLarge {} ops).1.live = 0 := by
  intro he
  have := (C17_run_inv cap szLarge ops {} ⟨by simp [Uniq], by simp [heldTotal]⟩).ledger
  rw [this, he]; rfl

theorem step_move_inl {cap szLarge : Nat} {s : St} {a b : Nat} {o : Obj} (hb : lookup s b = none)
    (ha : lookup s a = some (.inl o)) :
    step cap szLarge s (.move b a) =
      ({ slots := (b, .inl o) :: (a, .inl { o with moved := true }) :: erase s.slots a,
         live := s.live + 1 }, .ok) := by
  simp only [step, hb, ha]

theorem step_move_large {cap szLarge : Nat} {s : St} {a b : Nat} {p : Option Obj}
    (hb : lookup s b = none) (ha : lookup s a = some (.large p)) :
    step cap szLarge s (.move b a) =
      ({ slots := (b, .large p) :: (a, .large none) :: erase s.slots a, live := s.live }, .ok) := by
  simp only [step, hb, ha]

theorem step_new_skip {cap szLarge : Nat} {s : St} {a : Nat} (ty size val : Nat)
    (h : lookup s a ≠ none) : step cap szLarge s (.new a ty size val) = (s, .skip) := by
  simp only [step]
  cases hl : lookup s a with
  | none => exact absurd hl h
  | some _ => rfl

theorem step_new_ok {cap szLarge : Nat} {s : St} {a ty size val : Nat} {sh : Shell}
    (h : lookup s a = none) (hm : mkShell cap szLarge size ⟨ty, val, false⟩ = some sh) :
    step cap szLarge s (.new a ty size val) =
      ({ slots := (a, sh) :: s.slots, live := s.live + 1 }, .ok) := by
  simp only [step, h, hm]

theorem step_del_skip {cap szLarge : Nat} {s : St} {a : Nat} (h : lookup s a = none) :
    step cap szLarge s (.del a) = (s, .skip) := by
  simp only [step, h]

theorem step_del_ok {cap szLarge : Nat} {s : St} {a : Nat} {sh : Shell} (h : lookup s a = some sh) :
    step cap szLarge s (.del a) = ({ slots := erase s.slots a, live := s.live - sh.held }, .ok) := by
  simp only [step, h]

theorem step_move_skip {cap szLarge : Nat} {s : St} {a b : Nat}
    (h : lookup s b ≠ none ∨ lookup s a = none) : step cap szLarge s (.move b a) = (s, .skip) := by
  simp only [step]
  rcases h with h | h
  · cases hb : lookup s b with
    | none => exact absurd hb h
    | some _ => cases lookup s a <;> rfl
  · rw [h]; cases lookup s b <;> rfl

/-- **Value and type**: a freshly constructed `AnyData` reads back the stored value, whatever the
    size; `isType` is true exactly for the stored type. -/
theorem C17_value (cap szLarge : Nat) (s : St) (a ty size val : Nat) (hfree : lookup s a = none) :
    let s1 := (step cap szLarge s (.new a ty size val)).1
    (step cap szLarge s1 (.get a)).2 = .val val ∧
    ∀ ty', (step cap szLarge s1 (.isType a ty')).2 = .bool (ty == ty') := by
  have ht := C17_ctor_total cap szLarge size ⟨ty, val, false⟩
  simp only [step, hfree]
  cases hm : mkShell cap szLarge size ⟨ty, val, false⟩ with
  | none => simp [hm] at ht
  | some sh =>
    have : sh = .inl ⟨ty, val, false⟩ ∨ sh = .large (some ⟨ty, val, false⟩) := by
      unfold mkShell at hm
      simp only at hm
      split at hm
      · left; cases hm; rfl
      · split at hm
        · right; cases hm; rfl
        · cases hm
    rcases this with rfl | rfl <;> simp [lookup, List.find?, Shell.movedFrom, Shell.obj?]

/-- **Move**: moving an `AnyData` moves the held object: the destination reads the value the source
    held (inline or heap alike). -/
theorem C17_move (cap szLarge : Nat) (s : St) (a b : Nat) (sh : Shell) (hb : lookup s b = none)
    (ha : lookup s a = some sh) (hm : sh.movedFrom = false) :
    let s1 := (step cap szLarge s (.move b a)).1
    (step cap szLarge s1 (.get b)).2 = (step cap szLarge s (.get a)).2 ∧
    (step cap szLarge s1 (.get a)).2 = .skip := by
  have hba : b ≠ a := by intro e; subst e; rw [hb] at ha; cases ha
  cases sh with
  | inl o =>
    have hm' : o.moved = false := by simpa [Shell.movedFrom] using hm
    simp only [step_move_inl hb ha]
    simp [step, ha, lookup_eq, lk_cons, Shell.movedFrom, Shell.obj?, hm', hba]
  | large p =>
    cases p with
    | none => simp [Shell.movedFrom] at hm
    | some o =>
      simp only [step_move_large hb ha]
      simp [step, ha, lookup_eq, lk_cons, Shell.movedFrom, Shell.obj?, hba]

/-- what a client can observe of a shell: nothing if it has been moved from, else type and value -/
def Shell.view (sh : Shell) : Option (Nat × Nat) :=
  if sh.movedFrom then none else sh.obj?.map (fun o => (o.ty, o.val))

/-- two states look the same to a client: same slots, same views -/
def Same (s t : St) : Prop := ∀ a, (lookup s a).map Shell.view = (lookup t a).map Shell.view

theorem Shell.view_inl (o : Obj) : (Shell.inl o).view = if o.moved then none else some (o.ty, o.val) := by
  cases h : o.moved <;> simp [Shell.view, Shell.movedFrom, Shell.obj?, h]

theorem Shell.view_large_none : (Shell.large none).view = none := by
  simp [Shell.view, Shell.movedFrom]

theorem Shell.view_large_some (o : Obj) : (Shell.large (some o)).view = some (o.ty, o.val) := by
  simp [Shell.view, Shell.movedFrom, Shell.obj?]

/-- a freshly constructed shell shows the stored type and value, inline or on the heap -/
theorem view_mkShell {cap szLarge size : Nat} {o : Obj} {sh : Shell}
    (h : mkShell cap szLarge size o = some sh) (hm : o.moved = false) :
    sh.view = some (o.ty, o.val) := by
  unfold mkShell at h
  simp only at h
  split at h
  · cases h; simp [Shell.view_inl, hm]
  · split at h
    · cases h; exact Shell.view_large_some o
    · cases h

/-- what `get` answers, as a function of what the client can observe of the slot -/
def getOut : Option (Option (Nat × Nat)) → Out
  | some (some p) => .val p.2
  | _ => .skip

/-- what `isType` answers, as a function of what the client can observe of the slot -/
def isTypeOut (ty : Nat) : Option (Option (Nat × Nat)) → Out
  | some (some p) => .bool (p.1 == ty)
  | _ => .skip

theorem step_get (cap szLarge : Nat) (s : St) (a : Nat) :
    step cap szLarge s (.get a) = (s, getOut ((lookup s a).map Shell.view)) := by
  simp only [step]
  cases lookup s a with
  | none => rfl
  | some sh =>
    cases sh with
    | inl o => cases hm : o.moved <;> simp [Shell.movedFrom, Shell.obj?, Shell.view, getOut, hm]
    | large p => cases p <;> simp [Shell.movedFrom, Shell.obj?, Shell.view, getOut]

theorem step_isType (cap szLarge : Nat) (s : St) (a ty : Nat) :
    step cap szLarge s (.isType a ty) = (s, isTypeOut ty ((lookup s a).map Shell.view)) := by
  simp only [step]
  cases lookup s a with
  | none => rfl
  | some sh =>
    cases sh with
    | inl o => cases hm : o.moved <;> simp [Shell.movedFrom, Shell.obj?, Shell.view, isTypeOut, hm]
    | large p => cases p <;> simp [Shell.movedFrom, Shell.obj?, Shell.view, isTypeOut]

/-- a successful move, in either representation: the destination shows what the source showed, the
    source shows nothing any more -/
theorem step_move_ok {cap szLarge : Nat} {s : St} {a b : Nat} {sh : Shell} (hb : lookup s b = none)
    (ha : lookup s a = some sh) :
    ∃ (d r : Shell) (n : Nat),
      step cap szLarge s (.move b a) = ({ slots := (b, d) :: (a, r) :: erase s.slots a, live := n }, .ok) ∧
      d.view = sh.view ∧ r.view = none := by
  cases sh with
  | inl o =>
    exact ⟨_, _, _, step_move_inl hb ha, rfl, by simp [Shell.view_inl]⟩
  | large p =>
    exact ⟨_, _, _, step_move_large hb ha, rfl, Shell.view_large_none⟩

theorem Same.none_iff {s t : St} (h : Same s t) (a : Nat) : lookup s a = none ↔ lookup t a = none := by
  have := h a
  cases hs : lookup s a <;> cases ht : lookup t a <;> simp [hs, ht] at this ⊢

/-- **One step looks the same** whatever the capacities: same answer, and the states still look the
    same to a client. -/
theorem C17_step_same (cap₁ szL₁ cap₂ szL₂ : Nat) (s t : St) (op : Op) (h : Same s t) :
    (step cap₁ szL₁ s op).2 = (step cap₂ szL₂ t op).2 ∧
    Same (step cap₁ szL₁ s op).1 (step cap₂ szL₂ t op).1 := by
  cases op with
  | new a ty size val =>
    cases hs : lookup s a with
    | some sh =>
      have hs' : lookup s a ≠ none := by rw [hs]; exact fun e => nomatch e
      have ht' : lookup t a ≠ none := fun e => hs' ((h.none_iff a).mpr e)
      rw [step_new_skip ty size val hs', step_new_skip ty size val ht']
      exact ⟨rfl, h⟩
    | none =>
      have ht := (h.none_iff a).mp hs
      have h1 := C17_ctor_total cap₁ szL₁ size ⟨ty, val, false⟩
      have h2 := C17_ctor_total cap₂ szL₂ size ⟨ty, val, false⟩
      cases hm1 : mkShell cap₁ szL₁ size ⟨ty, val, false⟩ with
      | none => simp [hm1] at h1
      | some sh1 =>
        cases hm2 : mkShell cap₂ szL₂ size ⟨ty, val, false⟩ with
        | none => simp [hm2] at h2
        | some sh2 =>
          rw [step_new_ok hs hm1, step_new_ok ht hm2]
          refine ⟨rfl, fun c => ?_⟩
          have hc := h c
          simp only [lookup_eq, lk_cons] at hc ⊢
          by_cases hac : a = c
          · simp only [if_pos hac, Option.map_some, view_mkShell hm1 rfl, view_mkShell hm2 rfl]
          · simp only [if_neg hac]; exact hc
  | move b a =>
    by_cases hskip : lookup s b ≠ none ∨ lookup s a = none
    · have hskip' : lookup t b ≠ none ∨ lookup t a = none := by
        rcases hskip with hb | ha
        · exact Or.inl (fun e => hb ((h.none_iff b).mpr e))
        · exact Or.inr ((h.none_iff a).mp ha)
      rw [step_move_skip hskip, step_move_skip hskip']
      exact ⟨rfl, h⟩
    · have hb : lookup s b = none := Classical.byContradiction fun e => hskip (Or.inl e)
      have ha : lookup s a ≠ none := fun e => hskip (Or.inr e)
      have hb' := (h.none_iff b).mp hb
      cases has : lookup s a with
      | none => exact absurd has ha
      | some sh1 =>
        cases hat : lookup t a with
        | none => exact absurd ((h.none_iff a).mpr hat) ha
        | some sh2 =>
          have hv : sh1.view = sh2.view := by
            have := h a
            rw [has, hat] at this
            simpa using this
          obtain ⟨d1, r1, n1, e1, hd1, hr1⟩ := step_move_ok (cap := cap₁) (szLarge := szL₁) hb has
          obtain ⟨d2, r2, n2, e2, hd2, hr2⟩ := step_move_ok (cap := cap₂) (szLarge := szL₂) hb' hat
          rw [e1, e2]
          refine ⟨rfl, fun c => ?_⟩
          have hc := h c
          simp only [lookup_eq, lk_cons, lk_erase] at hc ⊢
          by_cases hbc : b = c
          · simp only [if_pos hbc, Option.map_some, hd1, hd2, hv]
          · by_cases hac : a = c
            · simp only [if_neg hbc, if_pos hac, Option.map_some, hr1, hr2]
            · have hca : c ≠ a := Ne.symm hac
              simp only [if_neg hbc, if_neg hac, if_neg hca]; exact hc
  | get a =>
    rw [step_get, step_get]
    exact ⟨by simp only [h a], h⟩
  | isType a ty =>
    rw [step_isType, step_isType]
    exact ⟨by simp only [h a], h⟩
  | del a =>
    cases hs : lookup s a with
    | none =>
      have ht := (h.none_iff a).mp hs
      rw [step_del_skip hs, step_del_skip ht]; exact ⟨rfl, h⟩
    | some sh1 =>
      cases ht : lookup t a with
      | none => rw [(h.none_iff a).mpr ht] at hs; cases hs
      | some sh2 =>
        rw [step_del_ok hs, step_del_ok ht]
        refine ⟨rfl, fun c => ?_⟩
        have hc := h c
        simp only [lookup_eq, lk_erase] at hc ⊢
        by_cases hca : c = a
        · simp only [if_pos hca]
        · simp only [if_neg hca]; exact hc

theorem C17_run_same (cap₁ szL₁ cap₂ szL₂ : Nat) : ∀ (ops : List Op) (s t : St), Same s t →
    (run cap₁ szL₁ s ops).2 = (run cap₂ szL₂ t ops).2 ∧
    Same (run cap₁ szL₁ s ops).1 (run cap₂ szL₂ t ops).1
  | [], s, t, h => ⟨rfl, h⟩
  | op :: r, s, t, h => by
    have hstep := C17_step_same cap₁ szL₁ cap₂ szL₂ s t op h
    have hrec := C17_run_same cap₁ szL₁ cap₂ szL₂ r _ _ hstep.2
    simp only [run]
    exact ⟨by rw [hstep.1, hrec.1], hrec.2⟩

/-- **Size independence**: what a client observes (every answer of every operation, and what the
    final state looks like) does not depend on the capacity settings, i.e. on whether objects are
    stored inline or on the heap.  (The invariants are not needed for this; they are listed because
    the reachable states have them, and they are preserved, see `C17_run_inv`.) -/
theorem C17_size_independent (cap₁ szL₁ cap₂ szL₂ : Nat) (ops : List Op) (s t : St)
    (hst : Same s t) (_hs : Inv s) (_ht : Inv t) :
    (run cap₁ szL₁ s ops).2 = (run cap₂ szL₂ t ops).2 ∧
    Same (run cap₁ szL₁ s ops).1 (run cap₂ szL₂ t ops).1 :=
  C17_run_same cap₁ szL₁ cap₂ szL₂ ops s t hst

/-- from the empty state: any program gives the same answers under any two capacity settings -/
theorem C17_size_independent_init (cap₁ szL₁ cap₂ szL₂ : Nat) (ops : List Op) :
    (run cap₁ szL₁ {} ops).2 = (run cap₂ szL₂ {} ops).2 :=
  (C17_run_same cap₁ szL₁ cap₂ szL₂ ops {} {} (fun _ => rfl)).1

deriving instance DecidableEq for St

/-- Non-vacuity: capacity 16, a 24-byte object goes to the heap, an 8-byte one inline; both read
    back, moving keeps the value, destroying everything leaves no live object. -/
example :
    (run 16 16 {} [.new 0 1 24 77, .new 1 2 8 5, .move 2 0, .get 2, .get 0, .isType 2 1, .move 3 1, .get 3,
      .del 0, .del 1, .del 2, .del 3]) =
    ({ slots := [], live := 0 },
     [.ok, .ok, .ok, .val 77, .skip, .bool true, .ok, .val 5, .ok, .ok, .ok, .ok]) := by decide

end Evp.AnyData
