import EventppVerif.Util.AnyId
/-
  Property C18 — AnyId keys are coherent: equality, ordering and hash agree.

  The theorems are about the operator definitions regenerated from
  include/eventpp/utilities/anyid.h on every run (`Gen.AnyId.eq`, `Gen.AnyId.lt`): if the source's
  expressions change, these proofs are re-checked against the new expressions.
  They hold for every value storage type `V`, every pair of value comparisons satisfying
  `Coherent` (both operators supported) — and `Cmp.none` (neither supported) is such a pair —,
  and all ids (all digests, including colliding ones).
-/
namespace Evp.AnyId
open Evp.Gen.AnyId

variable {V : Type} {c : Cmp V}

theorem Cmp.none_coherent (V : Type) : Coherent (Cmp.none V) := by
  refine ⟨?_, ?_, ?_, ?_, ?_, ?_⟩ <;> simp [Cmp.none, noEqFallback, noLtFallback]

/-- `operator==` is an equivalence. -/
theorem C18_eq_equivalence (hc : Coherent c) :
    (∀ a, idEq c a a = true) ∧
    (∀ a b, idEq c a b = true → idEq c b a = true) ∧
    (∀ a b d, idEq c a b = true → idEq c b d = true → idEq c a d = true) := by
  refine ⟨?_, ?_, ?_⟩
  · intro a; simp [idEq, Gen.AnyId.eq, hc.eq_refl]
  · intro a b h
    simp [idEq, Gen.AnyId.eq] at h ⊢
    exact ⟨h.1.symm, hc.eq_symm _ _ h.2⟩
  · intro a b d h1 h2
    simp [idEq, Gen.AnyId.eq] at h1 h2 ⊢
    exact ⟨h1.1.trans h2.1, hc.eq_trans _ _ _ h1.2 h2.2⟩

/-- `operator<` is a strict weak ordering: irreflexive, transitive, … -/
theorem C18_lt_strict (hc : Coherent c) :
    (∀ a, idLt c a a = false) ∧
    (∀ a b d, idLt c a b = true → idLt c b d = true → idLt c a d = true) := by
  refine ⟨?_, ?_⟩
  · intro a; simp [idLt, Gen.AnyId.lt, hc.lt_irrefl]
  · intro a b d h1 h2
    simp [idLt, Gen.AnyId.lt] at h1 h2 ⊢
    rcases h1 with h1 | ⟨h1v, h1d⟩ <;> rcases h2 with h2 | ⟨h2v, h2d⟩
    · left; omega
    · left; omega
    · left; omega
    · right; exact ⟨hc.lt_trans _ _ _ h1v h2v, h1d.trans h2d⟩

/-- … whose incomparability classes are exactly the `==` classes (so an ordered map finds an
    id under an equal id and never under an unequal one). -/
theorem C18_incomparable_iff_eq (hc : Coherent c) (a b : Id V) :
    (idLt c a b = false ∧ idLt c b a = false) ↔ idEq c a b = true := by
  simp only [idLt, idEq, Gen.AnyId.lt, Gen.AnyId.eq]
  have hi := hc.incomp a.value b.value
  by_cases hd : a.digest = b.digest
  · simp [hd]
    simpa [hd] using hi
  · have hne : b.digest ≠ a.digest := fun h => hd h.symm
    simp [hd, hne]
    omega

/-- incomparability is transitive (third strict-weak-order axiom) -/
theorem C18_incomparable_trans (hc : Coherent c) (a b d : Id V)
    (h1 : idLt c a b = false ∧ idLt c b a = false) (h2 : idLt c b d = false ∧ idLt c d b = false) :
    idLt c a d = false ∧ idLt c d a = false := by
  rw [C18_incomparable_iff_eq hc] at h1 h2 ⊢
  exact (C18_eq_equivalence hc).2.2 a b d h1 h2

/-- equal ids hash equally (so a hashed map finds an id under an equal id) -/
theorem C18_eq_hash (h : Nat → Nat) (a b : Id V) (he : idEq c a b = true) :
    idHash h a = idHash h b := by
  simp [idEq, Gen.AnyId.eq] at he
  simp [idHash, he.1]

/-- with a value-storing Storage, colliding digests with different values are different ids -/
theorem C18_collision_distinct (a b : Id V) (hv : c.veq a.value b.value = false) :
    idEq c a b = false := by
  simp [idEq, Gen.AnyId.eq, hv]

/-- without a Storage, ids are equal exactly when their digests are -/
theorem C18_nostorage (a b : Id V) : idEq (Cmp.none V) a b = (a.digest == b.digest) := by
  simp [idEq, Gen.AnyId.eq, Cmp.none, noEqFallback]

/-- the hash really depends on the digest only (regenerated flag) -/
theorem C18_hash_digest_only : hashOfDigestOnly = true := rfl

/-- Non-vacuity: strings compared as `Nat` codes form a coherent storage; two ids with the same
    digest and different values are unequal and ordered one way. -/
def natCmp : Cmp Nat := ⟨fun a b => a == b, fun a b => decide (a < b)⟩

theorem natCmp_coherent : Coherent natCmp := by
  refine ⟨?_, ?_, ?_, ?_, ?_, ?_⟩ <;> simp [natCmp] <;> omega

example : idEq natCmp ⟨7, 1⟩ ⟨7, 2⟩ = false ∧ idLt natCmp ⟨7, 1⟩ ⟨7, 2⟩ = true ∧
    idLt natCmp ⟨7, 2⟩ ⟨7, 1⟩ = false ∧ idEq natCmp ⟨7, 2⟩ ⟨7, 2⟩ = true := by decide

end Evp.AnyId
