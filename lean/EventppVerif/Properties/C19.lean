import EventppVerif.CL.PropAuxC19
import EventppVerif.Properties.C02
/-
  Property C19 — generation-counter wrap-around never loses or resurrects a callback.

  "Adding callbacks never makes an existing callback unreachable: even when the list's internal
  generation counter wraps around after 2^32 additions, every callback then in the list keeps
  being invoked exactly once by every later invocation, removed callbacks stay removed, and
  callbacks added afterwards are invoked by later invocations.  Only invocations already in
  progress at the moment of the wrap may additionally call callbacks added during them; the rule
  that newly added callbacks are skipped holds again for all following invocations."

  Model: `CL.nextCounter` is `getNextCounter` as written: `++currentCounter`; if the result is 0
  (mod `M`, the modulus of the counter type, a field of the object so that small moduli can be
  tested) walk `head->next…`, write `counter = 1` everywhere, set `currentCounter = 1`.  The ghost
  field `MCfg.wraps` counts how often that branch was taken.

  What is proved, with no hypothesis about `wraps` anywhere:
  * `C19_inv`: every list object stays well formed (`MInv`) for every behaviour and every number
    of steps; `C19_inv_meaning` spells `MInv` out;
  * `C19_after`, `C19_after_run`, `C19_after_history`: after any history — with any number of
    wraps — a state with no invocation in progress is related (`Sim`) to the Spec state obtained
    by reading the objects through `head`/`next`; hence by C02 every later invocation calls
    exactly the callbacks then in the list, once each, in order, skips those added during it,
    and never calls a removed one, until the next wrap, after which the same theorem applies again;
  * `C19_wrap_append` / `_prepend` / `_insert`: the wrapping operation itself keeps the content
    (represents the Spec result), leaves `currentCounter = 1` and every callback's counter `1`;
  * `C19_during`, `C19_during_walk`, `C19_during_next`: invocations in progress at a wrap stay
    memory safe and terminate, and whatever they call afterwards is a callback that is in the
    list at that time (never a removed one), reached strictly along the list order;
  * two concrete runs with modulus 4: content survives the wrap; the permitted extra calls occur.
-/
namespace Evp

/-! ### the invariant holds across wraps -/

/-- **C19 (well-formedness, always).**  For every behaviour of the callbacks, every number of
    steps and every start world whose list objects are well formed: every list object is well
    formed afterwards — no matter how many counter wraps happened in between. -/
theorem C19_inv (beh : Beh) (n : Nat) {m : MCfg} (h : MInv m) : MInv (MCfg.runN beh n m).1 :=
  minv_runN beh n h

/-- **C19 (what `MInv` says).**  For every list `l` of a world satisfying `MInv`, with
    `L` = the nodes on the `head`/`next` chain: `L` has no duplicates, `head` starts it and `next`
    of its last node is null (`Seg … none`), `tail`/`previous` walk it backwards, a node is on the
    chain iff its counter is not `removedCounter` (= 0), the counter of every node on the chain is
    in `[1, currentCounter]`, `currentCounter < M`, all its nodes were allocated (`< nextId`), and
    no null pointer was ever dereferenced. -/
theorem C19_inv_meaning {m : MCfg} (h : MInv m) (l : Nat) :
    let cl := m.lists l
    let L := chainOf cl.heap (m.nextId + 1) cl.head
    L.Nodup ∧ Seg nextF cl.heap cl.head L none ∧ Seg prevF cl.heap cl.tail L.reverse none ∧
    (∀ n, n ∈ L ↔ (cl.heap n).counter ≠ 0) ∧
    (∀ n ∈ L, 1 ≤ (cl.heap n).counter ∧ (cl.heap n).counter ≤ cl.cur) ∧
    cl.cur < cl.M ∧ (∀ n ∈ L, n < m.nextId) ∧ cl.ub = false := by
  obtain ⟨SL, r⟩ := h l
  intro cl L
  have hL : L = SL.ids := r.chain
  rw [hL]
  have w := r.wf
  exact ⟨w.nodup, w.fwd, w.bwd, w.live, fun n hn => ⟨Nat.pos_of_ne_zero ((w.live n).mp hn), w.cnt n hn⟩,
    w.cur_lt, w.lt, w.ub⟩

/-! ### invocations that start after a wrap -/

/-- **C19 (after any history).**  Let `m` be any Model state whose list objects are well formed
    (`MInv`; by `C19_inv` every state reachable from the empty world, through any number of wraps)
    and in which no invocation is in progress (the stack is one program `p`).  Then `m` is related
    to the Spec state `absCfg m p` whose lists are the objects' `head`/`next` chains with the stored
    callbacks, same `nextId`, same trace, about to run `p`. -/
theorem C19_after {m : MCfg} (h : MInv m) {p : Prog} (hst : m.stack = [.prog p]) :
    Sim m (absCfg m p) ∧ (absCfg m p).stack = [.prog p] ∧ (absCfg m p).nextId = m.nextId ∧
    (absCfg m p).trace = m.trace ∧
    ∀ l, ((absCfg m p).lists l).ids = chainOf (m.lists l).heap (m.nextId + 1) (m.lists l).head ∧
      ∀ e ∈ (absCfg m p).lists l, ((m.lists l).heap e.id).cb = e.cb := by
  have hs := sim_abs h hst
  refine ⟨hs, rfl, rfl, rfl, fun l => ⟨?_, (hs.rep l).cbs⟩⟩
  rw [absCfg_lists]
  simp [absList, SList.ids, Function.comp_def]

/-- **C19 (everything after behaves as the Spec says).**  From such a state, for every behaviour
    and every number of steps up to (not including) the *next* wrap, Model and Spec run in
    lock-step: same calls (list, handle, callback, argument), same results, same halting.  In
    particular (C01, C02) every invocation started from here calls exactly the callbacks in the
    list at its start that are still in the list when reached, each once, in list order, and none
    added during it. -/
theorem C19_after_run (beh : Beh) (n : Nat) {m : MCfg} (h : MInv m) {p : Prog} (hst : m.stack = [.prog p])
    (nowrap : (MCfg.runN beh n m).1.wraps = m.wraps) :
    Sim (MCfg.runN beh n m).1 (SCfg.runN beh n (absCfg m p)).1 ∧
    (MCfg.runN beh n m).1.trace = (SCfg.runN beh n (absCfg m p)).1.trace ∧
    (MCfg.runN beh n m).2 = (SCfg.runN beh n (absCfg m p)).2 :=
  C02_simulation beh n m _ (sim_abs h hst) nowrap

/-- **C19 (reachable form).**  Start anywhere well formed (e.g. the empty world), run `k` steps of
    any behaviour `beh0` with any number of wraps, arrive in a state with no invocation in progress,
    start a new program `p` there: what follows (any behaviour, `n` steps without a further wrap)
    is what the Spec does from the content read off the pointers. -/
theorem C19_after_history (beh0 beh : Beh) (k n : Nat) {m0 : MCfg} (h0 : MInv m0) (p : Prog) :
    let m := { (MCfg.runN beh0 k m0).1 with stack := [.prog p] }
    (MCfg.runN beh n m).1.wraps = m.wraps →
    (MCfg.runN beh n m).1.trace = (SCfg.runN beh n (absCfg m p)).1.trace ∧
    (MCfg.runN beh n m).2 = (SCfg.runN beh n (absCfg m p)).2 := by
  intro m nowrap
  have hm : MInv m := C19_inv beh0 k h0
  exact (C19_after_run beh n hm rfl nowrap).2

/-! ### the wrapping operation itself -/

/-- **C19 (the wrap keeps the content — append).**  If `l` represents `SL` and the next
    `getNextCounter` wraps, `append` still yields an object representing `SL.append`: same chain
    plus the new node at the back, same callbacks, nothing lost, nothing resurrected; afterwards
    `currentCounter = 1` and every node on the chain (old or new) has counter 1. -/
theorem C19_wrap_append {l : CL} {SL : SList} {b : Nat} (r : Rep l SL b) (hw : l.willWrap = true) (cb : Cb) :
    Rep (l.append (b + 1) b cb) (SL.append b cb) (b + 1) ∧
    (l.append (b + 1) b cb).cur = 1 ∧
    ∀ n ∈ (SL.append b cb).ids, ((l.append (b + 1) b cb).heap n).counter = 1 :=
  ⟨rep_append r cb, append_wrap r hw cb⟩

/-- the same for `prepend` -/
theorem C19_wrap_prepend {l : CL} {SL : SList} {b : Nat} (r : Rep l SL b) (hw : l.willWrap = true) (cb : Cb) :
    Rep (l.prepend (b + 1) b cb) (SL.prepend b cb) (b + 1) ∧
    (l.prepend (b + 1) b cb).cur = 1 ∧
    ∀ n ∈ (SL.prepend b cb).ids, ((l.prepend (b + 1) b cb).heap n).counter = 1 :=
  ⟨rep_prepend r cb, prepend_wrap r hw cb⟩

/-- the same for `insert` (before a handle that is or is not in the list) -/
theorem C19_wrap_insert {l : CL} {SL : SList} {b : Nat} (r : Rep l SL b) (hw : l.willWrap = true) (cb : Cb)
    (before : Hd) :
    Rep (l.insert (b + 1) b cb before) (SL.insert b cb before) (b + 1) ∧
    (l.insert (b + 1) b cb before).cur = 1 ∧
    ∀ n ∈ (SL.insert b cb before).ids, ((l.insert (b + 1) b cb before).heap n).counter = 1 :=
  ⟨rep_insert r cb before, insert_wrap r hw cb before⟩

/-! ### invocations in progress at a wrap -/

/-- **C19 (in progress, invariant).**  `MInvD m` (CL/PropAuxC19.lean): every list object of `m`
    represents a list, and for every running traversal `iter l n cap …` on the stack the structural
    frame invariant holds (see `C19_during_walk`).  It holds in every world without running
    traversal (`C19_during_init`) and is preserved by every step of every behaviour — appends that
    wrap the counter of the list being traversed included; there is no hypothesis on `wraps`. -/
theorem C19_during (beh : Beh) (n : Nat) {m : MCfg} (h : MInvD m) : MInvD (MCfg.runN beh n m).1 :=
  minvD_runN beh n h

theorem C19_during_init {m : MCfg} (h : MInv m) {p : Prog} (hst : m.stack = [.prog p]) : MInvD m :=
  minvD_of_minv h hst

/-- **C19 (in progress, what the invariant gives).**  For every running traversal of list `l`
    standing on node `n` (any nesting depth, any captured generation, before or after any number
    of wraps): following `next` from `n` visits, within the fuel, a duplicate-free sequence
    `R ++ S` and then null, where `R` are removed nodes (counter 0: the guard never calls them) and
    `S` is a suffix of the current live chain `SL.ids`.  So the traversal terminates without
    touching an unallocated node, never calls a removed callback, and can only call callbacks
    that are in the list, in list order, each at most once more.  Moreover its skip loop (for
    whatever captured generation `cap'`) finds exactly the *first* live node ahead whose counter is
    at most `cap'`: no callback ahead that passes the guard is skipped. -/
theorem C19_during_walk {m : MCfg} (h : MInvD m) {l n cap arg : Nat} {ho : Bool}
    (hf : MFrame.iter l n cap arg ho ∈ m.stack) :
    ∃ (SL : SList) (R S : List Nat), Rep (m.lists l) SL m.nextId ∧ S <:+ SL.ids ∧
      (∀ x ∈ R, ((m.lists l).heap x).counter = 0) ∧
      (if R = [] then S.head? = some n else R.head? = some n) ∧
      chainOf (m.lists l).heap (m.nextId + 1) (some n) = R ++ S ∧ (R ++ S).Nodup ∧
      ∀ cap', seek (m.lists l).heap cap' (m.nextId + 1) ((m.lists l).heap n).next =
        ((if R = [] then S.tail else S).filter
          (fun a => decide (((m.lists l).heap a).counter ≤ cap'))).head? := by
  obtain ⟨SL, r, f⟩ := h.frame hf
  obtain ⟨R, S, h1, h2, h3, h4, h5, h6⟩ := frame0_walk r f
  exact ⟨SL, R, S, r, h1, h2, h3, h4, h5, h6⟩

/-- **C19 (in progress, the next call).**  Whatever node the skip loop of such a traversal finds
    next is a callback that is in the list now (never a removed or resurrected one). -/
theorem C19_during_next {m : MCfg} (h : MInvD m) {l n cap arg : Nat} {ho : Bool}
    (_hf : MFrame.iter l n cap arg ho ∈ m.stack) {n' : Nat}
    (hs : seek (m.lists l).heap cap (m.nextId + 1) ((m.lists l).heap n).next = some n') :
    n' ∈ chainOf (m.lists l).heap (m.nextId + 1) (m.lists l).head ∧ ((m.lists l).heap n').counter ≠ 0 := by
  obtain ⟨SL, r⟩ := h.minv l
  have hg := seek_guard hs
  have hc : ((m.lists l).heap n').counter ≠ 0 := by
    intro h0; simp [guard, h0] at hg
  exact ⟨by rw [r.chain]; exact (r.wf.live n').mpr hc, hc⟩

/-- **C19 (in progress, generations never grow).**  `append` / `prepend` / `insert` (wrapping or
    not) leave the counter of every callback already in the list unchanged or set it to 1, and
    `remove` leaves the others' unchanged: a callback that passes the guard of an invocation in
    progress (captured generation `cap ≥ 1`, which holds whenever the list was non-empty at its
    start) keeps passing it until it is removed — the wrap never hides a callback from an
    invocation in progress. -/
theorem C19_guard_stable {l : CL} {SL : SList} {b : Nat} (r : Rep l SL b) (cb : Cb) (before h : Hd) {n : Nat}
    (hn : n ∈ SL.ids) {cap : Nat} (hcap : 1 ≤ cap) (hg : guard (l.heap n).counter cap = true) :
    guard ((l.append (b + 1) b cb).heap n).counter cap = true ∧
    guard ((l.prepend (b + 1) b cb).heap n).counter cap = true ∧
    guard ((l.insert (b + 1) b cb before).heap n).counter cap = true ∧
    (n ≠ h → guard ((l.remove h).1.heap n).counter cap = true) :=
  ⟨guard_stable (append_counter r cb hn) hcap hg, guard_stable (prepend_counter r cb hn) hcap hg,
   guard_stable (insert_counter r cb before hn) hcap hg,
   fun hne => by rw [remove_counter l h hne]; exact hg⟩

/-
  NOT PROVED (the remaining part of the property for invocations in progress at a wrap):

    "every callback of the in-progress invocation's snapshot that is still in the list when the
     traversal reaches it is still called exactly once"

  Full intended statement: strengthen the frame invariant of `MInvD` from `FrameOK … n 0 []` to
    ∃ R S, (structural part as above) ∧
      List.Sublist ((rest.filter (fun e => SL.present e.id)).map (·.id))
                   ((if R = [] then S.tail else S).filter (fun x => (heap x).counter ≤ cap)) ∧
      (1 ≤ cap ∨ rest = [])
  where `rest` is the remaining snapshot of the corresponding Spec invocation, and show that every
  step preserves it.  (Before the first wrap `FrameOK` gives equality; the wrap rewrites every
  live counter to 1 ≤ cap, which keeps the sublist relation and may add the nodes appended during
  the invocation — the permitted extra calls; later appends draw 2, 3, … which may or may not pass
  `cap`.)  This needs sublist versions of `frame_linkBack` / `frame_linkFront` / `frame_linkBefore`
  / `frame_freeNode` (CL/OpAux.lean), which are proved there only for the equality.
  What *is* proved for in-progress invocations: `C19_during`, `C19_during_walk` (structure of what
  is ahead + the skip loop takes the first node ahead that passes the guard), `C19_during_next`,
  `C19_guard_stable` (a callback that passes the guard keeps passing it across every operation and
  every wrap).  Together they are the per-step facts from which the statement above follows by
  induction along the ghost snapshot; that induction (a ghost-instrumented machine) is what is
  missing.
-/

/-! ### non-vacuity: modulus 4 -/

def c19Beh : Beh := fun _ _ => .ret true

/-- a world whose list 0 has a 2-bit generation counter -/
def c19Init (p : Prog) : MCfg := { lists := upd {} 0 { M := 4 }, stack := [.prog p] }

theorem c19Init_inv (p : Prog) : MInv (c19Init p) := by
  intro l
  show ∃ SL, Rep ((upd ({} : Store CL) 0 { M := 4 }) l) SL 0
  rw [upd_get]
  split
  · exact ⟨[], rep_fresh 0 4 0 (by decide) (by decide)⟩
  · have : (({} : Store CL) l) = ({} : CL) := Store.empty_get l
    rw [this]
    exact ⟨[], Rep.empty 0⟩

/-- five appends (the fourth one wraps), an invocation, a remove through an old handle (twice),
    another invocation -/
def c19Prog : Prog :=
  .op (.append 0 10) fun _ => .op (.append 0 11) fun _ => .op (.append 0 12) fun _ =>
  .op (.append 0 13) fun _ => .op (.append 0 14) fun _ =>
  .op (.invoke 0 7) fun _ => .op (.remove 0 1) fun _ => .op (.remove 0 1) fun _ =>
  .op (.invoke 0 8) fun _ => .ret true

/-- the counter wrapped once (during the fourth append); the invocation after the wrap calls all
    five callbacks in order; `remove` of the old handle 1 works exactly once; the next invocation
    calls the remaining four. -/
example :
    let m := (MCfg.runN c19Beh 40 (c19Init c19Prog)).1
    (MCfg.runN c19Beh 3 (c19Init c19Prog)).1.wraps = 0 ∧
    (MCfg.runN c19Beh 4 (c19Init c19Prog)).1.wraps = 1 ∧ m.wraps = 1 ∧
    m.trace.reverse =
      [.res (.handle 0), .res (.handle 1), .res (.handle 2), .res (.handle 3), .res (.handle 4),
       .call ⟨0, 0, 10, 7, false⟩, .call ⟨0, 1, 11, 7, false⟩, .call ⟨0, 2, 12, 7, false⟩,
       .call ⟨0, 3, 13, 7, false⟩, .call ⟨0, 4, 14, 7, false⟩, .res .unit,
       .res (.bool true), .res (.bool false),
       .call ⟨0, 0, 10, 8, false⟩, .call ⟨0, 2, 12, 8, false⟩, .call ⟨0, 3, 13, 8, false⟩,
       .call ⟨0, 4, 14, 8, false⟩, .res .unit] ∧
    absList (m.lists 0) 10 = [⟨0, 10⟩, ⟨2, 12⟩, ⟨3, 13⟩, ⟨4, 14⟩] := by
  decide +kernel

/-- the hypotheses of `C19_after` / `C19_after_run` hold in the state right after the wrap (five
    appends done, a new program started), and the Spec state read off the pointers is the list of
    all five callbacks. -/
example :
    let m : MCfg := { (MCfg.runN c19Beh 5 (c19Init c19Prog)).1 with stack := [.prog (.op (.invoke 0 7) fun _ => .ret true)] }
    m.wraps = 1 ∧ Sim m (absCfg m (.op (.invoke 0 7) fun _ => .ret true)) ∧
    (absCfg m (.op (.invoke 0 7) fun _ => .ret true)).lists 0 = [⟨0, 10⟩, ⟨1, 11⟩, ⟨2, 12⟩, ⟨3, 13⟩, ⟨4, 14⟩] := by
  intro m
  have hm : MInv m := C19_inv c19Beh 5 (c19Init_inv c19Prog)
  exact ⟨by decide +kernel, (C19_after hm rfl).1, by decide +kernel⟩

/-- the first callback, on its first call, appends three callbacks; the third append wraps -/
def c19Beh2 : Beh := fun c nth =>
  if c.cb = 10 ∧ nth = 0 then
    .op (.append 0 11) fun _ => .op (.append 0 12) fun _ => .op (.append 0 13) fun _ => .ret true
  else .ret true

def c19Prog2 : Prog :=
  .op (.append 0 10) fun _ => .op (.invoke 0 7) fun _ => .op (.invoke 0 8) fun _ => .ret true

/-- **the permitted extra calls.**  The invocation with argument 7 is in progress when the counter
    wraps (`wraps = 1`); it then calls the callbacks 11, 12, 13 that were added during it (the Spec
    invocation does not: its trace has no such calls).  The following invocation (argument 8)
    calls all four, each once, in order, as the Spec says. -/
example :
    let m := (MCfg.runN c19Beh2 40 (c19Init c19Prog2)).1
    let s := (SCfg.runN c19Beh2 40 { stack := [.prog c19Prog2] }).1
    m.wraps = 1 ∧
    m.trace.reverse =
      [.res (.handle 0),
       .call ⟨0, 0, 10, 7, false⟩, .res (.handle 1), .res (.handle 2), .res (.handle 3),
       .call ⟨0, 1, 11, 7, false⟩, .call ⟨0, 2, 12, 7, false⟩, .call ⟨0, 3, 13, 7, false⟩, .res .unit,
       .call ⟨0, 0, 10, 8, false⟩, .call ⟨0, 1, 11, 8, false⟩, .call ⟨0, 2, 12, 8, false⟩,
       .call ⟨0, 3, 13, 8, false⟩, .res .unit] ∧
    s.trace.reverse =
      [.res (.handle 0),
       .call ⟨0, 0, 10, 7, false⟩, .res (.handle 1), .res (.handle 2), .res (.handle 3), .res .unit,
       .call ⟨0, 0, 10, 8, false⟩, .call ⟨0, 1, 11, 8, false⟩, .call ⟨0, 2, 12, 8, false⟩,
       .call ⟨0, 3, 13, 8, false⟩, .res .unit] := by
  decide +kernel

/-- `MInvD` holds in that run while the invocation is in progress *after* the wrap (5 steps:
    append, invoke, three appends — the third wraps): the hypotheses of `C19_during_walk` are
    satisfiable in a state with `wraps = 1` and a traversal frame on the stack. -/
example :
    let m := (MCfg.runN c19Beh2 5 (c19Init c19Prog2)).1
    MInvD m ∧ m.wraps = 1 ∧ m.stack.length = 3 := by
  intro m
  exact ⟨C19_during c19Beh2 5 (C19_during_init (c19Init_inv c19Prog2) rfl), by decide +kernel, by decide +kernel⟩

end Evp
