import EventppVerif.CL.PropAuxC19
import EventppVerif.CL.FrameSub
import EventppVerif.CL.GhostTrace
import EventppVerif.Properties.C02
/-
  Property C19 — generation-counter wrap-around never loses or resurrects a callback.

  "Adding callbacks never makes an existing callback unreachable: even when the list's internal
  generation counter wraps around after 2^32 additions, every callback then in the list keeps
  being invoked exactly once by every later invocation, removed callbacks stay removed, and
  callbacks added afterwards are invoked by later invocations.  Only invocations already in
  progress at the moment of the wrap may additionally call callbacks added during them; the rule
  that newly added callbacks are skipped holds again for all following invocations."

  Model: `CL.nextCounter` is `getNextCounter` as written: `++currentCounter`; if the result is 0
  (mod `M`, the modulus of the counter type, a field of the object so that small moduli can be
  tested) walk `head->next…`, write `counter = 1` everywhere, set `currentCounter = 1`.  The ghost
  field `MCfg.wraps` counts how often that branch was taken.

  What is proved, with no hypothesis about `wraps` anywhere:
  * `C19_inv`: every list object stays well formed (`MInv`) for every behaviour and every number
    of steps; `C19_inv_meaning` spells `MInv` out;
  * `C19_after`, `C19_after_run`, `C19_after_history`: after any history — with any number of
    wraps — a state with no invocation in progress is related (`Sim`) to the Spec state obtained
    by reading the objects through `head`/`next`; hence by C02 every later invocation calls
    exactly the callbacks then in the list, once each, in order, skips those added during it,
    and never calls a removed one, until the next wrap, after which the same theorem applies again;
  * `C19_wrap_append` / `_prepend` / `_insert`: the wrapping operation itself keeps the content
    (represents the Spec result), leaves `currentCounter = 1` and every callback's counter `1`;
  * `C19_during`, `C19_during_walk`, `C19_during_next`: invocations in progress at a wrap stay
    memory safe and terminate, and whatever they call afterwards is a callback that is in the
    list at that time (never a removed one), reached strictly along the list order;
  * `C19_during_once` (with `C19_during_once_inv`, `_init`, `_start`, `_frames`, `_sublist`,
    `_ops`, `_seek`): an invocation in progress when the counter wraps still calls every callback
    of its snapshot that is in the list when reached, exactly once, in snapshot order; the only
    other callbacks it can call are ones added after it started;
  * `C19_called_is_trace` (with `_init`, `_step`, `_runN`, `_erase`): the ghost field `called` used
    above *is* the sequence of handles of the `.call` events that the invocation appended to the
    trace, at every nesting depth, along every run; `C19_trace_once_from` / `C19_trace_once`: the
    closed form of `C19_during_once` stated on the trace, with no ghost record in the statement;
  * concrete runs with modulus 4: content survives the wrap; the permitted extra calls occur; the
    snapshot survivors are still called after a wrap that happens during the invocation.
-/
namespace Evp

/-! ### the invariant holds across wraps -/

/-- **C19 (well-formedness, always).**  For every behaviour of the callbacks, every number of
    steps and every start world whose list objects are well formed: every list object is well
    formed afterwards — no matter how many counter wraps happened in between. -/
theorem C19_inv (beh : Beh) (n : Nat) {m : MCfg} (h : MInv m) : MInv (MCfg.runN beh n m).1 :=
  minv_runN beh n h

/-- **C19 (what `MInv` says).**  For every list `l` of a world satisfying `MInv`, with
    `L` = the nodes on the `head`/`next` chain: `L` has no duplicates, `head` starts it and `next`
    of its last node is null (`Seg … none`), `tail`/`previous` walk it backwards, a node is on the
    chain iff its counter is not `removedCounter` (= 0), the counter of every node on the chain is
    in `[1, currentCounter]`, `currentCounter < M`, all its nodes were allocated (`< nextId`), and
    no null pointer was ever dereferenced. -/
theorem C19_inv_meaning {m : MCfg} (h : MInv m) (l : Nat) :
    let cl := m.lists l
    let L := chainOf cl.heap (m.nextId + 1) cl.head
    L.Nodup ∧ Seg nextF cl.heap cl.head L none ∧ Seg prevF cl.heap cl.tail L.reverse none ∧
    (∀ n, n ∈ L ↔ (cl.heap n).counter ≠ 0) ∧
    (∀ n ∈ L, 1 ≤ (cl.heap n).counter ∧ (cl.heap n).counter ≤ cl.cur) ∧
    cl.cur < cl.M ∧ (∀ n ∈ L, n < m.nextId) ∧ cl.ub = false := by
  obtain ⟨SL, r⟩ := h l
  intro cl L
  have hL : L = SL.ids := r.chain
  rw [hL]
  have w := r.wf
  exact ⟨w.nodup, w.fwd, w.bwd, w.live, fun n hn => ⟨Nat.pos_of_ne_zero ((w.live n).mp hn), w.cnt n hn⟩,
    w.cur_lt, w.lt, w.ub⟩

/-! ### invocations that start after a wrap -/

/-- **C19 (after any history).**  Let `m` be any Model state whose list objects are well formed
    (`MInv`; by `C19_inv` every state reachable from the empty world, through any number of wraps)
    and in which no invocation is in progress (the stack is one program `p`).  Then `m` is related
    to the Spec state `absCfg m p` whose lists are the objects' `head`/`next` chains with the stored
    callbacks, same `nextId`, same trace, about to run `p`. -/
theorem C19_after {m : MCfg} (h : MInv m) {p : Prog} (hst : m.stack = [.prog p]) :
    Sim m (absCfg m p) ∧ (absCfg m p).stack = [.prog p] ∧ (absCfg m p).nextId = m.nextId ∧
    (absCfg m p).trace = m.trace ∧
    ∀ l, ((absCfg m p).lists l).ids = chainOf (m.lists l).heap (m.nextId + 1) (m.lists l).head ∧
      ∀ e ∈ (absCfg m p).lists l, ((m.lists l).heap e.id).cb = e.cb := by
  have hs := sim_abs h hst
  refine ⟨hs, rfl, rfl, rfl, fun l => ⟨?_, (hs.rep l).cbs⟩⟩
  rw [absCfg_lists]
  simp [absList, SList.ids, Function.comp_def]

/-- **C19 (everything after behaves as the Spec says).**  From such a state, for every behaviour
    and every number of steps up to (not including) the *next* wrap, Model and Spec run in
    lock-step: same calls (list, handle, callback, argument), same results, same halting.  In
    particular (C01, C02) every invocation started from here calls exactly the callbacks in the
    list at its start that are still in the list when reached, each once, in list order, and none
    added during it. -/
theorem C19_after_run (beh : Beh) (n : Nat) {m : MCfg} (h : MInv m) {p : Prog} (hst : m.stack = [.prog p])
    (nowrap : (MCfg.runN beh n m).1.wraps = m.wraps) :
    Sim (MCfg.runN beh n m).1 (SCfg.runN beh n (absCfg m p)).1 ∧
    (MCfg.runN beh n m).1.trace = (SCfg.runN beh n (absCfg m p)).1.trace ∧
    (MCfg.runN beh n m).2 = (SCfg.runN beh n (absCfg m p)).2 :=
  C02_simulation beh n m _ (sim_abs h hst) nowrap

/-- **C19 (reachable form).**  Start anywhere well formed (e.g. the empty world), run `k` steps of
    any behaviour `beh0` with any number of wraps, arrive in a state with no invocation in progress,
    start a new program `p` there: what follows (any behaviour, `n` steps without a further wrap)
    is what the Spec does from the content read off the pointers. -/
theorem C19_after_history (beh0 beh : Beh) (k n : Nat) {m0 : MCfg} (h0 : MInv m0) (p : Prog) :
    let m := { (MCfg.runN beh0 k m0).1 with stack := [.prog p] }
    (MCfg.runN beh n m).1.wraps = m.wraps →
    (MCfg.runN beh n m).1.trace = (SCfg.runN beh n (absCfg m p)).1.trace ∧
    (MCfg.runN beh n m).2 = (SCfg.runN beh n (absCfg m p)).2 := by
  intro m nowrap
  have hm : MInv m := C19_inv beh0 k h0
  exact (C19_after_run beh n hm rfl nowrap).2

/-! ### the wrapping operation itself -/

/-- **C19 (the wrap keeps the content — append).**  If `l` represents `SL` and the next
    `getNextCounter` wraps, `append` still yields an object representing `SL.append`: same chain
    plus the new node at the back, same callbacks, nothing lost, nothing resurrected; afterwards
    `currentCounter = 1` and every node on the chain (old or new) has counter 1. -/
theorem C19_wrap_append {l : CL} {SL : SList} {b : Nat} (r : Rep l SL b) (hw : l.willWrap = true) (cb : Cb) :
    Rep (l.append (b + 1) b cb) (SL.append b cb) (b + 1) ∧
    (l.append (b + 1) b cb).cur = 1 ∧
    ∀ n ∈ (SL.append b cb).ids, ((l.append (b + 1) b cb).heap n).counter = 1 :=
  ⟨rep_append r cb, append_wrap r hw cb⟩

/-- the same for `prepend` -/
theorem C19_wrap_prepend {l : CL} {SL : SList} {b : Nat} (r : Rep l SL b) (hw : l.willWrap = true) (cb : Cb) :
    Rep (l.prepend (b + 1) b cb) (SL.prepend b cb) (b + 1) ∧
    (l.prepend (b + 1) b cb).cur = 1 ∧
    ∀ n ∈ (SL.prepend b cb).ids, ((l.prepend (b + 1) b cb).heap n).counter = 1 :=
  ⟨rep_prepend r cb, prepend_wrap r hw cb⟩

/-- the same for `insert` (before a handle that is or is not in the list) -/
theorem C19_wrap_insert {l : CL} {SL : SList} {b : Nat} (r : Rep l SL b) (hw : l.willWrap = true) (cb : Cb)
    (before : Hd) :
    Rep (l.insert (b + 1) b cb before) (SL.insert b cb before) (b + 1) ∧
    (l.insert (b + 1) b cb before).cur = 1 ∧
    ∀ n ∈ (SL.insert b cb before).ids, ((l.insert (b + 1) b cb before).heap n).counter = 1 :=
  ⟨rep_insert r cb before, insert_wrap r hw cb before⟩

/-! ### invocations in progress at a wrap -/

/-- **C19 (in progress, invariant).**  `MInvD m` (CL/PropAuxC19.lean): every list object of `m`
    represents a list, and for every running traversal `iter l n cap …` on the stack the structural
    frame invariant holds (see `C19_during_walk`).  It holds in every world without running
    traversal (`C19_during_init`) and is preserved by every step of every behaviour — appends that
    wrap the counter of the list being traversed included; there is no hypothesis on `wraps`. -/
theorem C19_during (beh : Beh) (n : Nat) {m : MCfg} (h : MInvD m) : MInvD (MCfg.runN beh n m).1 :=
  minvD_runN beh n h

theorem C19_during_init {m : MCfg} (h : MInv m) {p : Prog} (hst : m.stack = [.prog p]) : MInvD m :=
  minvD_of_minv h hst

/-- **C19 (in progress, what the invariant gives).**  For every running traversal of list `l`
    standing on node `n` (any nesting depth, any captured generation, before or after any number
    of wraps): following `next` from `n` visits, within the fuel, a duplicate-free sequence
    `R ++ S` and then null, where `R` are removed nodes (counter 0: the guard never calls them) and
    `S` is a suffix of the current live chain `SL.ids`.  So the traversal terminates without
    touching an unallocated node, never calls a removed callback, and can only call callbacks
    that are in the list, in list order, each at most once more.  Moreover its skip loop (for
    whatever captured generation `cap'`) finds exactly the *first* live node ahead whose counter is
    at most `cap'`: no callback ahead that passes the guard is skipped. -/
theorem C19_during_walk {m : MCfg} (h : MInvD m) {l n cap arg : Nat} {ho : Bool}
    (hf : MFrame.iter l n cap arg ho ∈ m.stack) :
    ∃ (SL : SList) (R S : List Nat), Rep (m.lists l) SL m.nextId ∧ S <:+ SL.ids ∧
      (∀ x ∈ R, ((m.lists l).heap x).counter = 0) ∧
      (if R = [] then S.head? = some n else R.head? = some n) ∧
      chainOf (m.lists l).heap (m.nextId + 1) (some n) = R ++ S ∧ (R ++ S).Nodup ∧
      ∀ cap', seek (m.lists l).heap cap' (m.nextId + 1) ((m.lists l).heap n).next =
        ((if R = [] then S.tail else S).filter
          (fun a => decide (((m.lists l).heap a).counter ≤ cap'))).head? := by
  obtain ⟨SL, r, f⟩ := h.frame hf
  obtain ⟨R, S, h1, h2, h3, h4, h5, h6⟩ := frame0_walk r f
  exact ⟨SL, R, S, r, h1, h2, h3, h4, h5, h6⟩

/-- **C19 (in progress, the next call).**  Whatever node the skip loop of such a traversal finds
    next is a callback that is in the list now (never a removed or resurrected one). -/
theorem C19_during_next {m : MCfg} (h : MInvD m) {l n cap arg : Nat} {ho : Bool}
    (_hf : MFrame.iter l n cap arg ho ∈ m.stack) {n' : Nat}
    (hs : seek (m.lists l).heap cap (m.nextId + 1) ((m.lists l).heap n).next = some n') :
    n' ∈ chainOf (m.lists l).heap (m.nextId + 1) (m.lists l).head ∧ ((m.lists l).heap n').counter ≠ 0 := by
  obtain ⟨SL, r⟩ := h.minv l
  have hg := seek_guard hs
  have hc : ((m.lists l).heap n').counter ≠ 0 := by
    intro h0; simp [guard, h0] at hg
  exact ⟨by rw [r.chain]; exact (r.wf.live n').mpr hc, hc⟩

/-- **C19 (in progress, generations never grow).**  `append` / `prepend` / `insert` (wrapping or
    not) leave the counter of every callback already in the list unchanged or set it to 1, and
    `remove` leaves the others' unchanged: a callback that passes the guard of an invocation in
    progress (captured generation `cap ≥ 1`, which holds whenever the list was non-empty at its
    start) keeps passing it until it is removed — the wrap never hides a callback from an
    invocation in progress. -/
theorem C19_guard_stable {l : CL} {SL : SList} {b : Nat} (r : Rep l SL b) (cb : Cb) (before h : Hd) {n : Nat}
    (hn : n ∈ SL.ids) {cap : Nat} (hcap : 1 ≤ cap) (hg : guard (l.heap n).counter cap = true) :
    guard ((l.append (b + 1) b cb).heap n).counter cap = true ∧
    guard ((l.prepend (b + 1) b cb).heap n).counter cap = true ∧
    guard ((l.insert (b + 1) b cb before).heap n).counter cap = true ∧
    (n ≠ h → guard ((l.remove h).1.heap n).counter cap = true) :=
  ⟨guard_stable (append_counter r cb hn) hcap hg, guard_stable (prepend_counter r cb hn) hcap hg,
   guard_stable (insert_counter r cb before hn) hcap hg,
   fun hne => by rw [remove_counter l h hne]; exact hg⟩

/-! ### invocations in progress at a wrap: every snapshot survivor is still called exactly once

  The Model machine is run with a *ghost stack* alongside (`grunN`, `gstep`, CL/FrameSub.lean): one
  record `Ghost` per running invocation, holding `born` — the world's id bound when the invocation
  started, so that the callbacks added later are exactly those with a handle `≥ born` —, `snap`,
  the snapshot (the list content at the start), `rest`, the part of the snapshot not reached yet,
  and `called`, the handles the invocation has called so far, in call order (`gstep` appends the
  handle whenever `MCfg.step` makes the invocation call a callback).  The ghost stack is computed
  from the Model configuration only and does not influence the run (`C19_during_once_erase`).

  `GInv m gs`: every list object of `m` is well formed and every running traversal
  `iter l n cap …` satisfies `FrameD` with its ghost record `g` (CL/FrameSub.lean): following `next`
  from `n` walks removed nodes `R` and then a suffix `S` of the live chain (as in
  `C19_during_walk`), `1 ≤ cap`, and among the live nodes ahead
    * those with a handle `< g.born` are exactly the entries of `g.rest` that are still in the list,
      in the same order, and
    * each of them passes the guard (`counter ≤ cap`).
  Counters of old nodes only ever drop to 1 (the wrap), so this survives every operation.
  In addition the record is consistent (`GhostOK`): `snap = done ++ rest`, the calls of handles
  `< born` are in call order a sublist of `done`, every entry of `done` was called or is no
  longer in the list. -/

/-- **C19 (in progress, ghost invariant).**  `GInv` holds in every world without a running
    invocation … -/
theorem C19_during_once_init {m : MCfg} (h : MInv m) {p : Prog} (hst : m.stack = [.prog p]) : GInv m [] :=
  ginv_init h hst

/-- … and is preserved by every step of every behaviour: appends / prepends / inserts that wrap the
    generation counter of a list that is being traversed (at any nesting depth) included.  There is
    no hypothesis on `wraps`. -/
theorem C19_during_once_inv (beh : Beh) (n : Nat) {m : MCfg} {gs : List Ghost} (h : GInv m gs) :
    GInv (grunN beh n m gs).1 (grunN beh n m gs).2 :=
  ginv_runN beh n h

/-- one step -/
theorem C19_during_once_step (beh : Beh) {m m' : MCfg} {gs : List Ghost} (h : GInv m gs)
    (st : MCfg.step beh m = some m') : GInv m' (gstep m gs) :=
  ginv_step beh h st

/-- the ghost stack is an annotation only: the Model component of the instrumented run is the run -/
theorem C19_during_once_erase (beh : Beh) (n : Nat) (m : MCfg) (gs : List Ghost) :
    (grunN beh n m gs).1 = (MCfg.runN beh n m).1 :=
  grunN_fst beh n m gs

/-- **C19 (in progress, start of an invocation).**  When `invoke` / `enum` of list `l` calls a
    callback (`gstep` then is `gstart m l`): the list content is `e :: es`, the callback called is
    `e`, and the ghost record pushed for the new invocation is `born = nextId`, `snap = e :: es`,
    `rest = es`, `called = [e.id]`.  All handles of the snapshot are distinct and `< born`. -/
theorem C19_during_once_start {m : MCfg} {gs : List Ghost} (h : GInv m gs) {l n' : Nat}
    (hs : seek (m.lists l).heap (m.lists l).cur (m.nextId + 1) (m.lists l).head = some n') :
    ∃ e es, absL m l = e :: es ∧ e.id = n' ∧ ((m.lists l).heap n').cb = e.cb ∧
      gstart m l gs = ⟨m.nextId, e :: es, es, [n']⟩ :: gs ∧
      (absL m l).ids.Nodup ∧ ∀ x ∈ absL m l, x.id < m.nextId := by
  have r := h.reps l
  obtain ⟨e, es, hSL, he, hcb, ha, _⟩ := framed_start r hs
  refine ⟨e, es, hSL, he, hcb, ?_, r.wf.nodup, fun x hx => r.wf.lt _ (SList.mem_ids_of_mem hx)⟩
  unfold gstart MCfg.fuel
  rw [hs]
  show (⟨m.nextId, absL m l, advance n' (absL m l), [n']⟩ : Ghost) :: gs = _
  rw [ha, hSL]

/-- **C19 (in progress, every snapshot survivor is called exactly once, in order) —
    `C19_during_once`.**  Let the callback of a running invocation of list `l` return (the stack is
    `ret v :: iter l n cap … :: below`), in a state satisfying `GInv` — any number of counter wraps
    may have happened since the invocation started.  Its ghost record is the top record `g`; every
    entry of the remaining snapshot `g.rest` has a handle `< g.born`.  Let `SL` be the current
    content of the list.  For what the skip loop of `doForEachIf` finds next:

    * nothing (the invocation ends): no entry of the remaining snapshot is in the list — nothing
      that should have been called was skipped; the record is popped;
    * a node `n'`: it is in the list now, and
      - if `n' < g.born` (the callback existed when the invocation started) then it is *the* next
        call of the Spec invocation: the first entry `e` of the remaining snapshot that is still in
        the list (`g.rest.dropWhile (not present) = e :: es`), with the stored callback, and the
        remaining snapshot becomes `es`;
      - otherwise `n'` was added during the invocation (the permitted extra call, possible only
        after a wrap) and the remaining snapshot is unchanged.

    Hence, along the run, the calls of the invocation with a handle `< born` are exactly the
    snapshot entries that are still in the list when reached, in snapshot order, each once (an
    entry leaves `rest` when it is called or found removed, the snapshot's handles are distinct
    (`C19_during_once_start`), and every other call has a handle `≥ born`). -/
theorem C19_during_once {m : MCfg} {gs0 : List Ghost} (h : GInv m gs0) {v : Bool} {l n cap arg : Nat}
    {ho : Bool} {below : List MFrame}
    (hst : m.stack = .prog (.ret v) :: .iter l n cap arg ho :: below) :
    ∃ g gs, gs0 = g :: gs ∧ (∀ e ∈ g.rest, e.id < g.born) ∧ g.born ≤ m.nextId ∧
      match seek (m.lists l).heap cap (m.nextId + 1) ((m.lists l).heap n).next with
      | none => (∀ e ∈ g.rest, (absL m l).present e.id = false) ∧ gnext m l n cap gs0 = gs
      | some n' => (absL m l).present n' = true ∧
          (n' < g.born → ∃ e es, g.rest.dropWhile (fun e => !(absL m l).present e.id) = e :: es ∧
            e.id = n' ∧ ((m.lists l).heap n').cb = e.cb ∧
            gnext m l n cap gs0 = { g with rest := es, called := g.called ++ [n'] } :: gs) ∧
          (g.born ≤ n' → gnext m l n cap gs0 = { g with called := g.called ++ [n'] } :: gs) := by
  have r := h.reps l
  have hs := h.2
  rw [hst] at hs
  obtain ⟨g, gs, rfl, ok, _, _⟩ := hs.prog_inv.iter_inv
  have hold : (∀ e ∈ g.rest, e.id < g.born) ∧ g.born ≤ m.nextId := by
    obtain ⟨_, _, _, _, _, _, _, h6, _, _, _, h10⟩ := ok
    exact ⟨h10, h6⟩
  refine ⟨g, gs, rfl, hold.1, hold.2, ?_⟩
  cases hsk : seek (m.lists l).heap cap (m.nextId + 1) ((m.lists l).heap n).next with
  | none =>
    refine ⟨framed_done r ok hsk, ?_⟩
    unfold gnext MCfg.fuel
    rw [hsk]; rfl
  | some n' =>
    obtain ⟨hmem, h1, h2⟩ := framed_step r ok hsk
    have hg : gnext m l n cap (g :: gs) = g.next n' :: gs := by
      unfold gnext MCfg.fuel
      rw [hsk]
    refine ⟨SList.present_iff.mpr hmem, fun hlt => ?_, fun hge => ?_⟩
    · obtain ⟨e, es, d1, d2, d3, d4, _⟩ := h1 hlt
      refine ⟨e, es, d1, d2, d3, ?_⟩
      rw [hg]
      unfold Ghost.next
      rw [if_pos hlt, d4]
    · rw [hg]
      unfold Ghost.next
      rw [if_neg (by omega)]

/-- **C19 (in progress, the invocation as a whole) — closed form of `C19_during_once`.**  When a
    running invocation of list `l` ends because its skip loop finds nothing more to call — in a
    state satisfying `GInv`, after any number of counter wraps during the invocation — then, with
    `g` its ghost record (`g.snap` the list content when it started, whose handles are distinct and
    `< g.born`; `g.called` the handles it called, in call order):

    * the calls of callbacks that existed when it started (`handle < g.born`) are, in call order, a
      sublist of the snapshot: snapshot order, no callback twice;
    * every callback of the snapshot that is in the list now has been called.

    Every other call is a callback added during the invocation (`handle ≥ g.born`). -/
theorem C19_during_once_end {m : MCfg} {gs0 : List Ghost} (h : GInv m gs0) {v : Bool} {l n cap arg : Nat}
    {ho : Bool} {below : List MFrame}
    (hst : m.stack = .prog (.ret v) :: .iter l n cap arg ho :: below)
    (hend : seek (m.lists l).heap cap (m.nextId + 1) ((m.lists l).heap n).next = none) :
    ∃ g gs, gs0 = g :: gs ∧ (SList.ids g.snap).Nodup ∧ (∀ e ∈ g.snap, e.id < g.born) ∧
      List.Sublist (g.called.filter (fun n => decide (n < g.born))) (SList.ids g.snap) ∧
      (∀ e ∈ g.snap, (absL m l).present e.id = true → e.id ∈ g.called) := by
  have r := h.reps l
  have hs := h.2
  rw [hst] at hs
  obtain ⟨g, gs, rfl, ok, ⟨done, h1, h2, h3, h4, h5⟩, _⟩ := hs.prog_inv.iter_inv
  have hdone := framed_done r ok hend
  refine ⟨g, gs, rfl, h5, h4, ?_, fun e he hp => ?_⟩
  · have : SList.ids g.snap = SList.ids done ++ SList.ids g.rest := by rw [h1]; simp [SList.ids]
    rw [this]
    exact List.Sublist.trans h2 (List.sublist_append_left _ _)
  · rw [h1] at he
    rcases List.mem_append.mp he with he | he
    · rcases h3 e he with hc | hn
      · exact hc
      · rw [hn] at hp; cases hp
    · rw [hdone e he] at hp; cases hp

/-- what `MCfg.step` does when the skip loop finds `n'` (definition of `seekCall`, for reference next
    to `gstep`): it emits the event `.call ⟨l, n', stored callback, arg, ho⟩` and the invocation's
    frame moves to `n'` — these are exactly the steps in which `gstep` appends `n'` to `called`. -/
theorem C19_during_once_event (beh : Beh) (m : MCfg) {l cap arg n' : Nat} {start : Option Nat} {ho : Bool}
    {below : List MFrame} (hs : seek (m.lists l).heap cap (m.nextId + 1) start = some n') :
    (MCfg.seekCall beh m l start cap arg ho below).trace =
      .call ⟨l, n', ((m.lists l).heap n').cb, arg, ho⟩ :: m.trace ∧
    ∃ p, (MCfg.seekCall beh m l start cap arg ho below).stack = .prog p :: .iter l n' cap arg ho :: below := by
  unfold MCfg.seekCall MCfg.fuel
  rw [hs]
  exact ⟨rfl, _, rfl⟩

/-- **C19 (in progress, all nesting depths).**  Under `GInv` every running traversal on the stack —
    not only the top one — has a ghost record with which it satisfies `FrameD`, and the record is
    consistent (`GhostOK`: `snap = done ++ rest`, the old calls are a sublist of `done`, every
    entry of `done` was called or is no longer in the list). -/
theorem C19_during_once_frames {m : MCfg} {gs : List Ghost} (h : GInv m gs) {l n cap arg : Nat} {ho : Bool}
    (hf : MFrame.iter l n cap arg ho ∈ m.stack) :
    ∃ g ∈ gs, FrameD (m.lists l) (absL m l) m.nextId n cap g.born g.rest ∧ GhostOK (absL m l) g := by
  have hs := h.2
  clear h
  generalize m.stack = st at hs hf
  induction hs with
  | nil => cases hf
  | prog p _ ih =>
    rcases List.mem_cons.mp hf with e | hf
    · cases e
    · exact ih hf
  | wait k _ ih =>
    rcases List.mem_cons.mp hf with e | hf
    · cases e
    · exact ih hf
  | iter ok gok _ ih =>
    rcases List.mem_cons.mp hf with e | hf
    · cases e
      exact ⟨_, by simp, ok, gok⟩
    · obtain ⟨g, hg, hfd⟩ := ih hf
      exact ⟨g, List.mem_cons_of_mem _ hg, hfd⟩

/-- **C19 (in progress, the sublist form).**  For every running traversal: the entries of its
    remaining snapshot that are still in the list are a sublist, in order, of the live nodes ahead
    that pass its guard — of what the traversal will still call (`FrameSub`, CL/FrameSub.lean;
    before any wrap the two lists are equal, `FrameOK.toSub`).  Nothing of the snapshot is ever
    hidden from the traversal, by a wrap or otherwise. -/
theorem C19_during_once_sublist {m : MCfg} {gs : List Ghost} (h : GInv m gs) {l n cap arg : Nat} {ho : Bool}
    (hf : MFrame.iter l n cap arg ho ∈ m.stack) :
    ∃ g ∈ gs, ∃ R S : List Nat, S <:+ (absL m l).ids ∧
      (∀ x ∈ R, ((m.lists l).heap x).counter = 0) ∧
      Seg nextF (m.lists l).heap (some n) R S.head? ∧
      List.Sublist ((g.rest.filter (fun e => (absL m l).present e.id)).map (·.id))
        ((if R = [] then S.tail else S).filter
          (fun a => decide (((m.lists l).heap a).counter ≤ cap))) := by
  obtain ⟨g, hg, hfd, _⟩ := C19_during_once_frames h hf
  obtain ⟨R, S, h1, h2, _, h4, h5, _, _⟩ := hfd.toSub
  exact ⟨g, hg, R, S, h1, fun x hx => (h2 x hx).1, h4, h5⟩

/-- **C19 (in progress, the operations).**  On one list object: `append` / `prepend` / `insert`
    (whether or not `getNextCounter` takes its wrap branch) and `remove` keep the frame invariant
    `FrameD` of every running traversal with the *same* remaining snapshot. -/
theorem C19_during_once_ops {l : CL} {SL : SList} {b m cap b0 : Nat} {rest : List Entry} (r : Rep l SL b)
    (f : FrameD l SL b m cap b0 rest) (cb : Cb) (before h : Hd) :
    FrameD (l.append (b + 1) b cb) (SL.append b cb) (b + 1) m cap b0 rest ∧
    FrameD (l.prepend (b + 1) b cb) (SL.prepend b cb) (b + 1) m cap b0 rest ∧
    FrameD (l.insert (b + 1) b cb before) (SL.insert b cb before) (b + 1) m cap b0 rest ∧
    FrameD (l.remove h).1 (SL.remove h).1 b m cap b0 rest :=
  ⟨framed_append r f cb, framed_prepend r f cb, framed_insert r f cb before, framed_remove r f h⟩

/-- **C19 (in progress, the skip loop under the sublist invariant).**  Under `FrameSub` alone the
    skip loop never skips a snapshot entry that is still in the list: it ends only if there is
    none; otherwise it finds the first such entry (and the invariant holds again with the snapshot
    advanced past it) or a node that is not in the remaining snapshot (an extra call; the
    invariant holds again with the same snapshot). -/
theorem C19_during_once_seek {l : CL} {SL : SList} {b m cap : Nat} {rest : List Entry} (r : Rep l SL b)
    (f : FrameSub l SL b m cap rest) :
    match seek l.heap cap (b + 1) (l.heap m).next with
    | none => ∀ e ∈ rest, SL.present e.id = false
    | some n' => n' ∈ SL.ids ∧
        ((∃ e es, rest.dropWhile (fun e => !SL.present e.id) = e :: es ∧ e.id = n' ∧
            (l.heap n').cb = e.cb ∧ FrameSub l SL b n' cap es) ∨
         ((∀ e ∈ rest, e.id ≠ n') ∧ FrameSub l SL b n' cap rest)) :=
  framesub_seek r f

/-
  Status of the clause "Only invocations already in progress at the moment of the wrap may
  additionally call callbacks added during them": PROVED above.
    `C19_during_once_init` / `_inv` / `_step`: the ghost invariant `GInv` holds along every run, with
      any number of wraps, at any nesting depth;
    `C19_during_once_start` + `C19_during_once`: per invocation, the calls with a handle older than
      the invocation are exactly the Spec invocation's calls (first remaining snapshot entry that is
      still in the list, then the next, …; the invocation ends only when no remaining snapshot entry
      is in the list); every other call is a callback added during the invocation;
    `C19_during_once_end`: the closed form at the end of the invocation (old calls = a sublist of the
      snapshot, in order, none twice; every snapshot callback still in the list was called);
    `C19_during_once_sublist`: the sublist form of the frame invariant.
  The ghost field `called` is maintained by `gstep` (it appends `n'` exactly in the branches where
  `MCfg.seekCall` emits `.call ⟨l, n', …⟩` for that frame); that `called` is the sequence of those
  `.call` events of the trace is PROVED below (`C19_called_is_trace`, CL/GhostTrace.lean), and
  `C19_trace_once` restates `C19_during_once_end` on the trace, without ghost records.
-/

/-! ### `called` is the sequence of `.call` events of the invocation

  Nested invocations (a callback that invokes the same or another list) write into the same trace,
  and the trace alone does not say which invocation emitted an event.  So the run is instrumented
  once more (`trunN`, CL/GhostTrace.lean), again without influencing it (`C19_called_is_trace_erase`):

  * `ann` — one number per trace event (newest first, like the trace), the *emitter* of the event:
    `astep` annotates every event appended by the step out of `m` with `emitDepth m`, which for a
    step of a traversal (`ret v :: iter … :: below`, or `invoke` / `enum` pushing `iter … ::
    wait k :: rest`) is the number of frames under that traversal's `.iter` frame.  The frames under
    a running traversal never change and every traversal nested in it sits strictly higher, so
    among the events emitted while a traversal runs this number singles out its own.
  * `ks` — one *mark* per running traversal: the length of the trace when it started.

  `since k (trace.zip ann)` are the annotated events appended after the trace had length `k`, and
  `emittedBy d seg` the handles of the `.call` events of `seg` with emitter `d`, oldest first.

  `TInv m gs ks ann`: `ann.length = m.trace.length`, and for every running traversal
  `iter l n cap arg ho` with `d` frames under it, ghost record `g` and mark `k`:
  `k ≤ m.trace.length`, `g.called = emittedBy d (since k (m.trace.zip ann))`, and every `.call` event
  after the mark with emitter `d` is a call `⟨l, _, _, arg, ho⟩`. -/

/-- **C19 (`called` is the trace, start).**  `TInv` holds in every world without a running
    invocation (every event so far gets the immaterial annotation 0) … -/
theorem C19_called_is_trace_init {m : MCfg} {p : Prog} (hst : m.stack = [.prog p]) :
    TInv m [] [] (List.replicate m.trace.length 0) :=
  tinv_init hst

/-- … and every step of every behaviour keeps it: the step appends `.call ⟨l, n', …⟩` with the
    emitter of a traversal exactly when `gstep` appends `n'` to `called` of that traversal's record;
    the events of nested and of enclosing traversals carry a different emitter; a traversal that
    starts gets the current trace length as its mark. -/
theorem C19_called_is_trace_step (beh : Beh) {m m' : MCfg} {gs : List Ghost} {ks ann : List Nat}
    (h : TInv m gs ks ann) (st : MCfg.step beh m = some m') :
    TInv m' (gstep m gs) (kstep m ks) (astep m m' ann) :=
  tinv_step beh h st

/-- `n` steps -/
theorem C19_called_is_trace_inv (beh : Beh) (n : Nat) {m : MCfg} {gs : List Ghost} {ks ann : List Nat}
    (h : TInv m gs ks ann) :
    TInv (trunN beh n m gs ks ann).1 (trunN beh n m gs ks ann).2.1 (trunN beh n m gs ks ann).2.2.1
      (trunN beh n m gs ks ann).2.2.2 :=
  tinv_runN beh n h

/-- **C19 (`called` is the trace, along every run).**  From every start world with well-formed
    list objects and no invocation in progress, for every behaviour and every number of steps:
    the instrumented run satisfies `GInv` (the hypothesis of `C19_during_once`, `_end`) and `TInv`
    (the tie of `called` to the trace). -/
theorem C19_called_is_trace_runN (beh : Beh) (n : Nat) {m : MCfg} (h : MInv m) {p : Prog}
    (hst : m.stack = [.prog p]) :
    let r := trunN beh n m [] [] (List.replicate m.trace.length 0)
    GInv r.1 r.2.1 ∧ TInv r.1 r.2.1 r.2.2.1 r.2.2.2 := by
  intro r
  refine ⟨?_, tinv_runN beh n (tinv_init hst)⟩
  have := ginv_runN beh n (ginv_init h hst)
  rw [← trunN_grunN beh n m [] [] (List.replicate m.trace.length 0)] at this
  exact this

/-- marks and annotation are bookkeeping only: the Model state and the ghost stack of the
    instrumented run are those of `grunN` (hence of `MCfg.runN`, `C19_during_once_erase`), and the
    annotation does not depend on the ghost records (`arunN` is defined without them). -/
theorem C19_called_is_trace_erase (beh : Beh) (n : Nat) (m : MCfg) (gs : List Ghost) (ks ann : List Nat) :
    ((trunN beh n m gs ks ann).1, (trunN beh n m gs ks ann).2.1) = grunN beh n m gs ∧
    (trunN beh n m gs ks ann).1 = (MCfg.runN beh n m).1 ∧
    (trunN beh n m gs ks ann).2.2.2 = arunN beh n m ann :=
  ⟨trunN_grunN beh n m gs ks ann, trunN_fst beh n m gs ks ann, trunN_ann beh n m gs ks ann⟩

/-- **C19 (`called` is the trace) — `C19_called_is_trace`.**  In a state satisfying `GInv` and
    `TInv` (every state of every run, `C19_called_is_trace_runN`), for *every* running traversal
    `iter l n cap arg ho` — `pre` are the frames above it, `below` those under it, so any nesting
    depth —: its ghost record `g` and its mark `k` are the entries number `iters pre` (the number
    of traversals above it) of the ghost stack and of the marks, and

    * `g` is the record for which the frame invariant `FrameD` and `GhostOK` hold (the record that
      `C19_during_once`, `C19_during_once_end` speak about when the traversal is the top one);
    * `g.called` is the list of handles, oldest first, of the `.call` events appended to the trace
      since the traversal started (`since k`) whose emitter is this traversal (`below.length`);
    * every such event is a call of list `l` with this traversal's argument and flag. -/
theorem C19_called_is_trace {m : MCfg} {gs : List Ghost} {ks ann : List Nat} (hg : GInv m gs)
    (ht : TInv m gs ks ann) {pre below : List MFrame} {l n cap arg : Nat} {ho : Bool}
    (hst : m.stack = pre ++ .iter l n cap arg ho :: below) :
    ann.length = m.trace.length ∧
    ∃ g k, gs[iters pre]? = some g ∧ ks[iters pre]? = some k ∧ k ≤ m.trace.length ∧
      FrameD (m.lists l) (absL m l) m.nextId n cap g.born g.rest ∧ GhostOK (absL m l) g ∧
      g.called = emittedBy below.length (since k (m.trace.zip ann)) ∧
      ∀ c, (Ev.call c, below.length) ∈ since k (m.trace.zip ann) → c.list = l ∧ c.arg = arg ∧ c.enum = ho := by
  have h1 := hg.2
  have h2 := ht.2
  rw [hst] at h1 h2
  obtain ⟨g, k, e1, e2, e3, e4, e5⟩ := h2.frame
  obtain ⟨g', e1', f1, f2⟩ := h1.frame
  rw [e1] at e1'
  cases e1'
  exact ⟨ht.1, g, k, e1, e2, e3, f1, f2, e4, e5⟩

/-- **C19 (in progress, on the trace) — `C19_during_once_end` without ghost records.**
    Let `m1` be a state satisfying the two invariants (every reachable state, see `C19_trace_once`)
    whose program is about to `invoke` (`ho = false`) or `enum` (`ho = true`) list `l`, above the
    frames `rest`.  Run `j + 1` steps of any behaviour, and suppose that after each of these steps
    the stack is at least `rest.length + 3` high — i.e. the traversal pushed by this command
    (`… :: iter l … :: wait kk :: rest`) has not ended; any number of counter wraps may happen.
    Suppose that in the state `m2` reached the callback of a traversal with `rest.length + 1` frames
    under it returns and its skip loop finds nothing more to call.  Then that traversal is the one
    started at `m1` (same list, argument, flag, frames under it), and with

      `calls` := the handles, oldest first, of the `.call` events that this traversal appended to
                 the trace: the events after position `m1.trace.length` whose emitter annotation
                 (`arunN`, computed from the Model run alone) is `rest.length + 1`,

    * the content of the list at the start, `absL m1 l`, has distinct handles, all `< m1.nextId`;
    * the calls of callbacks that existed at the start (`handle < m1.nextId`) are, in call order, a
      sublist of the handles of `absL m1 l`: list order, none twice;
    * every callback of `absL m1 l` that is in the list at the end was called.

    Nothing in the conclusion mentions a ghost record.  What remains ghost is the emitter
    annotation `arunN`: the trace itself does not record which of several nested invocations
    emitted a `.call` (see CL/GhostTrace.lean); `astep` / `emitDepth` define it from the stack of
    the Model configuration at each step. -/
theorem C19_trace_once_from (beh : Beh) {m1 : MCfg} {gs1 : List Ghost} {ks1 ann1 : List Nat}
    (hg : GInv m1 gs1) (ht : TInv m1 gs1 ks1 ann1) {l arg : Nat} {ho : Bool} {kk : Res → Prog}
    {rest : List MFrame}
    (hst1 : (ho = false ∧ m1.stack = .prog (.op (.invoke l arg) kk) :: rest) ∨
      (ho = true ∧ m1.stack = .prog (.op (.enum l arg) kk) :: rest))
    (j : Nat)
    (hp : ∀ t, 1 ≤ t → t ≤ j + 1 → rest.length + 3 ≤ (MCfg.runN beh t m1).1.stack.length)
    {v : Bool} {l' n cap arg' : Nat} {ho' : Bool} {below : List MFrame}
    (hst2 : (MCfg.runN beh (j + 1) m1).1.stack = .prog (.ret v) :: .iter l' n cap arg' ho' :: below)
    (hlen : below.length = rest.length + 1)
    (hend : seek ((MCfg.runN beh (j + 1) m1).1.lists l').heap cap ((MCfg.runN beh (j + 1) m1).1.nextId + 1)
      (((MCfg.runN beh (j + 1) m1).1.lists l').heap n).next = none) :
    let m2 := (MCfg.runN beh (j + 1) m1).1
    let calls := emittedBy (rest.length + 1) (since m1.trace.length (m2.trace.zip (arunN beh (j + 1) m1 ann1)))
    (l' = l ∧ arg' = arg ∧ ho' = ho ∧ below = .wait kk :: rest) ∧
    (SList.ids (absL m1 l)).Nodup ∧ (∀ e ∈ absL m1 l, e.id < m1.nextId) ∧
    List.Sublist (calls.filter (fun x => decide (x < m1.nextId))) (SList.ids (absL m1 l)) ∧
    (∀ e ∈ absL m1 l, (absL m2 l).present e.id = true → e.id ∈ calls) := by
  intro m2 calls
  -- the instrumented run
  have hr1 : (trunN beh (j + 1) m1 gs1 ks1 ann1).1 = m2 := trunN_fst beh (j + 1) m1 gs1 ks1 ann1
  have hr4 : (trunN beh (j + 1) m1 gs1 ks1 ann1).2.2.2 = arunN beh (j + 1) m1 ann1 :=
    trunN_ann beh (j + 1) m1 gs1 ks1 ann1
  have hg2 : GInv (trunN beh (j + 1) m1 gs1 ks1 ann1).1 (trunN beh (j + 1) m1 gs1 ks1 ann1).2.1 := by
    have := ginv_runN beh (j + 1) hg
    rw [← trunN_grunN beh (j + 1) m1 gs1 ks1 ann1] at this
    exact this
  have ht2 := tinv_runN beh (j + 1) ht
  -- the first step starts the traversal
  have hstep : MCfg.step beh m1 =
      some (MCfg.seekCall beh m1 l (m1.lists l).head (m1.lists l).cur arg ho (.wait kk :: rest)) ∧
      gstep m1 gs1 = gstart m1 l gs1 ∧ kstep m1 ks1 = kstart m1 l ks1 := by
    rcases hst1 with ⟨rfl, h⟩ | ⟨rfl, h⟩
    · exact ⟨MCfg.step_invoke h, gstep_invoke h, kstep_invoke h⟩
    · exact ⟨MCfg.step_enum h, gstep_enum h, kstep_enum h⟩
  obtain ⟨hm, hgs, hks⟩ := hstep
  have e : ∀ t, trunN beh (t + 1) m1 gs1 ks1 ann1 =
      trunN beh t (MCfg.seekCall beh m1 l (m1.lists l).head (m1.lists l).cur arg ho (.wait kk :: rest))
        (gstart m1 l gs1) (kstart m1 l ks1) (astep m1 (MCfg.seekCall beh m1 l (m1.lists l).head (m1.lists l).cur arg ho (.wait kk :: rest)) ann1) := by
    intro t; rw [trunN, hm, hgs, hks]
  have hp' : ∀ t, t ≤ j → rest.length + 3 ≤
      (trunN beh t (MCfg.seekCall beh m1 l (m1.lists l).head (m1.lists l).cur arg ho (.wait kk :: rest))
        (gstart m1 l gs1) (kstart m1 l ks1) (astep m1 (MCfg.seekCall beh m1 l (m1.lists l).head (m1.lists l).cur arg ho (.wait kk :: rest)) ann1)).1.stack.length := by
    intro t ht'
    have := hp (t + 1) (by omega) (by omega)
    rw [← trunN_fst beh (t + 1) m1 gs1 ks1 ann1, e] at this
    exact this
  cases hsk : seek (m1.lists l).heap (m1.lists l).cur (m1.nextId + 1) (m1.lists l).head with
  | none =>
    exfalso
    have h0 := hp' 0 (Nat.zero_le _)
    have e0 : MCfg.seekCall beh m1 l (m1.lists l).head (m1.lists l).cur arg ho (.wait kk :: rest) =
        m1.deliver (MCfg.finishRes ho true) (.wait kk :: rest) := by
      unfold MCfg.seekCall MCfg.fuel; rw [hsk]
    rw [e0] at h0
    have := MCfg.deliver_stack_le m1 (MCfg.finishRes ho true) (.wait kk :: rest)
    simp only [trunN, List.length_cons] at h0 this
    omega
  | some n' =>
    obtain ⟨e0, es, hSL, _, _, hgst, hnd, hlt⟩ := C19_during_once_start hg (gs := gs1) hsk
    have hkst : kstart m1 l ks1 = m1.trace.length :: ks1 := by
      unfold kstart MCfg.fuel; rw [hsk]
    have hstk : (MCfg.seekCall beh m1 l (m1.lists l).head (m1.lists l).cur arg ho (.wait kk :: rest)).stack =
        [.prog (beh ⟨l, n', ((m1.lists l).heap n').cb, arg, ho⟩ (countCalls m1.trace ((m1.lists l).heap n').cb))] ++
          .iter l n' (m1.lists l).cur arg ho :: .wait kk :: rest := by
      unfold MCfg.seekCall MCfg.fuel; rw [hsk]; rfl
    have hf0 : Follow (.wait kk :: rest) gs1 ks1 l arg ho m1.nextId (absL m1 l) m1.trace.length
        (MCfg.seekCall beh m1 l (m1.lists l).head (m1.lists l).cur arg ho (.wait kk :: rest))
        (gstart m1 l gs1) (kstart m1 l ks1) :=
      ⟨_, n', _, _, [], [], hstk, by rw [hgst]; rfl, by rw [hkst]; rfl, rfl, rfl, rfl, by rw [hSL]⟩
    have hf := follow_runN beh j (ann := astep m1 (MCfg.seekCall beh m1 l (m1.lists l).head (m1.lists l).cur arg ho (.wait kk :: rest)) ann1) hf0 (by
      intro t ht'
      have := hp' t ht'
      simpa using this)
    rw [← e j] at hf
    have hst2' : (trunN beh (j + 1) m1 gs1 ks1 ann1).1.stack = .prog (.ret v) :: .iter l' n cap arg' ho' :: below := by
      rw [hr1]; exact hst2
    obtain ⟨hb, hl', ha', hho', g, hgs2, hks2, hborn, hsnap⟩ := hf.top hst2' (by simpa using hlen)
    have hend' : seek ((trunN beh (j + 1) m1 gs1 ks1 ann1).1.lists l').heap cap
        ((trunN beh (j + 1) m1 gs1 ks1 ann1).1.nextId + 1)
        (((trunN beh (j + 1) m1 gs1 ks1 ann1).1.lists l').heap n).next = none := by
      rw [hr1]; exact hend
    obtain ⟨g', gs', hgg, d1, d2, d3, d4⟩ := C19_during_once_end hg2 hst2' hend'
    rw [hgs2] at hgg
    injection hgg with hgg _
    subst hgg
    -- the tie at the end
    have hts := ht2.2
    rw [hst2', hgs2, hks2] at hts
    obtain ⟨g'', _, k'', _, hg'', hk'', _, hcalled, _, _⟩ := hts.prog_inv.iter_inv
    injection hg'' with hg'' _
    injection hk'' with hk'' _
    subst hg''; subst hk''
    have hcalls : g.called = calls := by
      rw [hcalled, hr1, hr4, hlen]
    subst hl'
    rw [hborn, hsnap, hcalls] at d3
    rw [hsnap] at d1 d2
    rw [hborn] at d2
    refine ⟨⟨rfl, ha', hho', hb⟩, d1, d2, d3, ?_⟩
    intro e he hpres
    have := d4 e (by rw [hsnap]; exact he) (by rw [hr1]; exact hpres)
    rw [hcalls] at this
    exact this

/-- **C19 (in progress, on the trace, along runs from a start world) — `C19_trace_once`.**
    `C19_trace_once_from` for the states of a run from a start world `m0` with well-formed list
    objects and no invocation in progress: `m1` is the state after `i` steps, about to `invoke` /
    `enum` list `l`; the traversal so started is still running after each of the steps
    `i + 1, …, i + j + 1`; in the state `m2` after `i + j + 1` steps its skip loop finds nothing more.
    `calls` are the handles of the `.call` events this traversal appended to the trace (emitter
    annotation `arunN` of the whole run, positions after `m1.trace.length`).  Then: the calls of
    callbacks older than the traversal are a sublist of the list content at its start (list order,
    none twice), and every callback of that content still in the list at the end was called —
    whatever the callbacks did, however often the generation counter wrapped meanwhile.  No ghost
    record occurs in the statement; the only instrumentation left is the emitter annotation. -/
theorem C19_trace_once (beh : Beh) {m0 : MCfg} (h0 : MInv m0) {p : Prog} (hst0 : m0.stack = [.prog p])
    (i j : Nat) {l arg : Nat} {ho : Bool} {kk : Res → Prog} {rest : List MFrame}
    (hst1 : (ho = false ∧ (MCfg.runN beh i m0).1.stack = .prog (.op (.invoke l arg) kk) :: rest) ∨
      (ho = true ∧ (MCfg.runN beh i m0).1.stack = .prog (.op (.enum l arg) kk) :: rest))
    (hp : ∀ t, i < t → t ≤ i + (j + 1) → rest.length + 3 ≤ (MCfg.runN beh t m0).1.stack.length)
    {v : Bool} {l' n cap arg' : Nat} {ho' : Bool} {below : List MFrame}
    (hst2 : (MCfg.runN beh (i + (j + 1)) m0).1.stack = .prog (.ret v) :: .iter l' n cap arg' ho' :: below)
    (hlen : below.length = rest.length + 1)
    (hend : seek ((MCfg.runN beh (i + (j + 1)) m0).1.lists l').heap cap
      ((MCfg.runN beh (i + (j + 1)) m0).1.nextId + 1)
      (((MCfg.runN beh (i + (j + 1)) m0).1.lists l').heap n).next = none) :
    let m1 := (MCfg.runN beh i m0).1
    let m2 := (MCfg.runN beh (i + (j + 1)) m0).1
    let ann := arunN beh (i + (j + 1)) m0 (List.replicate m0.trace.length 0)
    let calls := emittedBy (rest.length + 1) (since m1.trace.length (m2.trace.zip ann))
    (l' = l ∧ arg' = arg ∧ ho' = ho ∧ below = .wait kk :: rest) ∧
    (SList.ids (absL m1 l)).Nodup ∧ (∀ e ∈ absL m1 l, e.id < m1.nextId) ∧
    List.Sublist (calls.filter (fun x => decide (x < m1.nextId))) (SList.ids (absL m1 l)) ∧
    (∀ e ∈ absL m1 l, (absL m2 l).present e.id = true → e.id ∈ calls) := by
  intro m1 m2 ann calls
  obtain ⟨hg, ht⟩ := C19_called_is_trace_runN beh i h0 hst0
  have e1 : (trunN beh i m0 [] [] (List.replicate m0.trace.length 0)).1 = m1 := trunN_fst beh i m0 _ _ _
  have e4 : (trunN beh i m0 [] [] (List.replicate m0.trace.length 0)).2.2.2 =
      arunN beh i m0 (List.replicate m0.trace.length 0) := trunN_ann beh i m0 _ _ _
  rw [e1] at hg ht
  rw [e4] at ht
  have hrun : ∀ s, (MCfg.runN beh (i + s) m0).1 = (MCfg.runN beh s m1).1 := by
    intro s; rw [MCfg.runN_add]
  have hann : ann = arunN beh (j + 1) m1 (arunN beh i m0 (List.replicate m0.trace.length 0)) :=
    arunN_add beh i (j + 1) m0 _
  have := C19_trace_once_from beh hg ht hst1 j
    (by intro t h1 h2; rw [← hrun]; exact hp (i + t) (by omega) (by omega))
    (by rw [← hrun]; exact hst2) hlen (by rw [← hrun]; exact hend)
  rw [← hrun, ← hann] at this
  exact this

/-! ### non-vacuity: modulus 4 -/

def c19Beh : Beh := fun _ _ => .ret true

/-- a world whose list 0 has a 2-bit generation counter -/
def c19Init (p : Prog) : MCfg := { lists := upd {} 0 { M := 4 }, stack := [.prog p] }

theorem c19Init_inv (p : Prog) : MInv (c19Init p) := by
  intro l
  show ∃ SL, Rep ((upd ({} : Store CL) 0 { M := 4 }) l) SL 0
  rw [upd_get]
  split
  · exact ⟨[], rep_fresh 0 4 0 (by decide) (by decide)⟩
  · have : (({} : Store CL) l) = ({} : CL) := Store.empty_get l
    rw [this]
    exact ⟨[], Rep.empty 0⟩

/-- five appends (the fourth one wraps), an invocation, a remove through an old handle (twice),
    another invocation -/
def c19Prog : Prog :=
  .op (.append 0 10) fun _ => .op (.append 0 11) fun _ => .op (.append 0 12) fun _ =>
  .op (.append 0 13) fun _ => .op (.append 0 14) fun _ =>
  .op (.invoke 0 7) fun _ => .op (.remove 0 1) fun _ => .op (.remove 0 1) fun _ =>
  .op (.invoke 0 8) fun _ => .ret true

/-- the counter wrapped once (during the fourth append); the invocation after the wrap calls all
    five callbacks in order; `remove` of the old handle 1 works exactly once; the next invocation
    calls the remaining four. -/
example :
    let m := (MCfg.runN c19Beh 40 (c19Init c19Prog)).1
    (MCfg.runN c19Beh 3 (c19Init c19Prog)).1.wraps = 0 ∧
    (MCfg.runN c19Beh 4 (c19Init c19Prog)).1.wraps = 1 ∧ m.wraps = 1 ∧
    m.trace.reverse =
      [.res (.handle 0), .res (.handle 1), .res (.handle 2), .res (.handle 3), .res (.handle 4),
       .call ⟨0, 0, 10, 7, false⟩, .call ⟨0, 1, 11, 7, false⟩, .call ⟨0, 2, 12, 7, false⟩,
       .call ⟨0, 3, 13, 7, false⟩, .call ⟨0, 4, 14, 7, false⟩, .res .unit,
       .res (.bool true), .res (.bool false),
       .call ⟨0, 0, 10, 8, false⟩, .call ⟨0, 2, 12, 8, false⟩, .call ⟨0, 3, 13, 8, false⟩,
       .call ⟨0, 4, 14, 8, false⟩, .res .unit] ∧
    absList (m.lists 0) 10 = [⟨0, 10⟩, ⟨2, 12⟩, ⟨3, 13⟩, ⟨4, 14⟩] := by
  decide +kernel

/-- the hypotheses of `C19_after` / `C19_after_run` hold in the state right after the wrap (five
    appends done, a new program started), and the Spec state read off the pointers is the list of
    all five callbacks. -/
example :
    let m : MCfg := { (MCfg.runN c19Beh 5 (c19Init c19Prog)).1 with stack := [.prog (.op (.invoke 0 7) fun _ => .ret true)] }
    m.wraps = 1 ∧ Sim m (absCfg m (.op (.invoke 0 7) fun _ => .ret true)) ∧
    (absCfg m (.op (.invoke 0 7) fun _ => .ret true)).lists 0 = [⟨0, 10⟩, ⟨1, 11⟩, ⟨2, 12⟩, ⟨3, 13⟩, ⟨4, 14⟩] := by
  intro m
  have hm : MInv m := C19_inv c19Beh 5 (c19Init_inv c19Prog)
  exact ⟨by decide +kernel, (C19_after hm rfl).1, by decide +kernel⟩

/-- the first callback, on its first call, appends three callbacks; the third append wraps -/
def c19Beh2 : Beh := fun c nth =>
  if c.cb = 10 ∧ nth = 0 then
    .op (.append 0 11) fun _ => .op (.append 0 12) fun _ => .op (.append 0 13) fun _ => .ret true
  else .ret true

def c19Prog2 : Prog :=
  .op (.append 0 10) fun _ => .op (.invoke 0 7) fun _ => .op (.invoke 0 8) fun _ => .ret true

/-- **the permitted extra calls.**  The invocation with argument 7 is in progress when the counter
    wraps (`wraps = 1`); it then calls the callbacks 11, 12, 13 that were added during it (the Spec
    invocation does not: its trace has no such calls).  The following invocation (argument 8)
    calls all four, each once, in order, as the Spec says. -/
example :
    let m := (MCfg.runN c19Beh2 40 (c19Init c19Prog2)).1
    let s := (SCfg.runN c19Beh2 40 { stack := [.prog c19Prog2] }).1
    m.wraps = 1 ∧
    m.trace.reverse =
      [.res (.handle 0),
       .call ⟨0, 0, 10, 7, false⟩, .res (.handle 1), .res (.handle 2), .res (.handle 3),
       .call ⟨0, 1, 11, 7, false⟩, .call ⟨0, 2, 12, 7, false⟩, .call ⟨0, 3, 13, 7, false⟩, .res .unit,
       .call ⟨0, 0, 10, 8, false⟩, .call ⟨0, 1, 11, 8, false⟩, .call ⟨0, 2, 12, 8, false⟩,
       .call ⟨0, 3, 13, 8, false⟩, .res .unit] ∧
    s.trace.reverse =
      [.res (.handle 0),
       .call ⟨0, 0, 10, 7, false⟩, .res (.handle 1), .res (.handle 2), .res (.handle 3), .res .unit,
       .call ⟨0, 0, 10, 8, false⟩, .call ⟨0, 1, 11, 8, false⟩, .call ⟨0, 2, 12, 8, false⟩,
       .call ⟨0, 3, 13, 8, false⟩, .res .unit] := by
  decide +kernel

/-- `MInvD` holds in that run while the invocation is in progress *after* the wrap (5 steps:
    append, invoke, three appends — the third wraps): the hypotheses of `C19_during_walk` are
    satisfiable in a state with `wraps = 1` and a traversal frame on the stack. -/
example :
    let m := (MCfg.runN c19Beh2 5 (c19Init c19Prog2)).1
    MInvD m ∧ m.wraps = 1 ∧ m.stack.length = 3 := by
  intro m
  exact ⟨C19_during c19Beh2 5 (C19_during_init (c19Init_inv c19Prog2) rfl), by decide +kernel, by decide +kernel⟩

/-- the first callback, on its first call, appends three callbacks — the first of these appends
    wraps the counter — and removes the callback with handle 2 -/
def c19Beh3 : Beh := fun c nth =>
  if c.cb = 10 ∧ nth = 0 then
    .op (.append 0 11) fun _ => .op (.append 0 13) fun _ => .op (.append 0 14) fun _ =>
    .op (.remove 0 2) fun _ => .ret true
  else .ret true

def c19Prog3 : Prog :=
  .op (.append 0 10) fun _ => .op (.append 0 12) fun _ => .op (.append 0 15) fun _ =>
  .op (.invoke 0 7) fun _ => .ret true

/-- **a wrap during an invocation, with the ghost stack.**  The invocation starts with snapshot
    `[0:10, 1:12, 2:15]` (`born = 3`) and calls handle 0; that callback wraps the counter
    (`wraps = 1` after 9 steps), adds handles 3, 4, 5 and removes handle 2.  After the wrap the
    invocation still calls the snapshot survivor (handle 1), skips the removed handle 2, and then
    makes the permitted extra calls 3, 4, 5.  `GInv` — the hypothesis of `C19_during_once`,
    `C19_during_once_end` — holds in these states. -/
example :
    let snap : List Entry := [⟨0, 10⟩, ⟨1, 12⟩, ⟨2, 15⟩]
    let r4 := grunN c19Beh3 4 (c19Init c19Prog3) []
    let r9 := grunN c19Beh3 9 (c19Init c19Prog3) []
    let r12 := grunN c19Beh3 12 (c19Init c19Prog3) []
    let r40 := grunN c19Beh3 40 (c19Init c19Prog3) []
    (r4.1.wraps = 0 ∧ r4.2 = [⟨3, snap, [⟨1, 12⟩, ⟨2, 15⟩], [0]⟩]) ∧
    (r9.1.wraps = 1 ∧ r9.2 = [⟨3, snap, [⟨2, 15⟩], [0, 1]⟩]) ∧
    (r12.1.wraps = 1 ∧ r12.2 = [⟨3, snap, [⟨2, 15⟩], [0, 1, 3, 4, 5]⟩] ∧
      absL r12.1 0 = [⟨0, 10⟩, ⟨1, 12⟩, ⟨3, 11⟩, ⟨4, 13⟩, ⟨5, 14⟩]) ∧
    (r40.2 = [] ∧ r40.1.trace.reverse =
      [.res (.handle 0), .res (.handle 1), .res (.handle 2),
       .call ⟨0, 0, 10, 7, false⟩, .res (.handle 3), .res (.handle 4), .res (.handle 5), .res (.bool true),
       .call ⟨0, 1, 12, 7, false⟩, .call ⟨0, 3, 11, 7, false⟩, .call ⟨0, 4, 13, 7, false⟩,
       .call ⟨0, 5, 14, 7, false⟩, .res .unit]) ∧
    GInv r9.1 r9.2 ∧ GInv r12.1 r12.2 := by
  intro snap r4 r9 r12 r40
  have h0 : GInv (c19Init c19Prog3) [] := C19_during_once_init (c19Init_inv c19Prog3) rfl
  exact ⟨by decide +kernel, by decide +kernel, by decide +kernel, by decide +kernel,
    C19_during_once_inv c19Beh3 9 h0, C19_during_once_inv c19Beh3 12 h0⟩

/-! ### `called` is the trace: concrete runs -/

/-- **the tie on the wrap-during-invocation run** (`c19Beh3` / `c19Prog3` above, 12 steps).  The
    traversal started when the trace had 3 events (mark 3) and has 1 frame under it (the suspended
    main program), so its emitter is 1.  The annotation (newest first) marks the five `.call`
    events with 1 (the `.res` events of the callback's four commands carry 0); the `.call` events
    emitted by the traversal since its mark are `[0, 1, 3, 4, 5]` — the ghost field `called`.  `TInv`
    holds there, and the annotation is the one computed without ghost records. -/
example :
    let r12 := trunN c19Beh3 12 (c19Init c19Prog3) [] [] []
    (r12.2.2.1 = [3] ∧ r12.2.2.2 = [1, 1, 1, 1, 0, 0, 0, 0, 1, 0, 0, 0] ∧
      r12.2.2.2 = arunN c19Beh3 12 (c19Init c19Prog3) [] ∧
      emittedBy 1 (since 3 (r12.1.trace.zip r12.2.2.2)) = [0, 1, 3, 4, 5] ∧
      r12.2.1.map (·.called) = [emittedBy 1 (since 3 (r12.1.trace.zip r12.2.2.2))]) ∧
    TInv r12.1 r12.2.1 r12.2.2.1 r12.2.2.2 :=
  have h0 : TInv (c19Init c19Prog3) [] [] [] := C19_called_is_trace_init (m := c19Init c19Prog3) rfl
  ⟨by decide +kernel, C19_called_is_trace_inv c19Beh3 12 h0⟩

/-- the first callback, on its first call, invokes the list again -/
def c19Beh4 : Beh := fun c nth =>
  if c.cb = 10 ∧ nth = 0 then .op (.invoke 0 9) fun _ => .ret true else .ret true

def c19Prog4 : Prog :=
  .op (.append 0 10) fun _ => .op (.append 0 12) fun _ => .op (.invoke 0 7) fun _ => .ret true

/-- **the tie with a nested invocation.**  The outer invocation (argument 7, mark 2, emitter 1) calls
    handle 0, whose callback starts an inner invocation of the same list (argument 9, mark 3,
    emitter 3: under it are the suspended callback, the outer traversal and the suspended main
    program).  After 5 steps both run: the inner one has called `[0, 1]`, the outer one `[0]` — although
    all three `.call` events lie after the outer mark, the annotation attributes only the first to
    the outer traversal.  At the end the outer traversal has emitted the calls `[0, 1]` (events 3
    and 7 of the trace), the inner one `[0, 1]` (events 4 and 5). -/
example :
    let r5 := trunN c19Beh4 5 (c19Init c19Prog4) [] [] []
    let r40 := trunN c19Beh4 40 (c19Init c19Prog4) [] [] []
    (r5.2.1.map (·.called) = [[0, 1], [0]] ∧ r5.2.2.1 = [3, 2] ∧ r5.2.2.2 = [3, 3, 1, 0, 0] ∧
      emittedBy 3 (since 3 (r5.1.trace.zip r5.2.2.2)) = [0, 1] ∧
      emittedBy 1 (since 2 (r5.1.trace.zip r5.2.2.2)) = [0]) ∧
    (r40.1.trace.reverse =
      [.res (.handle 0), .res (.handle 1), .call ⟨0, 0, 10, 7, false⟩,
       .call ⟨0, 0, 10, 9, false⟩, .call ⟨0, 1, 12, 9, false⟩, .res .unit,
       .call ⟨0, 1, 12, 7, false⟩, .res .unit] ∧
      r40.2.2.2.reverse = [0, 0, 1, 3, 3, 3, 1, 1] ∧
      emittedBy 1 (since 2 (r40.1.trace.zip r40.2.2.2)) = [0, 1] ∧
      emittedBy 3 (since 3 (r40.1.trace.zip r40.2.2.2)) = [0, 1]) ∧
    GInv r5.1 r5.2.1 ∧ TInv r5.1 r5.2.1 r5.2.2.1 r5.2.2.2 :=
  have h0 : TInv (c19Init c19Prog4) [] [] [] := C19_called_is_trace_init (m := c19Init c19Prog4) rfl
  have g0 : GInv (c19Init c19Prog4) [] := C19_during_once_init (c19Init_inv c19Prog4) rfl
  have g5 : GInv (trunN c19Beh4 5 (c19Init c19Prog4) [] [] []).1 (trunN c19Beh4 5 (c19Init c19Prog4) [] [] []).2.1 := by
    have := C19_during_once_inv c19Beh4 5 g0
    rw [← (C19_called_is_trace_erase c19Beh4 5 (c19Init c19Prog4) [] [] []).1] at this
    exact this
  ⟨by decide +kernel, by decide +kernel, g5, C19_called_is_trace_inv c19Beh4 5 h0⟩

/-- decidable shape test: the program on top is about to `invoke l arg`, with `d` frames under it -/
def topInvokeIs (l arg d : Nat) : List MFrame → Bool
  | .prog (.op (.invoke l' arg') _) :: rest => l' == l && arg' == arg && rest.length == d
  | _ => false

theorem topInvokeIs_sound {st : List MFrame} {l arg d : Nat} (h : topInvokeIs l arg d st = true) :
    ∃ kk rest, st = .prog (.op (.invoke l arg) kk) :: rest ∧ rest.length = d := by
  unfold topInvokeIs at h
  split at h
  · simp only [Bool.and_eq_true, beq_iff_eq] at h
    obtain ⟨⟨rfl, rfl⟩, h⟩ := h
    exact ⟨_, _, rfl, h⟩
  · cases h

/-- decidable shape test: the top callback returns `v` into the traversal `iter l n cap arg ho`, which
    has `d` frames under it -/
def topRetIterIs (v : Bool) (l n cap arg : Nat) (ho : Bool) (d : Nat) : List MFrame → Bool
  | .prog (.ret v') :: .iter l' n' cap' arg' ho' :: below =>
    v' == v && l' == l && n' == n && cap' == cap && arg' == arg && ho' == ho && below.length == d
  | _ => false

theorem topRetIterIs_sound {st : List MFrame} {v : Bool} {l n cap arg : Nat} {ho : Bool} {d : Nat}
    (h : topRetIterIs v l n cap arg ho d st = true) :
    ∃ below, st = .prog (.ret v) :: .iter l n cap arg ho :: below ∧ below.length = d := by
  unfold topRetIterIs at h
  split at h
  · simp only [Bool.and_eq_true, beq_iff_eq] at h
    obtain ⟨⟨⟨⟨⟨⟨rfl, rfl⟩, rfl⟩, rfl⟩, rfl⟩, rfl⟩, h⟩ := h
    exact ⟨_, rfl, h⟩
  · cases h

/-- **`C19_trace_once` on the wrap-during-invocation run** (non-vacuity of its hypotheses, and its
    conclusion there).  `m1` (3 steps) is about to `invoke` list 0 with content `[0, 1, 2]`,
    `nextId = 3`; the traversal runs through the steps 4 … 12, the counter wraps meanwhile; in
    `m2` (12 steps) its skip loop finds nothing more.  The `.call` events it appended to the trace
    are `[0, 1, 3, 4, 5]`; those `< 3` are `[0, 1]`, a sublist of `[0, 1, 2]`; every callback of
    `[0, 1, 2]` that is in the list at the end (0 and 1; 2 was removed) was called. -/
example :
    let m1 := (MCfg.runN c19Beh3 3 (c19Init c19Prog3)).1
    let m2 := (MCfg.runN c19Beh3 12 (c19Init c19Prog3)).1
    let calls := emittedBy 1 (since m1.trace.length (m2.trace.zip (arunN c19Beh3 12 (c19Init c19Prog3) [])))
    (calls = [0, 1, 3, 4, 5] ∧ m1.nextId = 3 ∧ absL m1 0 = [⟨0, 10⟩, ⟨1, 12⟩, ⟨2, 15⟩] ∧ m2.wraps = 1 ∧
      absL m2 0 = [⟨0, 10⟩, ⟨1, 12⟩, ⟨3, 11⟩, ⟨4, 13⟩, ⟨5, 14⟩]) ∧
    List.Sublist (calls.filter (fun x => decide (x < m1.nextId))) (SList.ids (absL m1 0)) ∧
    (∀ e ∈ absL m1 0, (absL m2 0).present e.id = true → e.id ∈ calls) := by
  intro m1 m2 calls
  obtain ⟨kk, rest, h1, hr⟩ := topInvokeIs_sound
    (show topInvokeIs 0 7 0 (MCfg.runN c19Beh3 3 (c19Init c19Prog3)).1.stack = true by decide +kernel)
  obtain ⟨below, h2, hb⟩ := topRetIterIs_sound
    (show topRetIterIs true 0 5 3 7 false 1 (MCfg.runN c19Beh3 12 (c19Init c19Prog3)).1.stack = true by
      decide +kernel)
  have key : ∀ t, t < 13 → 3 < t → 3 ≤ (MCfg.runN c19Beh3 t (c19Init c19Prog3)).1.stack.length := by
    decide +kernel
  have hend : seek ((MCfg.runN c19Beh3 12 (c19Init c19Prog3)).1.lists 0).heap 3
      ((MCfg.runN c19Beh3 12 (c19Init c19Prog3)).1.nextId + 1)
      (((MCfg.runN c19Beh3 12 (c19Init c19Prog3)).1.lists 0).heap 5).next = none := by decide +kernel
  have e12 : 12 = 3 + (8 + 1) := rfl
  rw [e12] at h2 hend
  have h := C19_trace_once c19Beh3 (c19Init_inv c19Prog3) rfl 3 8 (Or.inl ⟨rfl, h1⟩)
    (fun t h1 h2 => by rw [hr]; exact key t (by omega) h1) h2 (by rw [hb, hr]) hend
  rw [hr, ← e12] at h
  exact ⟨by decide +kernel, h.2.2.2.1, h.2.2.2.2⟩

end Evp
