import EventppVerif.Util.EvalOrder
import EventppVerif.Generated.CtorFrag
/-
  Property C20 — behaviour is independent of policies, compiler, standard level, prior memory
  (partial: "any conforming compiler" is not a Lean statement; the theorems remove the two known
  sources of configuration dependence — unspecified evaluation order and uninitialised members — and
  the configuration matrix of the correspondence run samples the rest: every configuration is
  compared with the ONE model trace, hence with every other configuration).
-/
namespace Evp.EvalOrder
open Evp.Gen.Dispatch Evp.Gen.Ctor

/-- **No result depends on unspecified evaluation order.**  For every call expression that reads
    the event and forwards the same argument (their shape is regenerated from the source), for both
    evaluation orders of sibling arguments and every argument value: the dispatch is routed to the
    caller's key and the listeners receive the caller's value, intact. -/
theorem C20_order (v : Nat) :
    ∀ seq ∈ [dispatch0, dispatch1, enqueueBraced, heterEnqueue], ∀ order ∈ orders,
      callResult seq order ⟨v, true⟩ = (some v, some ⟨v, true⟩) := by
  intro seq hs order ho
  have hseq : seq = true := by
    simp [dispatch0, dispatch1, enqueueBraced, heterEnqueue] at hs
    exact hs
  subst hseq
  simp [callResult, evalAll, evalInit]

/-- what goes wrong when the read is a sibling argument of the forwarding (the code before the
    repair, evaluated right to left as g++ does): the dispatch is routed to the moved-from key -/
theorem C20_order_counterexample :
    callResult false [.forwardArg, .readEvent] ⟨7, true⟩ = (some movedFromKey, some ⟨7, true⟩) ∧
    callResult false [.readEvent, .forwardArg] ⟨7, true⟩ = (some 7, some ⟨7, true⟩) := by decide

/-- **No result depends on what the object's memory held before construction**: every scalar member
    is initialised by every constructor (table regenerated from the source). -/
theorem C20_init : ∀ e ∈ table, e.scalar = true → e.initialised = true := by decide

/-- the table has the row of `SpinLock`'s flag (which has no constructor to name it): it carries a
    default member initialiser, so a SpinLock member that a holder's constructor does not name (e.g.
    `ScopedRemover::itemListMutex`) does not start with the previous content of memory — before
    C++20 a default-constructed `std::atomic_flag` is indeterminate -/
theorem C20_spinlock_flag : ∃ e ∈ table, e.cls = "SpinLock" ∧ e.scalar = true ∧ e.initialised = true := by decide

/-- all the call sites are of the sequenced shape (bridge to the source) -/
theorem C20_bridge_sequenced : allSequenced = true := by decide

end Evp.EvalOrder
