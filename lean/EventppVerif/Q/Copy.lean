import EventppVerif.Q.Machine
/-
  Copy / move construction of a queue or dispatcher (eventqueue.h:135-155, eventdispatcher.h:101-131):
  the listener map (and the filter list of `MixinFilter`) is copied — new nodes, same callbacks, same
  order — or moved; the queue lists are deliberately NOT copied or moved; every other member
  (the two counters, mutexes, condition variable) must be initialised as in a fresh object.
-/
namespace Evp.Q
open Evp

/-- clone the listener lists of events `0 … n-1` one after the other, drawing fresh handle ids -/
def cloneLists (lists : Store SList) : Nat → Nat → Store SList × Nat
  | 0, id => (lists, id)
  | k + 1, id =>
    let (ls, id') := cloneLists lists k id
    (upd ls k ((lists k).cloneWith id'), id' + (lists k).length)

/-- the queue obtained by copy construction (world with `nkeys` events) -/
def QCfg.copyOf (c : QCfg) : QCfg :=
  let (ls, id) := cloneLists c.lists c.nkeys c.nextId
  { c with lists := ls, filters := c.filters.cloneWith id, nextId := id + c.filters.length,
           queue := [], free := [], ec := 0, stack := [] }

/-- the queue obtained by move construction: the listeners travel, the pending events do not -/
def QCfg.moveOf (c : QCfg) : QCfg := { c with queue := [], free := [], ec := 0, stack := [] }

end Evp.Q
