import EventppVerif.Q.InvCor
/-
  A small concrete run used by the non-vacuity examples of the property files.
-/
namespace Evp.Q.Demo
open Evp Evp.Q

def seqProg : List QCmd → QProg
  | [] => .ret true
  | c :: r => .op c (fun _ => seqProg r)

/-- listener 1 enqueues event (0, 99) the first time it is called; predicate 7 declines the
    event with argument 11 -/
def beh : QBeh where
  run call nth :=
    match call.kind with
    | .listener => if call.cb = 1 ∧ nth = 0 then seqProg [.enqueue 0 99] else .ret true
    | .filter => .ret true
    | .pred => .ret (call.arg != 11)
  rewrite _ a := a

def main : QProg :=
  seqProg [.listen 0 1, .enqueue 0 10, .enqueue 0 11, .enqueue 0 12, .processIf 7, .process, .emptyq]

def c0 : QCfg := { stack := [.prog main] }

theorem c0_init : Init c0 := ⟨rfl, rfl, rfl, rfl, rfl, rfl, main, rfl⟩

def at_ (n : Nat) : QCfg := (QCfg.runN beh n c0).1

theorem at_reachable (n : Nat) : Reachable beh (at_ n) := (Reachable.init c0_init).runN n

end Evp.Q.Demo
