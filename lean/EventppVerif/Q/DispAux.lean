import EventppVerif.Q.Reach
/-
  Dispatch (C04 / C12): the functional specification `dispatchCalls` of one dispatch, the run of the
  machine through the filter and listener phases for behaviours whose filters and listeners return
  immediately, and one-step facts about `nextFilter` / `nextListener` / `apply` for arbitrary
  behaviours.
-/
namespace Evp.Q
open Evp QCfg

/-! ### functional specification of one dispatch -/

/-- the listeners that get to run under the `CanContinueInvoking` policy `cont` when the argument is
    `arg`: the policy is asked after each listener has returned, and its verdict depends on the
    argument only, which is the same for every listener of one dispatch — so either all of them run
    (`cont arg = true`) or only the first one does (`cont arg = false`; the first always runs). -/
def policyCut (cont : Nat → Bool) (arg : Nat) (L : SList) : SList :=
  if cont arg then L else L.take 1

/-- the listener calls of a dispatch of `key` with (final) argument `arg` under policy `cont` -/
def listenerCalls (cont : Nat → Bool) (key arg : Nat) (L : SList) : List QCall :=
  (policyCut cont arg L).map fun e => ⟨.listener, key, e.id, e.cb, arg⟩

/-- filter calls over the remaining filters `fs` with running argument `a`; then the listeners -/
def callsFrom (verdict : Cb → Nat → Bool) (rw : Cb → Nat → Nat) (cont : Nat → Bool) (key : Nat)
    (listeners : SList) : List Entry → Nat → List QCall
  | [], a => listenerCalls cont key a listeners
  | f :: fs, a =>
    ⟨.filter, key, f.id, f.cb, a⟩ ::
      (if verdict f.cb a then callsFrom verdict rw cont key listeners fs (rw f.cb a) else [])

/-- **Specification of a dispatch with MixinFilter and a `CanContinueInvoking` policy.**  The filters
    are called in list order with the running argument (`a₀ = arg`, `aᵢ₊₁ = rw fᵢ aᵢ`); the first
    filter whose verdict is `false` ends the dispatch; if none does, the listeners are called in list
    order, each with the final argument `a` — all of them if `cont a`, only the first one if not
    (`policyCut`). -/
def dispatchCalls (filters listeners : SList) (verdict : Cb → Nat → Bool) (rw : Cb → Nat → Nat)
    (cont : Nat → Bool) (key arg : Nat) : List QCall :=
  callsFrom verdict rw cont key listeners filters arg

@[simp] theorem policyCut_true {cont : Nat → Bool} {arg : Nat} (h : cont arg = true) (L : SList) :
    policyCut cont arg L = L := by simp [policyCut, h]

@[simp] theorem policyCut_false {cont : Nat → Bool} {arg : Nat} (h : cont arg = false) (L : SList) :
    policyCut cont arg L = L.take 1 := by simp [policyCut, h]

@[simp] theorem policyCut_default (arg : Nat) (L : SList) : policyCut (fun _ => true) arg L = L := rfl

/-- filters and listeners return immediately: a filter's verdict is a function of callback and
    argument, a listener's return value is arbitrary (it is ignored) -/
structure Flat (b : QBeh) (verdict : Cb → Nat → Bool) : Prop where
  filt : ∀ call nth, call.kind = .filter → b.run call nth = .ret (verdict call.cb call.arg)
  lis : ∀ call nth, call.kind = .listener → ∃ v, b.run call nth = .ret v

theorem present_of_mem {L : SList} {e : Entry} (h : e ∈ L) : L.present e.id = true := by
  unfold SList.present
  rw [List.any_eq_true]
  exact ⟨e, h, by simp⟩

theorem mem_of_present {L : SList} {h : Hd} (hp : L.present h = true) : ∃ e ∈ L, e.id = h := by
  unfold SList.present at hp
  rw [List.any_eq_true] at hp
  obtain ⟨e, he, hid⟩ := hp
  exact ⟨e, he, by simpa using hid⟩

/-! ### per-shape unfoldings of `step` -/

theorem step_iter_ret {b : QBeh} {c : QCfg} {v key arg rest below}
    (h : c.stack = .prog (.ret v) :: .iter key arg rest :: below) (hc : b.cont arg = true) :
    step b c = some (nextListener b c key arg rest below) := by
  unfold step; rw [h]; simp [hc]

theorem step_iter_stop {b : QBeh} {c : QCfg} {v key arg rest below}
    (h : c.stack = .prog (.ret v) :: .iter key arg rest :: below) (hc : b.cont arg = false) :
    step b c = some { c with stack := .done :: below } := by
  unfold step; rw [h]; simp [hc]

theorem step_filt_true {b : QBeh} {c : QCfg} {key arg rest cur below}
    (h : c.stack = .prog (.ret true) :: .filt key arg rest cur :: below) :
    step b c = some (nextFilter b c key (b.rewrite cur arg) rest below) := by
  unfold step; rw [h]; rfl

theorem step_filt_false {b : QBeh} {c : QCfg} {key arg rest cur below}
    (h : c.stack = .prog (.ret false) :: .filt key arg rest cur :: below) :
    step b c = some { c with stack := .done :: below } := by
  unfold step; rw [h]; rfl

theorem step_dispatch {b : QBeh} {c : QCfg} {key arg k rest}
    (h : c.stack = .prog (.op (.dispatch key arg) k) :: rest) :
    step b c = some (nextFilter b c key arg c.filters (.wait k :: rest)) := by
  unfold step; rw [h]

theorem step_done {b : QBeh} {c : QCfg} {below} (h : c.stack = .done :: below) :
    step b c = some (endDispatch b c below) := by
  unfold step; rw [h]

/-! ### `nextListener` / `nextFilter` on a present head entry -/

theorem nextListener_nil (b : QBeh) (c : QCfg) (key arg : Nat) (below : List QFrame) :
    nextListener b c key arg [] below = { c with stack := .done :: below } := by
  simp [nextListener]

theorem nextListener_cons_present (b : QBeh) (c : QCfg) (key arg : Nat) (e : Entry) (es : List Entry)
    (below : List QFrame) (hp : (c.lists key).present e.id = true) :
    nextListener b c key arg (e :: es) below =
      { c with trace := .call ⟨.listener, key, e.id, e.cb, arg⟩ :: c.trace
               stack := .prog (callProg b c ⟨.listener, key, e.id, e.cb, arg⟩) :: .iter key arg es :: below } := by
  simp [nextListener, List.dropWhile, hp]

theorem nextListener_cons_absent (b : QBeh) (c : QCfg) (key arg : Nat) (e : Entry) (es : List Entry)
    (below : List QFrame) (hp : (c.lists key).present e.id = false) :
    nextListener b c key arg (e :: es) below = nextListener b c key arg es below := by
  simp [nextListener, List.dropWhile, hp]

theorem nextFilter_nil (b : QBeh) (c : QCfg) (key arg : Nat) (below : List QFrame) :
    nextFilter b c key arg [] below = nextListener b c key arg (c.lists key) below := by
  simp [nextFilter]

theorem nextFilter_cons_present (b : QBeh) (c : QCfg) (key arg : Nat) (e : Entry) (es : List Entry)
    (below : List QFrame) (hp : c.filters.present e.id = true) :
    nextFilter b c key arg (e :: es) below =
      { c with trace := .call ⟨.filter, key, e.id, e.cb, arg⟩ :: c.trace
               stack := .prog (callProg b c ⟨.filter, key, e.id, e.cb, arg⟩) :: .filt key arg es e.cb :: below } := by
  simp [nextFilter, List.dropWhile, hp]

/-- a filter that has been removed is skipped -/
theorem nextFilter_cons_absent (b : QBeh) (c : QCfg) (key arg : Nat) (e : Entry) (es : List Entry)
    (below : List QFrame) (hp : c.filters.present e.id = false) :
    nextFilter b c key arg (e :: es) below = nextFilter b c key arg es below := by
  simp [nextFilter, List.dropWhile, hp]

/-! ### the run of a flat dispatch -/

/-- the policy lets the dispatch continue: every (present) entry of the snapshot is called -/
theorem run_listeners_all {b : QBeh} {verdict} (hb : Flat b verdict) (key arg : Nat)
    (hc : b.cont arg = true) (below : List QFrame) :
    ∀ (snap : List Entry) (c : QCfg), (∀ e ∈ snap, (c.lists key).present e.id = true) →
      Steps b (nextListener b c key arg snap below)
        { c with stack := .done :: below
                 trace := (snap.map fun e => QEv.call ⟨.listener, key, e.id, e.cb, arg⟩).reverse
                            ++ c.trace }
  | [], c, _ => by
    rw [nextListener_nil]
    exact Steps.refl _ _
  | e :: es, c, hp => by
    rw [nextListener_cons_present b c key arg e es below (hp e List.mem_cons_self)]
    obtain ⟨v, hv⟩ := hb.lis ⟨.listener, key, e.id, e.cb, arg⟩
      (countCalls c.trace e.cb) rfl
    have hcp : callProg b c ⟨.listener, key, e.id, e.cb, arg⟩ = .ret v := hv
    rw [hcp]
    refine Steps.head (step_iter_ret rfl hc) ?_
    have ih := run_listeners_all hb key arg hc below es
      { c with trace := .call ⟨.listener, key, e.id, e.cb, arg⟩ :: c.trace
               stack := .prog (.ret v) :: .iter key arg es :: below }
      (fun e' he' => hp e' (List.mem_cons_of_mem _ he'))
    simpa using ih

theorem run_listeners {b : QBeh} {verdict} (hb : Flat b verdict) (key arg : Nat)
    (below : List QFrame) (snap : List Entry) (c : QCfg)
    (hp : ∀ e ∈ snap, (c.lists key).present e.id = true) :
    Steps b (nextListener b c key arg snap below)
      { c with stack := .done :: below
               trace := ((listenerCalls b.cont key arg snap).map QEv.call).reverse ++ c.trace } := by
  cases hc : b.cont arg with
  | true =>
    have := run_listeners_all hb key arg hc below snap c hp
    simpa [listenerCalls, hc, List.map_map, Function.comp_def] using this
  | false =>
    cases snap with
    | nil =>
      rw [nextListener_nil]
      simp [listenerCalls, policyCut]
      exact Steps.refl _ _
    | cons e es =>
      rw [nextListener_cons_present b c key arg e es below (hp e List.mem_cons_self)]
      obtain ⟨v, hv⟩ := hb.lis ⟨.listener, key, e.id, e.cb, arg⟩
        (countCalls c.trace e.cb) rfl
      have hcp : callProg b c ⟨.listener, key, e.id, e.cb, arg⟩ = .ret v := hv
      rw [hcp]
      refine Steps.head (step_iter_stop rfl hc) ?_
      simp [listenerCalls, hc]
      exact Steps.refl _ _

theorem run_filters {b : QBeh} {verdict} (hb : Flat b verdict) (key : Nat) (below : List QFrame) :
    ∀ (snap : List Entry) (arg : Nat) (c : QCfg), (∀ e ∈ snap, c.filters.present e.id = true) →
      Steps b (nextFilter b c key arg snap below)
        { c with stack := .done :: below
                 trace := ((callsFrom verdict b.rewrite b.cont key (c.lists key) snap arg).map QEv.call).reverse
                            ++ c.trace }
  | [], arg, c, _ => by
    rw [nextFilter_nil]
    exact run_listeners hb key arg below (c.lists key) c (fun e he => present_of_mem he)
  | e :: es, arg, c, hp => by
    rw [nextFilter_cons_present b c key arg e es below (hp e List.mem_cons_self)]
    have hcp : callProg b c ⟨.filter, key, e.id, e.cb, arg⟩ = .ret (verdict e.cb arg) :=
      hb.filt ⟨.filter, key, e.id, e.cb, arg⟩ _ rfl
    rw [hcp]
    cases hv : verdict e.cb arg with
    | false =>
      refine Steps.head (step_filt_false rfl) ?_
      simp [callsFrom, hv]
      exact Steps.refl _ _
    | true =>
      refine Steps.head (step_filt_true rfl) ?_
      have ih := run_filters hb key below es (b.rewrite e.cb arg)
        { c with trace := .call ⟨.filter, key, e.id, e.cb, arg⟩ :: c.trace
                 stack := .prog (.ret true) :: .filt key arg es e.cb :: below }
        (fun e' he' => hp e' (List.mem_cons_of_mem _ he'))
      simpa [callsFrom, hv] using ih

/-- **flat dispatch.** -/
theorem dispatch_flat {b : QBeh} {verdict} (hb : Flat b verdict) (c : QCfg) (key arg : Nat)
    (k : QRes → QProg) (rest : List QFrame)
    (hst : c.stack = .prog (.op (.dispatch key arg) k) :: rest) :
    Steps b c
      { c with stack := .prog (k .unit) :: rest
               trace := .res .unit ::
                 ((dispatchCalls c.filters (c.lists key) verdict b.rewrite b.cont key arg).map QEv.call).reverse
                   ++ c.trace } := by
  refine Steps.head (step_dispatch hst) ?_
  refine (run_filters hb key (.wait k :: rest) c.filters arg c (fun e he => present_of_mem he)).trans ?_
  refine Steps.head (step_done rfl) ?_
  simp [endDispatch, deliver, dispatchCalls]
  exact Steps.refl _ _

/-! ### one-step facts for arbitrary behaviours -/

/-- `nextListener` either ends the dispatch without a call, or records exactly one listener call:
    of an entry of the snapshot whose handle is still present in the event's current list. -/
theorem nextListener_trace (b : QBeh) (c : QCfg) (key arg : Nat) (below : List QFrame) :
    ∀ (snap : List Entry),
      (nextListener b c key arg snap below).trace = c.trace ∨
      ∃ e ∈ snap, (c.lists key).present e.id = true ∧
        (nextListener b c key arg snap below).trace = .call ⟨.listener, key, e.id, e.cb, arg⟩ :: c.trace
  | [] => by rw [nextListener_nil]; exact .inl rfl
  | e :: es => by
    cases hp : (c.lists key).present e.id with
    | true =>
      rw [nextListener_cons_present b c key arg e es below hp]
      exact .inr ⟨e, List.mem_cons_self, hp, rfl⟩
    | false =>
      rw [nextListener_cons_absent b c key arg e es below hp]
      rcases nextListener_trace b c key arg below es with h | ⟨e', he', hp', h⟩
      · exact .inl h
      · exact .inr ⟨e', List.mem_cons_of_mem _ he', hp', h⟩

/-- `nextFilter` records no call, or one call of a filter of the snapshot that is still present in
    the filter list, or (no filter left) one listener call as in `nextListener_trace`. -/
theorem nextFilter_trace (b : QBeh) (c : QCfg) (key arg : Nat) (below : List QFrame) :
    ∀ (snap : List Entry),
      (nextFilter b c key arg snap below).trace = c.trace ∨
      (∃ e ∈ snap, c.filters.present e.id = true ∧
        (nextFilter b c key arg snap below).trace = .call ⟨.filter, key, e.id, e.cb, arg⟩ :: c.trace) ∨
      (∃ e ∈ c.lists key, (c.lists key).present e.id = true ∧
        (nextFilter b c key arg snap below).trace = .call ⟨.listener, key, e.id, e.cb, arg⟩ :: c.trace)
  | [] => by
    rw [nextFilter_nil]
    rcases nextListener_trace b c key arg below (c.lists key) with h | h
    · exact .inl h
    · exact .inr (.inr h)
  | e :: es => by
    cases hp : c.filters.present e.id with
    | true =>
      rw [nextFilter_cons_present b c key arg e es below hp]
      exact .inr (.inl ⟨e, List.mem_cons_self, hp, rfl⟩)
    | false =>
      rw [nextFilter_cons_absent b c key arg e es below hp]
      rcases nextFilter_trace b c key arg below es with h | ⟨e', he', hp', h⟩ | h
      · exact .inl h
      · exact .inr (.inl ⟨e', List.mem_cons_of_mem _ he', hp', h⟩)
      · exact .inr (.inr h)

theorem cons_ne_self' {α} (a : α) (l : List α) : l ≠ a :: l := by
  intro h
  have := congrArg List.length h
  simp at this

/-- the frames `nextListener` pushes do not depend on what is below -/
theorem nextListener_below (b : QBeh) (c : QCfg) (key arg : Nat) (snap : List Entry) :
    ∃ fs tr, ∀ below, nextListener b c key arg snap below = { c with trace := tr, stack := fs ++ below } := by
  cases h : snap.dropWhile (fun e => !(c.lists key).present e.id) with
  | nil => exact ⟨[.done], c.trace, fun below => by simp [nextListener, h]⟩
  | cons e es =>
    exact ⟨[.prog (callProg b c ⟨.listener, key, e.id, e.cb, arg⟩), .iter key arg es], _,
      fun below => by simp [nextListener, h]; rfl⟩

/-- the frames `nextFilter` pushes do not depend on what is below -/
theorem nextFilter_below (b : QBeh) (c : QCfg) (key arg : Nat) (snap : List Entry) :
    ∃ fs tr, ∀ below, nextFilter b c key arg snap below = { c with trace := tr, stack := fs ++ below } := by
  cases h : snap.dropWhile (fun e => !c.filters.present e.id) with
  | nil =>
    obtain ⟨fs, tr, hl⟩ := nextListener_below b c key arg (c.lists key)
    exact ⟨fs, tr, fun below => by simp [nextFilter, h, hl]⟩
  | cons e es =>
    exact ⟨[.prog (callProg b c ⟨.filter, key, e.id, e.cb, arg⟩), .filt key arg es e.cb], _,
      fun below => by simp [nextFilter, h]; rfl⟩

/-! ### listener management commands (`apply`) -/

theorem apply_listen (c : QCfg) (key : Nat) (cb : Cb) :
    (c.apply (.listen key cb)).1.lists key = (c.lists key).append c.nextId cb ∧
    (∀ k, k ≠ key → (c.apply (.listen key cb)).1.lists k = c.lists k) ∧
    (c.apply (.listen key cb)).2 = .handle c.nextId := by
  refine ⟨by simp [apply], ?_, rfl⟩
  intro k hk; simp [apply, hk]

theorem apply_listenFront (c : QCfg) (key : Nat) (cb : Cb) :
    (c.apply (.listenFront key cb)).1.lists key = (c.lists key).prepend c.nextId cb ∧
    (∀ k, k ≠ key → (c.apply (.listenFront key cb)).1.lists k = c.lists k) ∧
    (c.apply (.listenFront key cb)).2 = .handle c.nextId := by
  refine ⟨by simp [apply], ?_, rfl⟩
  intro k hk; simp [apply, hk]

theorem apply_listenBefore (c : QCfg) (key : Nat) (cb : Cb) (h : Hd) (hf : c.foreign key h = false) :
    (c.apply (.listenBefore key cb h)).1.lists key = (c.lists key).insert c.nextId cb h ∧
    (∀ k, k ≠ key → (c.apply (.listenBefore key cb h)).1.lists k = c.lists k) ∧
    (c.apply (.listenBefore key cb h)).2 = .handle c.nextId := by
  refine ⟨by simp [apply, hf], ?_, by simp [apply, hf]⟩
  intro k hk; simp [apply, hf, hk]

theorem apply_unlisten (c : QCfg) (key : Nat) (h : Hd) (hf : c.foreign key h = false) :
    (c.apply (.unlisten key h)).1.lists key = ((c.lists key).remove h).1 ∧
    (∀ k, k ≠ key → (c.apply (.unlisten key h)).1.lists k = c.lists k) ∧
    (c.apply (.unlisten key h)).2 = .bool ((c.lists key).present h) := by
  have hr : ((c.lists key).remove h).2 = (c.lists key).present h := by
    unfold SList.remove; split <;> simp_all
  refine ⟨by simp [apply, hf], ?_, by simp [apply, hf, hr]⟩
  intro k hk; simp [apply, hf, hk]

theorem apply_hasAny (c : QCfg) (key : Nat) :
    (c.apply (.hasAny key)).1 = c ∧ (c.apply (.hasAny key)).2 = .bool (!(c.lists key).isEmpty) :=
  ⟨rfl, rfl⟩

/-- the queue and filter commands leave every listener list alone -/
theorem apply_lists_other (c : QCfg) (cmd : QCmd)
    (h : ∀ key cb, cmd ≠ .listen key cb) (h2 : ∀ key cb, cmd ≠ .listenFront key cb)
    (h3 : ∀ key cb hd, cmd ≠ .listenBefore key cb hd) (h4 : ∀ key hd, cmd ≠ .unlisten key hd) :
    (c.apply cmd).1.lists = c.lists := by
  cases cmd <;> simp only [apply] <;> (try split) <;> (try split) <;> simp_all [push]

/-! ### every recorded call is of a callback that is in its list at that moment -/

/-- the callback of `call` is, in world (`L`, `F`), a current listener of the call's event /
    a current filter (nothing is claimed for predicates, which are not stored anywhere) -/
def CallOK (L : Store SList) (F : SList) (call : QCall) : Prop :=
  match call.kind with
  | .filter => F.present call.h = true
  | .listener => (L call.key).present call.h = true
  | .pred => True

/-- `c'.trace` extends `tr` by events whose calls are all `CallOK` -/
def NC (L : Store SList) (F : SList) (tr : List QEv) (c' : QCfg) : Prop :=
  ∃ new, c'.trace = new ++ tr ∧ ∀ call, QEv.call call ∈ new → CallOK L F call

theorem NC.refl' {L F} {c' : QCfg} {tr} (h : c'.trace = tr) : NC L F tr c' :=
  ⟨[], by simp [h], by simp⟩

theorem NC.cons {L F e tr} {c' : QCfg} (h : NC L F (e :: tr) c')
    (he : ∀ call, e = .call call → CallOK L F call) : NC L F tr c' := by
  obtain ⟨new, hn, hc⟩ := h
  refine ⟨new ++ [e], by simp [hn], ?_⟩
  intro call hm
  rcases List.mem_append.1 hm with hm | hm
  · exact hc call hm
  · simp at hm; exact he call hm.symm

theorem nextListener_NC (b : QBeh) (c : QCfg) (key arg : Nat) (snap : List Entry) (below) :
    NC c.lists c.filters c.trace (nextListener b c key arg snap below) := by
  rcases nextListener_trace b c key arg below snap with h | ⟨e, -, hp, h⟩
  · exact NC.refl' h
  · refine ⟨[_], h, ?_⟩
    intro call hm
    simp at hm; subst hm
    exact hp

theorem nextFilter_NC (b : QBeh) (c : QCfg) (key arg : Nat) (snap : List Entry) (below) :
    NC c.lists c.filters c.trace (nextFilter b c key arg snap below) := by
  rcases nextFilter_trace b c key arg below snap with h | ⟨e, -, hp, h⟩ | ⟨e, -, hp, h⟩
  · exact NC.refl' h
  · refine ⟨[_], h, ?_⟩
    intro call hm
    simp at hm; subst hm
    exact hp
  · refine ⟨[_], h, ?_⟩
    intro call hm
    simp at hm; subst hm
    exact hp

theorem deliver_NC (c : QCfg) (r : QRes) (below : List QFrame) :
    NC c.lists c.filters c.trace (c.deliver r below) := by
  unfold deliver
  split
  · exact ⟨[.res r], rfl, by simp⟩
  · exact NC.refl' rfl

theorem finishProc_NC (c : QCfg) (mode kept idle below) :
    NC c.lists c.filters c.trace (finishProc c mode kept idle below) := by
  unfold finishProc
  exact deliver_NC _ _ _

theorem procNext_NC (b : QBeh) (c : QCfg) (mode todo kept idle below) :
    NC c.lists c.filters c.trace (procNext b c mode todo kept idle below) := by
  unfold procNext
  split
  · exact finishProc_NC c _ _ _ _
  · split
    · exact finishProc_NC c _ _ _ _
    · split
      · exact nextFilter_NC b c _ _ _ _
      · exact nextFilter_NC b c _ _ _ _
      · exact ⟨[_], rfl, by intro call hm; simp at hm; subst hm; trivial⟩
      · exact ⟨[_], rfl, by intro call hm; simp at hm; subst hm; trivial⟩

theorem endDispatch_NC (b : QBeh) (c : QCfg) (below) :
    NC c.lists c.filters c.trace (endDispatch b c below) := by
  unfold endDispatch
  split
  · split
    · exact (procNext_NC b (c.push _) _ _ _ _ _).cons (by intro call h; cases h)
    · exact procNext_NC b c _ _ _ _ _
  · exact deliver_NC c _ _

theorem startProc_NC (b : QBeh) (c : QCfg) (mode k rest) :
    NC c.lists c.filters c.trace (startProc b c mode k rest) := by
  unfold startProc
  split
  · exact ⟨[_], rfl, by simp⟩
  · split
    · exact procNext_NC b { c with queue := _, ec := c.ec + 1 } _ _ _ _ _

/-- `apply` records no call at all -/
theorem apply_no_call (c : QCfg) (cmd : QCmd) :
    ∃ new, (c.apply cmd).1.trace = new ++ c.trace ∧ ∀ call, QEv.call call ∉ new := by
  cases cmd <;> simp only [apply]
  case listenBefore => split <;> exact ⟨[], rfl, by simp⟩
  case unlisten => split <;> exact ⟨[], rfl, by simp⟩
  case enqueue => split <;> exact ⟨[], rfl, by simp⟩
  case peek =>
    split
    · split <;> exact ⟨[], rfl, by simp⟩
    · exact ⟨[], rfl, by simp⟩
  case take =>
    split
    · split
      · exact ⟨[_], rfl, by simp⟩
      · exact ⟨[], rfl, by simp⟩
    · exact ⟨[], rfl, by simp⟩
  case clear =>
    split
    · exact ⟨[], rfl, by simp⟩
    · exact ⟨_, rfl, by simp⟩
  all_goals exact ⟨[], rfl, by simp⟩

/-- **Every step records only calls of callbacks that are in their list at that moment.** -/
theorem step_NC {b : QBeh} {c c' : QCfg} (hs : step b c = some c') :
    NC c.lists c.filters c.trace c' := by
  cases step_stepR hs with
  | filtTrue hst => exact nextFilter_NC b c _ _ _ _
  | filtFalse hst => exact NC.refl' rfl
  | iter hst _ => exact nextListener_NC b c _ _ _ _
  | iterStop hst _ => exact NC.refl' rfl
  | predDispatch hst hev hm => exact nextFilter_NC b c _ _ _ _
  | predSkip hst hev => exact procNext_NC b c _ _ _ _ _
  | predStop hst hev => exact finishProc_NC c _ _ _ _
  | pop hst _ _ _ => exact NC.refl' rfl
  | dispatch hst => exact nextFilter_NC b c _ _ _ _
  | startProc hst hm => exact startProc_NC b c _ _ _
  | apply hst hsim =>
    rename_i cmd k rest
    obtain ⟨new, hn, hc⟩ := apply_no_call c cmd
    refine ⟨.res (c.apply cmd).2 :: new, by simp [hn], ?_⟩
    intro call hm
    simp at hm
    exact (hc call hm).elim
  | done hst => exact endDispatch_NC b c _

end Evp.Q
