import EventppVerif.Q.OrdAux
/-
  Evaluation aid for the non-vacuity examples of the ordered queue.

  `List.mergeSort` is defined by well-founded recursion, which the kernel cannot evaluate, so
  `decide +kernel` gets stuck on runs of `QCfg.runN` with `ordered = some _`.  This file
  * defines a structurally recursive stable insertion sort `isort` and proves
    `mergeSort l le = isort le l` for every total, transitive `le` (from `List.mergeSort_cons`);
  * defines `Gen.*`: a verbatim copy of the machine functions of Q/Machine.lean that mention
    `settle`, with the settling function as a parameter `σ`;
  * proves `Gen.runN settle = QCfg.runN` (by `rfl` on every function) and hence
    `QCfg.runN = Gen.runN isettle` (`runN_eq_eval`), whose right-hand side the kernel evaluates.
-/
namespace Evp.Q
open Evp QCfg

/-! ### insertion sort = merge sort -/

def insertSorted {α} (le : α → α → Bool) (a : α) : List α → List α
  | [] => [a]
  | b :: l => if le a b then a :: b :: l else b :: insertSorted le a l

def isort {α} (le : α → α → Bool) : List α → List α
  | [] => []
  | a :: l => insertSorted le a (isort le l)

theorem insertSorted_append {α} (le : α → α → Bool) (a : α) :
    ∀ (l₁ l₂ : List α), (∀ b ∈ l₁, le a b = false) → (∀ b ∈ l₂, le a b = true) →
      insertSorted le a (l₁ ++ l₂) = l₁ ++ a :: l₂
  | [], [], _, _ => rfl
  | [], b :: r, _, h₂ => by simp [insertSorted, h₂ b List.mem_cons_self]
  | x :: l₁, l₂, h₁, h₂ => by
    have := insertSorted_append le a l₁ l₂ (fun b hb => h₁ b (List.mem_cons_of_mem _ hb)) h₂
    simp [insertSorted, h₁ x List.mem_cons_self, this]

theorem mergeSort_eq_isort {α} (le : α → α → Bool)
    (trans : ∀ (a b c : α), le a b → le b c → le a c)
    (total : ∀ (a b : α), le a b || le b a) :
    ∀ (l : List α), l.mergeSort le = isort le l
  | [] => by simp [isort]
  | a :: l => by
    obtain ⟨l₁, l₂, h₁, h₂, h₃⟩ := List.mergeSort_cons trans total a l
    have hs := List.pairwise_mergeSort trans total (a :: l)
    rw [h₁, List.pairwise_append] at hs
    have ih := mergeSort_eq_isort le trans total l
    rw [h₁]
    show _ = insertSorted le a (isort le l)
    rw [← ih, h₂]
    refine (insertSorted_append le a l₁ l₂ ?_ ?_).symm
    · intro b hb; simpa using h₃ b hb
    · intro b hb; exact List.rel_of_pairwise_cons hs.2.1 hb

/-- `settle` with insertion sort -/
def isettle (ord : Option Bool) (l : List Slot) : List Slot :=
  match ord with
  | none => l
  | some asc => isort (slotLe asc) l

theorem isettle_eq : isettle = settle := by
  funext o l
  cases o with
  | none => rfl
  | some asc =>
    show isort (slotLe asc) l = l.mergeSort (slotLe asc)
    exact (mergeSort_eq_isort _ (slotLe_trans asc) (slotLe_total asc) l).symm

/-! ### the machine with the settling function as a parameter (copied from Q/Machine.lean) -/
namespace Gen

/-- end of a processing call: put the kept slots back in front, recycle the idle ones, drop the
    guard, report -/
def finishProc (σ : Option Bool → List Slot → List Slot) (c : QCfg) (mode : PMode) (kept idle : List Slot) (below : List QFrame) : QCfg :=
  let q := if kept.isEmpty then c.queue else σ c.ordered (kept ++ c.queue)
  let f := if idle.isEmpty then c.free else σ c.ordered (c.free ++ idle)
  let r := match mode with
    | .all | .one => true
    | .ifp _ | .untilp _ => !idle.isEmpty
  ({ c with queue := q, free := f, ec := c.ec - 1 }).deliver (.bool r) below

/-- examine the head of `todo` of a processing call -/
def procNext (σ : Option Bool → List Slot → List Slot) (b : QBeh) (c : QCfg) (mode : PMode) (todo kept idle : List Slot) (below : List QFrame) : QCfg :=
  match todo with
  | [] => finishProc σ c mode kept idle below
  | s :: rest =>
    match s.ev with
    | none => finishProc σ c mode (kept ++ s :: rest) idle below  -- unreachable: slot discipline
    | some e =>
      match mode with
      | .all | .one =>
        nextFilter b c e.key e.arg c.filters (.proc mode (s :: rest) kept idle .disp :: below)
      | .ifp p | .untilp p =>
        let call : QCall := ⟨.pred, e.key, 0, p, e.arg⟩
        { c with trace := .call call :: c.trace
                 stack := .prog (callProg b c call) :: .proc mode (s :: rest) kept idle .pred :: below }

/-- the dispatch that was running has ended; `below` is what it returns to -/
def endDispatch (σ : Option Bool → List Slot → List Slot) (b : QBeh) (c : QCfg) (below : List QFrame) : QCfg :=
  match below with
  | .proc mode (s :: rest) kept idle .disp :: below' =>
    -- `item.clear()`, then the slot waits in tempList/idleList for recycling
    let c' := match s.ev with
      | some e => c.push (.consumed e.seq 0)
      | none => c
    procNext σ b c' mode rest kept (idle ++ [{ s with ev := none }]) below'
  | _ => c.deliver .unit below

def apply (σ : Option Bool → List Slot → List Slot) (c : QCfg) : QCmd → QCfg × QRes
  | .listen key cb =>
    ({ c with lists := upd c.lists key ((c.lists key).append c.nextId cb), nextId := c.nextId + 1 }, .handle c.nextId)
  | .listenFront key cb =>
    ({ c with lists := upd c.lists key ((c.lists key).prepend c.nextId cb), nextId := c.nextId + 1 }, .handle c.nextId)
  | .listenBefore key cb h =>
    if c.foreign key h then (c, .unit) else
    ({ c with lists := upd c.lists key ((c.lists key).insert c.nextId cb h), nextId := c.nextId + 1 }, .handle c.nextId)
  | .unlisten key h =>
    if c.foreign key h then (c, .unit) else
    let (l', r) := (c.lists key).remove h
    ({ c with lists := upd c.lists key l' }, .bool r)
  | .hasAny key => (c, .bool (!(c.lists key).isEmpty))
  | .addFilter f =>
    ({ c with filters := c.filters.append c.nextId f, nextId := c.nextId + 1 }, .handle c.nextId)
  | .removeFilter h =>
    let (l', r) := c.filters.remove h
    ({ c with filters := l' }, .bool r)
  | .enqueue key arg =>
    -- doEnqueue: recycle the first free slot or make a new one, `set`, splice to the back
    let ev : QEvent := ⟨c.nextSeq, key, arg⟩
    match c.free with
    | s :: fr =>
      ({ c with free := fr, queue := σ c.ordered (c.queue ++ [{ s with ev := some ev }]),
                nextSeq := c.nextSeq + 1 }, .unit)
    | [] =>
      ({ c with queue := σ c.ordered (c.queue ++ [⟨c.nextSlot, some ev⟩]), nextSlot := c.nextSlot + 1,
                nextSeq := c.nextSeq + 1 }, .unit)
  | .peek =>
    match c.queue with
    | s :: _ => (match s.ev with
      | some e => (c, .ev e.key e.arg)
      | none => (c, .bool false))
    | [] => (c, .bool false)
  | .take =>
    match c.queue with
    | s :: r => (match s.ev with
      | some e =>
        (({ c with queue := r, free := σ c.ordered (c.free ++ [{ s with ev := none }]) }).push (.consumed e.seq 1),
          .ev e.key e.arg)
      | none => (c, .bool false))
    | [] => (c, .bool false)
  | .clear =>
    if c.queue.isEmpty then (c, .unit) else
    let evs := c.queue.filterMap (·.ev)
    ({ c with queue := [], free := σ c.ordered (c.free ++ c.queue.map (fun s => { s with ev := none })),
              trace := (evs.map (fun e => QEv.consumed e.seq 2)).reverse ++ c.trace }, .unit)
  | .emptyq => (c, .bool c.emptyQueue)
  | .dispatch _ _ => (c, .unit)
  | .process => (c, .unit)
  | .processOne => (c, .unit)
  | .processIf _ => (c, .unit)
  | .processUntil _ => (c, .unit)

/-- start a processing call: unlocked emptiness pre-check, guard, swap / splice out -/
def startProc (σ : Option Bool → List Slot → List Slot) (b : QBeh) (c : QCfg) (mode : PMode) (k : QRes → QProg) (rest : List QFrame) : QCfg :=
  if c.queue.isEmpty then { c with stack := .prog (k (.bool false)) :: rest, trace := .res (.bool false) :: c.trace }
  else
    let (todo, q) := match mode with
      | .one => (c.queue.take 1, c.queue.drop 1)
      | _ => (c.queue, [])
    procNext σ b { c with queue := q, ec := c.ec + 1 } mode todo [] [] (.wait k :: rest)

def step (σ : Option Bool → List Slot → List Slot) (b : QBeh) (c : QCfg) : Option QCfg :=
  match c.stack with
  | [] => none
  | .prog (.ret v) :: .filt key arg rest cur :: below =>
    if v then some (nextFilter b c key (b.rewrite cur arg) rest below)
    else some { c with stack := .done :: below }
  | .prog (.ret _) :: .iter key arg rest :: below =>
    if b.cont arg then some (nextListener b c key arg rest below)
    else some { c with stack := .done :: below }
  | .prog (.ret v) :: .proc mode (s :: rest) kept idle .pred :: below =>
    (match mode, s.ev with
    | .ifp _, some e =>
      if v then some (nextFilter b c e.key e.arg c.filters (.proc mode (s :: rest) kept idle .disp :: below))
      else some (procNext σ b c mode rest (kept ++ [s]) idle below)
    | .untilp _, some e =>
      if v then some (finishProc σ c mode (kept ++ s :: rest) idle below)
      else some (nextFilter b c e.key e.arg c.filters (.proc mode (s :: rest) kept idle .disp :: below))
    | _, _ => none)
  | .prog (.ret _) :: rest => some { c with stack := rest }
  | .prog (.op (.dispatch key arg) k) :: rest =>
    some (nextFilter b c key arg c.filters (.wait k :: rest))
  | .prog (.op .process k) :: rest => some (startProc σ b c .all k rest)
  | .prog (.op .processOne k) :: rest => some (startProc σ b c .one k rest)
  | .prog (.op (.processIf p) k) :: rest => some (startProc σ b c (.ifp p) k rest)
  | .prog (.op (.processUntil p) k) :: rest => some (startProc σ b c (.untilp p) k rest)
  | .prog (.op cmd k) :: rest =>
    let (c', r) := apply σ c cmd
    some { c' with stack := .prog (k r) :: rest, trace := .res r :: c'.trace }
  | .done :: below => some (endDispatch σ b c below)
  | .wait _ :: _ => none
  | .filt _ _ _ _ :: _ => none
  | .iter _ _ _ :: _ => none
  | .proc _ _ _ _ _ :: _ => none

def runN (σ : Option Bool → List Slot → List Slot) (b : QBeh) : Nat → QCfg → QCfg × Bool
  | 0, c => (c, c.stack.isEmpty)
  | n + 1, c => match step σ b c with
    | none => (c, c.stack.isEmpty)
    | some c' => runN σ b n c'

theorem finishProc_eq (c mode kept idle below) :
    finishProc settle c mode kept idle below = QCfg.finishProc c mode kept idle below := rfl

theorem procNext_eq (b c mode todo kept idle below) :
    procNext settle b c mode todo kept idle below = QCfg.procNext b c mode todo kept idle below := rfl

theorem endDispatch_eq (b c below) :
    endDispatch settle b c below = QCfg.endDispatch b c below := rfl

theorem apply_eq (c : QCfg) (cmd : QCmd) : apply settle c cmd = c.apply cmd := by
  cases cmd <;> rfl

theorem startProc_eq (b c mode k rest) :
    startProc settle b c mode k rest = QCfg.startProc b c mode k rest := rfl

theorem step_eq (b : QBeh) (c : QCfg) : step settle b c = QCfg.step b c := by
  unfold step QCfg.step
  simp only [finishProc_eq, procNext_eq, endDispatch_eq, apply_eq, startProc_eq]
  rfl

theorem runN_eq (b : QBeh) : ∀ (n : Nat) (c : QCfg), runN settle b n c = QCfg.runN b n c
  | 0, _ => rfl
  | n + 1, c => by
    simp only [runN, QCfg.runN, step_eq]
    cases QCfg.step b c with
    | none => rfl
    | some c' => exact runN_eq b n c'

end Gen

/-- the machine, in a form the kernel can evaluate -/
theorem runN_eq_eval (b : QBeh) (n : Nat) (c : QCfg) : QCfg.runN b n c = Gen.runN isettle b n c := by
  rw [isettle_eq, Gen.runN_eq]

end Evp.Q
