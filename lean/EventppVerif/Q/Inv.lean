import EventppVerif.Q.Machine
/-
  Invariants of the queue machine (Q/Machine.lean): definitions.

  * ghost projections of a configuration (`inflight`, `seqsOf`, `consumedSeqs`, `pendS`);
  * the *view* of a configuration (`View`): everything the queue invariants talk about — the
    slot lists, the guard, the counters, the consumed sequence numbers and the slot lists of the
    running processing calls — without programs, listeners, filters and phases;
  * the abstract transitions of a view (`VStep`): every machine step is a finite sequence of them
    (`InvProofs.lean: step_view`);
  * the invariant of views (`VInv`) and the stack-shape invariant (`StackOk`);
  * reachability (`Reachable`).
-/
namespace Evp.Q
open Evp

/-! ### ghost projections -/

/-- the slots a frame holds -/
def frameSlots : QFrame → List Slot
  | .proc _ todo kept idle _ => todo ++ kept ++ idle
  | _ => []

/-- the still-pending slots of a frame, in the order in which they go back / get examined:
    the declined ones first, then the ones not examined yet -/
def framePend : QFrame → List Slot
  | .proc _ todo kept _ _ => kept ++ todo
  | _ => []

/-- the slots held by the processing calls of a stack (top frame first) -/
def inflightS (st : List QFrame) : List Slot := st.flatMap frameSlots

/-- the slots held by running processing calls -/
def QCfg.inflight (c : QCfg) : List Slot := inflightS c.stack

/-- pending slots of the processing calls, from the BOTTOM (outermost) frame to the TOP -/
def pendS : List QFrame → List Slot
  | [] => []
  | f :: r => pendS r ++ framePend f

/-- sequence numbers of the occupied slots -/
def seqsOf (l : List Slot) : List Nat := l.filterMap (fun s => s.ev.map (·.seq))

/-- events of the occupied slots -/
def evsOf (l : List Slot) : List QEvent := l.filterMap (·.ev)

def sidsOf (l : List Slot) : List Nat := l.map (·.sid)

def consumedSeq : QEv → Option Nat
  | .consumed s _ => some s
  | _ => none

/-- sequence numbers of the `consumed` ghost events of a trace -/
def consumedSeqs (tr : List QEv) : List Nat := tr.filterMap consumedSeq

def isProc : QFrame → Bool
  | .proc .. => true
  | _ => false

/-- number of running processing calls -/
def procCount (st : List QFrame) : Nat := (st.filter isProc).length

/-! ### views -/

structure PFrame where
  todo : List Slot
  kept : List Slot
  idle : List Slot

def toPFrame : QFrame → Option PFrame
  | .proc _ t k i _ => some ⟨t, k, i⟩
  | _ => none

def procFrames (st : List QFrame) : List PFrame := st.filterMap toPFrame

structure View where
  queue : List Slot
  free : List Slot
  ec : Nat
  ordered : Option Bool
  nextSeq : Nat
  nextSlot : Nat
  cons : List Nat
  frames : List PFrame

def view (c : QCfg) : View :=
  ⟨c.queue, c.free, c.ec, c.ordered, c.nextSeq, c.nextSlot, consumedSeqs c.trace, procFrames c.stack⟩

/-- the view of `c` with another stack -/
def viewS (c : QCfg) (st : List QFrame) : View := view { c with stack := st }

def inflightV (fs : List PFrame) : List Slot := fs.flatMap (fun f => f.todo ++ f.kept ++ f.idle)

def pendV : List PFrame → List Slot
  | [] => []
  | f :: r => pendV r ++ (f.kept ++ f.todo)

/-- `item.clear()` -/
def clr (s : Slot) : Slot := { s with ev := none }

/-- put `K` back in front of `q` (end of a processing call) -/
def putBack (o : Option Bool) (K q : List Slot) : List Slot :=
  if K.isEmpty then q else QCfg.settle o (K ++ q)

/-- splice `idle` to the back of the free list (end of a processing call) -/
def recycle (o : Option Bool) (f idle : List Slot) : List Slot :=
  if idle.isEmpty then f else QCfg.settle o (f ++ idle)

/-- abstract transitions of a view -/
inductive VStep : View → View → Prop
  /-- `enqueue` recycling the first free slot: `set` on it, splice to the back of the queue -/
  | enqFree (v : View) (s : Slot) (fr : List Slot) (key arg : Nat) : v.free = s :: fr →
      VStep v { v with
        free := fr
        queue := QCfg.settle v.ordered (v.queue ++ [{ s with ev := some ⟨v.nextSeq, key, arg⟩ }])
        nextSeq := v.nextSeq + 1 }
  /-- `enqueue` with a new slot -/
  | enqNew (v : View) (key arg : Nat) : v.free = [] →
      VStep v { v with
        queue := QCfg.settle v.ordered (v.queue ++ [⟨v.nextSlot, some ⟨v.nextSeq, key, arg⟩⟩])
        nextSlot := v.nextSlot + 1
        nextSeq := v.nextSeq + 1 }
  | take (v : View) (s : Slot) (r : List Slot) (e : QEvent) : v.queue = s :: r → s.ev = some e →
      VStep v { v with
        queue := r
        free := QCfg.settle v.ordered (v.free ++ [clr s])
        cons := e.seq :: v.cons }
  | clear (v : View) :
      VStep v { v with
        queue := []
        free := QCfg.settle v.ordered (v.free ++ v.queue.map clr)
        cons := (seqsOf v.queue).reverse ++ v.cons }
  /-- a processing call takes a prefix of the queue -/
  | start (v : View) (todo q : List Slot) : v.queue = todo ++ q →
      VStep v { v with queue := q, ec := v.ec + 1, frames := ⟨todo, [], []⟩ :: v.frames }
  /-- the innermost processing call ends -/
  | finish (v : View) (todo kept idle : List Slot) (fs : List PFrame) :
      v.frames = ⟨todo, kept, idle⟩ :: fs →
      VStep v { v with
        queue := putBack v.ordered (kept ++ todo) v.queue
        free := recycle v.ordered v.free idle
        ec := v.ec - 1
        frames := fs }
  /-- the dispatch of the head of `todo` has ended: clear the slot, park it in `idle` -/
  | clearHead (v : View) (s : Slot) (rest kept idle : List Slot) (fs : List PFrame) :
      v.frames = ⟨s :: rest, kept, idle⟩ :: fs →
      VStep v { v with
        cons := (match s.ev with | some e => e.seq :: v.cons | none => v.cons)
        frames := ⟨rest, kept, idle ++ [clr s]⟩ :: fs }
  /-- the predicate declined the head of `todo` -/
  | decline (v : View) (s : Slot) (rest kept idle : List Slot) (fs : List PFrame) :
      v.frames = ⟨s :: rest, kept, idle⟩ :: fs → s.ev.isSome →
      VStep v { v with frames := ⟨rest, kept ++ [s], idle⟩ :: fs }

inductive VSteps : View → View → Prop
  | refl (v : View) : VSteps v v
  | tail {u v w : View} : VSteps u v → VStep v w → VSteps u w

/-- the invariant of views -/
structure VInv (v : View) : Prop where
  /-- queued slots are occupied -/
  qocc : ∀ s ∈ v.queue, s.ev.isSome
  /-- free slots are empty -/
  fempty : ∀ s ∈ v.free, s.ev = none
  /-- `todo` and `kept` slots are occupied, `idle` slots are empty -/
  focc : ∀ f ∈ v.frames,
    (∀ s ∈ f.todo, s.ev.isSome) ∧ (∀ s ∈ f.kept, s.ev.isSome) ∧ (∀ s ∈ f.idle, s.ev = none)
  /-- the slots of all lists together are exactly the slots ever created, each once -/
  sids : (sidsOf (v.queue ++ v.free ++ inflightV v.frames)).Perm (List.range v.nextSlot)
  /-- the stored and the consumed events together are exactly the events ever enqueued, each once -/
  once : (seqsOf v.queue ++ seqsOf (inflightV v.frames) ++ v.cons).Perm (List.range v.nextSeq)
  /-- `std::list` policy: pending events are in enqueue order across all frames and the queue -/
  fifo : v.ordered = none → (seqsOf (pendV v.frames ++ v.queue)).Pairwise (· < ·)
  /-- `queueEmptyCounter` counts the running processing calls -/
  guard : v.ec = v.frames.length

/-- what a processing call reports: `process`/`processOne` report `true` (they only get this far
    on a non-empty queue), `processIf`/`processUntil` report whether `idleList` is non-empty,
    i.e. whether at least one event was dispatched -/
def procResult : PMode → List Slot → Bool
  | .all, _ | .one, _ => true
  | .ifp _, idle | .untilp _, idle => !idle.isEmpty

/-! ### stack shape -/

def PMode.hasPred : PMode → Bool
  | .ifp _ | .untilp _ => true
  | _ => false

/-- `COk false st`: `st` may be below a running program (`.prog`);
    `COk true st`: `st` may be below a running dispatch (`.filt`, `.iter`, `.done`). -/
inductive COk : Bool → List QFrame → Prop
  | nil : COk false []
  | filt {key arg rest cur r} : COk true r → COk false (.filt key arg rest cur :: r)
  | iter {key arg rest r} : COk true r → COk false (.iter key arg rest :: r)
  | pred {mode s rest kept idle k k'} : COk false k' → mode.hasPred = true →
      COk false (.proc mode (s :: rest) kept idle .pred :: .wait k :: k')
  | wait {k k'} : COk false k' → COk true (.wait k :: k')
  | disp {mode s rest kept idle k k'} : COk false k' →
      COk true (.proc mode (s :: rest) kept idle .disp :: .wait k :: k')

inductive StackOk : List QFrame → Prop
  | nil : StackOk []
  | prog {p k} : COk false k → StackOk (.prog p :: k)
  | done {r} : COk true r → StackOk (.done :: r)

/-! ### reachability -/

/-- an initial configuration: nothing queued, nothing recycled, a program about to run
    (listener lists, filters, ordering policy, number of keys arbitrary) -/
def Init (c : QCfg) : Prop :=
  c.queue = [] ∧ c.free = [] ∧ c.ec = 0 ∧ c.nextSeq = 0 ∧ c.nextSlot = 0 ∧ c.trace = [] ∧
  ∃ p, c.stack = [.prog p]

/-- closure of `Init` under `QCfg.step b` -/
inductive Reachable (b : QBeh) : QCfg → Prop
  | init {c} : Init c → Reachable b c
  | step {c c'} : Reachable b c → QCfg.step b c = some c' → Reachable b c'

/-- the full invariant of configurations -/
structure QInv (c : QCfg) : Prop where
  shape : StackOk c.stack
  vinv : VInv (view c)

end Evp.Q
