import EventppVerif.Q.InvProofs
/-
  Corollaries of `QInv` for reachable configurations, in terms of the configuration itself
  (`queue`, `free`, `stack`, `trace`), ready to be quoted by the property files.
-/
namespace Evp.Q
open Evp QCfg

/-! ### list facts -/

theorem nodup_of_perm_range {l : List Nat} {n : Nat} (h : l.Perm (List.range n)) : l.Nodup :=
  h.nodup_iff.mpr List.nodup_range

theorem pairwise_of_nodup_seqsOf {l : List Slot} (h : (seqsOf l).Nodup) :
    l.Pairwise (fun s t => ∀ e1 e2, s.ev = some e1 → t.ev = some e2 → e1.seq ≠ e2.seq) := by
  induction l with
  | nil => exact .nil
  | cons s l ih =>
    cases he : s.ev with
    | none =>
      rw [seqsOf_cons_none he] at h
      exact .cons (fun t _ e1 e2 h1 => by simp [he] at h1) (ih h)
    | some e =>
      rw [seqsOf_cons_some he, List.nodup_cons] at h
      refine .cons ?_ (ih h.2)
      intro t ht e1 e2 h1 h2 heq
      rw [he] at h1
      cases h1
      exact h.1 (mem_seqsOf.mpr ⟨t, ht, e2, h2, heq.symm⟩)

theorem pendS_split {st : List QFrame} {mode : PMode} {todo kept idle : List Slot} {ph : Phase}
    (h : QFrame.proc mode todo kept idle ph ∈ st) : ∃ A B, pendS st = A ++ (kept ++ todo) ++ B := by
  induction st with
  | nil => cases h
  | cons f st ih =>
    rcases List.mem_cons.mp h with rfl | h
    · exact ⟨pendS st, [], by simp [pendS, framePend]⟩
    · obtain ⟨A, B, hAB⟩ := ih h
      exact ⟨A, B ++ framePend f, by simp [pendS, hAB]⟩

theorem COk.todo_ne_nil {x : Bool} {st : List QFrame} (h : COk x st)
    {mode : PMode} {todo kept idle : List Slot} {ph : Phase}
    (hm : QFrame.proc mode todo kept idle ph ∈ st) : todo ≠ [] := by
  induction h with
  | nil => cases hm
  | filt _ ih | iter _ ih | wait _ ih =>
    rcases List.mem_cons.mp hm with h | h
    · cases h
    · exact ih h
  | pred _ _ ih | disp _ ih =>
    rcases List.mem_cons.mp hm with h | h
    · cases h; simp
    · rcases List.mem_cons.mp h with h | h
      · cases h
      · exact ih h

theorem StackOk.todo_ne_nil {st : List QFrame} (h : StackOk st)
    {mode : PMode} {todo kept idle : List Slot} {ph : Phase}
    (hm : QFrame.proc mode todo kept idle ph ∈ st) : todo ≠ [] := by
  cases h with
  | nil => cases hm
  | prog hk | done hk =>
    rcases List.mem_cons.mp hm with h | h
    · cases h
    · exact hk.todo_ne_nil h

/-! ### progress -/

/-- the machine never takes one of the `none` branches of `step` before the program has ended -/
theorem QInv.progress (b : QBeh) {c : QCfg} (h : QInv c) (hne : c.stack ≠ []) :
    (QCfg.step b c).isSome = true := by
  have hs := h.shape
  have hocc := h.vinv.focc
  generalize hst : c.stack = st at hs
  cases hs with
  | nil => exact absurd hst hne
  | done hr => simp only [QCfg.step, hst, Option.isSome_some]
  | @prog p k hk =>
    cases p with
    | ret v =>
      cases hk with
      | nil => simp only [QCfg.step, hst, Option.isSome_some]
      | filt hr => simp only [QCfg.step, hst]; split <;> rfl
      | iter hr => simp only [QCfg.step, hst]; split <;> rfl
      | @pred mode s rest kept idle k k' hk' hm =>
        have hf : (⟨s :: rest, kept, idle⟩ : PFrame) ∈ (view c).frames :=
          mem_procFrames (mode := mode) (ph := .pred) (by rw [hst]; simp)
        have hsome := (hocc _ hf).1 s (by simp)
        obtain ⟨e, he⟩ := Option.isSome_iff_exists.mp hsome
        simp only [QCfg.step, hst, he]
        cases mode with
        | all => cases hm
        | one => cases hm
        | ifp p => simp only []; split <;> rfl
        | untilp p => simp only []; split <;> rfl
    | op cmd kk =>
      cases cmd <;> simp only [QCfg.step, hst, Option.isSome_some]

/-! ### stored events are never altered -/

def liveV (v : View) : List Slot := v.queue ++ inflightV v.frames

theorem mem_evsOf {l : List Slot} {e : QEvent} : e ∈ evsOf l ↔ ∃ s ∈ l, s.ev = some e := by
  simp [evsOf, List.mem_filterMap]

theorem VStep.live {v w : View} (hs : VStep v w) :
    v.nextSeq ≤ w.nextSeq ∧ ∀ e ∈ evsOf (liveV w), e ∈ evsOf (liveV v) ∨ v.nextSeq ≤ e.seq := by
  refine ⟨by cases hs <;> simp, ?_⟩
  intro e he
  rw [mem_evsOf] at he
  obtain ⟨s, hs', he⟩ := he
  rw [mem_evsOf]
  cases hs with
  | enqFree s0 fr key arg hf =>
    simp only [liveV, List.mem_append, mem_settle, List.mem_singleton] at hs' ⊢
    rcases hs' with (h | rfl) | h
    · exact .inl ⟨s, .inl h, he⟩
    · simp at he; subst he; exact .inr (Nat.le_refl _)
    · exact .inl ⟨s, .inr h, he⟩
  | enqNew key arg hf =>
    simp only [liveV, List.mem_append, mem_settle, List.mem_singleton] at hs' ⊢
    rcases hs' with (h | rfl) | h
    · exact .inl ⟨s, .inl h, he⟩
    · simp at he; subst he; exact .inr (Nat.le_refl _)
    · exact .inl ⟨s, .inr h, he⟩
  | take s0 r e0 hq he0 =>
    refine .inl ⟨s, ?_, he⟩
    simp only [liveV, List.mem_append, hq, List.mem_cons] at hs' ⊢
    rcases hs' with h | h
    · exact .inl (.inr h)
    · exact .inr h
  | clear =>
    refine .inl ⟨s, ?_, he⟩
    simp only [liveV, List.mem_append, List.not_mem_nil, false_or] at hs' ⊢
    exact .inr hs'
  | start todo q hq =>
    refine .inl ⟨s, ?_, he⟩
    simp only [liveV, hq, inflightV_cons, List.mem_append, List.not_mem_nil, or_false] at hs' ⊢
    rcases hs' with h | h | h
    · exact .inl (.inr h)
    · exact .inl (.inl h)
    · exact .inr h
  | finish todo kept idle fs hf =>
    refine .inl ⟨s, ?_, he⟩
    simp only [liveV, hf, inflightV_cons, List.mem_append, mem_putBack] at hs' ⊢
    rcases hs' with ((h | h) | h) | h
    · exact .inr (.inl (.inl (.inr h)))
    · exact .inr (.inl (.inl (.inl h)))
    · exact .inl h
    · exact .inr (.inr h)
  | clearHead s0 rest kept idle fs hf =>
    refine .inl ⟨s, ?_, he⟩
    simp only [liveV, hf, inflightV_cons, List.mem_append, List.mem_cons, List.not_mem_nil, or_false] at hs' ⊢
    rcases hs' with h | ((h | h) | (h | rfl)) | h
    · exact .inl h
    · exact .inr (.inl (.inl (.inl (.inr h))))
    · exact .inr (.inl (.inl (.inr h)))
    · exact .inr (.inl (.inr h))
    · simp at he
    · exact .inr (.inr h)
  | decline s0 rest kept idle fs hf hsome =>
    refine .inl ⟨s, ?_, he⟩
    simp only [liveV, hf, inflightV_cons, List.mem_append, List.mem_cons, List.not_mem_nil, or_false] at hs' ⊢
    rcases hs' with h | ((h | (h | rfl)) | h) | h
    · exact .inl h
    · exact .inr (.inl (.inl (.inl (.inr h))))
    · exact .inr (.inl (.inl (.inr h)))
    · exact .inr (.inl (.inl (.inl (.inl rfl))))
    · exact .inr (.inl (.inr h))
    · exact .inr (.inr h)

theorem VSteps.live {v w : View} (hs : VSteps v w) :
    v.nextSeq ≤ w.nextSeq ∧ ∀ e ∈ evsOf (liveV w), e ∈ evsOf (liveV v) ∨ v.nextSeq ≤ e.seq := by
  induction hs with
  | refl => exact ⟨Nat.le_refl _, fun e he => .inl he⟩
  | tail _ s ih =>
    have := s.live
    refine ⟨Nat.le_trans ih.1 this.1, ?_⟩
    intro e he
    rcases this.2 e he with h | h
    · exact ih.2 e h
    · exact .inr (Nat.le_trans ih.1 h)

namespace Reachable
variable {b : QBeh} {c : QCfg}

/-! ### slot discipline -/

theorem shape (h : Reachable b c) : StackOk c.stack := h.inv.shape

theorem queue_occupied (h : Reachable b c) : ∀ s ∈ c.queue, s.ev.isSome := h.inv.vinv.qocc

theorem free_empty (h : Reachable b c) : ∀ s ∈ c.free, s.ev = none := h.inv.vinv.fempty

theorem frame_slots (h : Reachable b c) {mode : PMode} {todo kept idle : List Slot} {ph : Phase}
    (hm : QFrame.proc mode todo kept idle ph ∈ c.stack) :
    (∀ s ∈ todo, s.ev.isSome) ∧ (∀ s ∈ kept, s.ev.isSome) ∧ (∀ s ∈ idle, s.ev = none) :=
  h.inv.vinv.focc _ (mem_procFrames hm)

theorem sids_perm (h : Reachable b c) :
    (sidsOf (c.queue ++ c.free ++ c.inflight)).Perm (List.range c.nextSlot) := by
  have := h.inv.vinv.sids
  simpa [view, inflightV_procFrames, QCfg.inflight] using this

theorem sids_nodup (h : Reachable b c) : (sidsOf (c.queue ++ c.free ++ c.inflight)).Nodup :=
  nodup_of_perm_range h.sids_perm

theorem sids_lt (h : Reachable b c) : ∀ s ∈ c.queue ++ c.free ++ c.inflight, s.sid < c.nextSlot := by
  intro s hs
  have : s.sid ∈ sidsOf (c.queue ++ c.free ++ c.inflight) := List.mem_map.mpr ⟨s, hs, rfl⟩
  simpa using h.sids_perm.mem_iff.mp this

theorem slots_length (h : Reachable b c) :
    c.queue.length + c.free.length + c.inflight.length = c.nextSlot := by
  have := h.sids_perm.length_eq
  simp [sidsOf] at this
  omega

/-! ### exactly once -/

theorem once_perm (h : Reachable b c) :
    (seqsOf c.queue ++ seqsOf c.inflight ++ consumedSeqs c.trace).Perm (List.range c.nextSeq) := by
  have := h.inv.vinv.once
  simpa [view, inflightV_procFrames, QCfg.inflight] using this

theorem once_nodup (h : Reachable b c) :
    (seqsOf c.queue ++ seqsOf c.inflight ++ consumedSeqs c.trace).Nodup :=
  nodup_of_perm_range h.once_perm

theorem seq_lt (h : Reachable b c) {s : Slot} {e : QEvent} (hs : s ∈ c.queue ++ c.inflight)
    (he : s.ev = some e) : e.seq < c.nextSeq := by
  have : e.seq ∈ seqsOf c.queue ++ seqsOf c.inflight ++ consumedSeqs c.trace := by
    rw [← seqsOf_append]
    exact List.mem_append_left _ (mem_seqsOf.mpr ⟨s, hs, e, he, rfl⟩)
  simpa using h.once_perm.mem_iff.mp this

theorem seq_unique (h : Reachable b c) :
    (c.queue ++ c.inflight).Pairwise
      (fun s t => ∀ e1 e2, s.ev = some e1 → t.ev = some e2 → e1.seq ≠ e2.seq) := by
  apply pairwise_of_nodup_seqsOf
  rw [seqsOf_append]
  exact (List.nodup_append.mp h.once_nodup).1

theorem not_consumed_while_stored (h : Reachable b c) {s : Slot} {e : QEvent}
    (hs : s ∈ c.queue ++ c.inflight) (he : s.ev = some e) : e.seq ∉ consumedSeqs c.trace := by
  intro hc
  have h1 : e.seq ∈ seqsOf c.queue ++ seqsOf c.inflight := by
    rw [← seqsOf_append]; exact mem_seqsOf.mpr ⟨s, hs, e, he, rfl⟩
  exact (List.nodup_append.mp h.once_nodup).2.2 _ h1 _ hc rfl

/-! ### FIFO -/

theorem fifo (h : Reachable b c) (ho : c.ordered = none) :
    (seqsOf (pendS c.stack ++ c.queue)).Pairwise (· < ·) := by
  have := h.inv.vinv.fifo ho
  simpa [view, pendV_procFrames] using this

theorem fifo_lt (h : Reachable b c) : ∀ n ∈ seqsOf (pendS c.stack ++ c.queue), n < c.nextSeq := by
  have := h.inv.vinv.pend_lt
  simpa [view, pendV_procFrames] using this

theorem queue_sorted (h : Reachable b c) (ho : c.ordered = none) :
    (seqsOf c.queue).Pairwise (· < ·) := by
  have := h.fifo ho
  rw [seqsOf_append, List.pairwise_append] at this
  exact this.2.1

theorem frame_sorted (h : Reachable b c) (ho : c.ordered = none)
    {mode : PMode} {todo kept idle : List Slot} {ph : Phase}
    (hm : QFrame.proc mode todo kept idle ph ∈ c.stack) :
    (seqsOf (kept ++ todo ++ c.queue)).Pairwise (· < ·) := by
  obtain ⟨A, B, hAB⟩ := pendS_split hm
  have := h.fifo ho
  rw [hAB] at this
  refine this.sublist (List.Sublist.filterMap _ ?_)
  simp only [List.append_assoc]
  refine List.Sublist.trans ?_ (List.sublist_append_right A _)
  exact (List.Sublist.refl _).append ((List.Sublist.refl _).append (List.sublist_append_right B _))

/-! ### guard -/

theorem guard (h : Reachable b c) : c.ec = procCount c.stack := by
  have := h.inv.vinv.guard
  simpa [view, length_procFrames] using this

end Reachable

theorem liveV_view (c : QCfg) : liveV (view c) = c.queue ++ c.inflight := by
  simp [liveV, view, inflightV_procFrames, QCfg.inflight]

theorem COk.proc_wait {x : Bool} {st : List QFrame} (h : COk x st)
    {st1 st2 : List QFrame} {mode : PMode} {todo kept idle : List Slot} {ph : Phase}
    (hst : st = st1 ++ QFrame.proc mode todo kept idle ph :: st2) : ∃ k r, st2 = .wait k :: r := by
  induction h generalizing st1 with
  | nil => cases st1 <;> cases hst
  | filt _ ih | iter _ ih | wait _ ih =>
    cases st1 with
    | nil => cases hst
    | cons f st1 =>
      simp only [List.cons_append, List.cons.injEq] at hst
      exact ih hst.2
  | pred _ _ ih | disp _ ih =>
    cases st1 with
    | nil =>
      simp only [List.nil_append, List.cons.injEq] at hst
      exact ⟨_, _, hst.2.symm⟩
    | cons f st1 =>
      simp only [List.cons_append, List.cons.injEq] at hst
      cases st1 with
      | nil => cases hst.2
      | cons g st1 =>
        simp only [List.cons_append, List.cons.injEq] at hst
        exact ih hst.2.2

theorem isProc_mem_procCount {st : List QFrame} {f : QFrame} (hf : f ∈ st) (hp : isProc f = true) :
    0 < procCount st :=
  List.length_pos_of_mem (List.mem_filter.mpr ⟨hf, hp⟩)

theorem inflightS_of_procCount_zero {st : List QFrame} (h : procCount st = 0) : inflightS st = [] := by
  induction st with
  | nil => rfl
  | cons f st ih =>
    cases f <;> simp_all [procCount, List.filter_cons, isProc, inflightS, frameSlots]

namespace Reachable
variable {b : QBeh} {c : QCfg}

theorem progress (h : Reachable b c) (hne : c.stack ≠ []) : (QCfg.step b c).isSome = true :=
  h.inv.progress b hne

theorem step_views (h : Reachable b c) {c' : QCfg} (hs : QCfg.step b c = some c') :
    VSteps (view c) (view c') := (step_inv b c c' h.shape hs).2

theorem args_intact_step (h : Reachable b c) {c' : QCfg} (hs : QCfg.step b c = some c')
    {s' : Slot} {e : QEvent} (hm : s' ∈ c'.queue ++ c'.inflight) (he : s'.ev = some e)
    (hlt : e.seq < c.nextSeq) : ∃ s ∈ c.queue ++ c.inflight, s.ev = some e := by
  have := (h.step_views hs).live.2 e (mem_evsOf.mpr ⟨s', by rw [liveV_view]; exact hm, he⟩)
  rcases this with h1 | h1
  · rw [liveV_view] at h1
    exact mem_evsOf.mp h1
  · have : c.nextSeq ≤ e.seq := h1
    omega

theorem nextSeq_mono (h : Reachable b c) {c' : QCfg} (hs : QCfg.step b c = some c') :
    c.nextSeq ≤ c'.nextSeq := (h.step_views hs).live.1

theorem todo_ne_nil (h : Reachable b c) {mode : PMode} {todo kept idle : List Slot} {ph : Phase}
    (hm : QFrame.proc mode todo kept idle ph ∈ c.stack) : todo ≠ [] := h.shape.todo_ne_nil hm

theorem proc_above_wait (h : Reachable b c) {st1 st2 : List QFrame} {mode : PMode}
    {todo kept idle : List Slot} {ph : Phase}
    (hst : c.stack = st1 ++ QFrame.proc mode todo kept idle ph :: st2) : ∃ k r, st2 = .wait k :: r := by
  have hs := h.shape
  generalize hg : c.stack = st at hs hst
  cases hs with
  | nil => cases st1 <;> cases hst
  | prog hk | done hk =>
    cases st1 with
    | nil => cases hst
    | cons f st1 =>
      simp only [List.cons_append, List.cons.injEq] at hst
      exact hk.proc_wait hst.2

theorem pred_frame (h : Reachable b c) {v : Bool} {mode : PMode} {s : Slot}
    {rest kept idle : List Slot} {below : List QFrame}
    (hst : c.stack = .prog (.ret v) :: .proc mode (s :: rest) kept idle .pred :: below) :
    s.ev.isSome = true ∧ ((∃ p, mode = .ifp p) ∨ (∃ p, mode = .untilp p)) := by
  refine ⟨(h.frame_slots (mode := mode) (todo := s :: rest) (kept := kept) (idle := idle) (ph := .pred)
    (by rw [hst]; simp)).1 s (by simp), ?_⟩
  have hs := h.shape
  rw [hst] at hs
  cases hs with
  | prog hk =>
    cases hk with
    | pred _ hm =>
      cases mode with
      | all => cases hm
      | one => cases hm
      | ifp p => exact .inl ⟨p, rfl⟩
      | untilp p => exact .inr ⟨p, rfl⟩

theorem done_below (h : Reachable b c) {below : List QFrame} (hst : c.stack = .done :: below) :
    (∃ k r, below = .wait k :: r) ∨
    (∃ mode s rest kept idle k r, below = .proc mode (s :: rest) kept idle .disp :: .wait k :: r ∧
      s.ev.isSome = true) := by
  have hs := h.shape
  rw [hst] at hs
  cases hs with
  | done hr =>
    cases hr with
    | wait _ => exact .inl ⟨_, _, rfl⟩
    | @disp mode s rest kept idle k k' _ =>
      refine .inr ⟨mode, s, rest, kept, idle, k, k', rfl, ?_⟩
      exact (h.frame_slots (mode := mode) (todo := s :: rest) (kept := kept) (idle := idle) (ph := .disp)
        (by rw [hst]; simp)).1 s (by simp)

theorem sees_nonempty (h : Reachable b c) {f : QFrame} (hf : f ∈ c.stack) (hp : isProc f = true) :
    c.emptyQueue = false := by
  have := isProc_mem_procCount hf hp
  have hg := h.guard
  simp only [QCfg.emptyQueue, Bool.and_eq_false_imp]
  intro _
  simp
  omega

theorem empty_consumed (h : Reachable b c) (he : c.emptyQueue = true) :
    c.queue = [] ∧ procCount c.stack = 0 ∧ c.inflight = [] ∧
    (consumedSeqs c.trace).Perm (List.range c.nextSeq) := by
  simp only [QCfg.emptyQueue, Bool.and_eq_true, List.isEmpty_iff, beq_iff_eq] at he
  have hpc : procCount c.stack = 0 := by rw [← h.guard]; exact he.2
  have hin : c.inflight = [] := inflightS_of_procCount_zero hpc
  refine ⟨he.1, hpc, hin, ?_⟩
  have := h.once_perm
  simpa [he.1, hin] using this

theorem peek_result (h : Reachable b c) :
    (c.queue = [] → c.apply .peek = (c, .bool false)) ∧
    (∀ s r, c.queue = s :: r → ∃ e, s.ev = some e ∧ c.apply .peek = (c, .ev e.key e.arg)) := by
  refine ⟨fun hq => by simp [QCfg.apply, hq], ?_⟩
  intro s r hq
  obtain ⟨e, he⟩ := Option.isSome_iff_exists.mp (h.queue_occupied s (by simp [hq]))
  exact ⟨e, he, by simp [QCfg.apply, hq, he]⟩

theorem take_result (h : Reachable b c) :
    (c.queue = [] → c.apply .take = (c, .bool false)) ∧
    (∀ s r, c.queue = s :: r → ∃ e, s.ev = some e ∧
      (c.apply .take).2 = .ev e.key e.arg ∧ (c.apply .take).1.queue = r ∧
      (c.apply .take).1.trace = .consumed e.seq 1 :: c.trace) := by
  refine ⟨fun hq => by simp [QCfg.apply, hq], ?_⟩
  intro s r hq
  obtain ⟨e, he⟩ := Option.isSome_iff_exists.mp (h.queue_occupied s (by simp [hq]))
  exact ⟨e, he, by simp [QCfg.apply, hq, he, QCfg.push]⟩

end Reachable

/-! ### local facts about the processing functions -/

theorem startProc_empty (b : QBeh) (c : QCfg) (mode : PMode) (k : QRes → QProg) (rest : List QFrame)
    (hq : c.queue = []) :
    startProc b c mode k rest =
      { c with stack := .prog (k (.bool false)) :: rest, trace := .res (.bool false) :: c.trace } := by
  simp [startProc, hq]

theorem finishProc_wait (c : QCfg) (mode : PMode) (kept idle : List Slot) (k : QRes → QProg)
    (below : List QFrame) :
    finishProc c mode kept idle (.wait k :: below) =
      { c with
        queue := putBack c.ordered kept c.queue
        free := recycle c.ordered c.free idle
        ec := c.ec - 1
        stack := .prog (k (.bool (procResult mode idle))) :: below
        trace := .res (.bool (procResult mode idle)) :: c.trace } := by
  cases mode <;> rfl

theorem procNext_dispatch (b : QBeh) (c : QCfg) (mode : PMode) (s : Slot) (rest kept idle : List Slot)
    (below : List QFrame) (e : QEvent) (he : s.ev = some e) (hm : mode.hasPred = false) :
    procNext b c mode (s :: rest) kept idle below =
      nextFilter b c e.key e.arg c.filters (.proc mode (s :: rest) kept idle .disp :: below) := by
  cases mode <;> simp [PMode.hasPred] at hm <;> simp [procNext, he]

theorem procNext_pred (b : QBeh) (c : QCfg) (mode : PMode) (p : Cb) (s : Slot)
    (rest kept idle : List Slot) (below : List QFrame) (e : QEvent) (he : s.ev = some e)
    (hm : mode = .ifp p ∨ mode = .untilp p) :
    procNext b c mode (s :: rest) kept idle below =
      { c with
        trace := .call ⟨.pred, e.key, 0, p, e.arg⟩ :: c.trace
        stack := .prog (callProg b c ⟨.pred, e.key, 0, p, e.arg⟩) ::
                 .proc mode (s :: rest) kept idle .pred :: below } := by
  rcases hm with rfl | rfl <;> simp [procNext, he]


theorem startProc_one (b : QBeh) (c : QCfg) (k : QRes → QProg) (rest : List QFrame) (hq : c.queue ≠ []) :
    startProc b c .one k rest =
      procNext b { c with queue := c.queue.drop 1, ec := c.ec + 1 } .one (c.queue.take 1) [] []
        (.wait k :: rest) := by
  simp [startProc, hq]

theorem startProc_whole (b : QBeh) (c : QCfg) (mode : PMode) (k : QRes → QProg) (rest : List QFrame)
    (hq : c.queue ≠ []) (hm : mode ≠ .one) :
    startProc b c mode k rest =
      procNext b { c with queue := [], ec := c.ec + 1 } mode c.queue [] [] (.wait k :: rest) := by
  cases mode <;> simp_all [startProc]

/-- an `enqueue` issued anywhere (in particular by a listener while a processing call runs) puts
    the new event into `queue`; the slot lists of the running processing calls are untouched -/
theorem step_enqueue (b : QBeh) (c : QCfg) (key arg : Nat) (k : QRes → QProg) (rest : List QFrame)
    (hst : c.stack = .prog (.op (.enqueue key arg) k) :: rest) :
    ∃ c', QCfg.step b c = some c' ∧ c'.inflight = c.inflight ∧ c'.nextSeq = c.nextSeq + 1 ∧
      pendS c'.stack = pendS c.stack ∧
      ∃ s, s.ev = some ⟨c.nextSeq, key, arg⟩ ∧ c'.queue = settle c.ordered (c.queue ++ [s]) := by
  simp only [QCfg.step, hst, QCfg.apply]
  cases hf : c.free with
  | nil =>
    refine ⟨_, rfl, ?_, rfl, ?_, _, rfl, rfl⟩
    · simp [QCfg.inflight, hst, inflightS, frameSlots]
    · simp [pendS, framePend]
  | cons s fr =>
    refine ⟨_, rfl, ?_, rfl, ?_, _, rfl, rfl⟩
    · simp [QCfg.inflight, hst, inflightS, frameSlots]
    · simp [pendS, framePend]

end Evp.Q
