import EventppVerif.Q.InvView
/-
  Every step of the queue machine (Q/Machine.lean) is a sequence of abstract view transitions and
  keeps the stack shape; hence every reachable configuration satisfies `QInv`.
-/
namespace Evp.Q
open Evp QCfg

theorem VSteps.single {v w : View} (h : VStep v w) : VSteps v w := .tail (.refl _) h
theorem VSteps.trans {u v w : View} (h1 : VSteps u v) (h2 : VSteps v w) : VSteps u w := by
  induction h2 with
  | refl => exact h1
  | tail _ s ih => exact .tail ih s
theorem VSteps.head {u v w : View} (h1 : VStep u v) (h2 : VSteps v w) : VSteps u w :=
  (VSteps.single h1).trans h2

theorem view_nextListener (b : QBeh) (c : QCfg) (key arg : Nat) (snap : List Entry) (below : List QFrame) :
    view (nextListener b c key arg snap below) = viewS c below := by
  unfold nextListener
  split <;> rfl

theorem view_nextFilter (b : QBeh) (c : QCfg) (key arg : Nat) (snap : List Entry) (below : List QFrame) :
    view (nextFilter b c key arg snap below) = viewS c below := by
  unfold nextFilter
  split
  · exact view_nextListener ..
  · rfl

theorem view_deliver (c : QCfg) (r : QRes) (st : List QFrame) :
    view (c.deliver r st) = viewS c st := by
  unfold deliver
  split <;> rfl

theorem vstep_finishProc (c : QCfg) (mode : PMode) (K todo kept idle : List Slot) (ph : Phase)
    (below : List QFrame) (hK : K = kept ++ todo) :
    VStep (viewS c (.proc mode todo kept idle ph :: below)) (view (finishProc c mode K idle below)) := by
  subst hK
  unfold finishProc
  rw [view_deliver]
  exact VStep.finish (viewS c (.proc mode todo kept idle ph :: below)) todo kept idle (procFrames below) rfl

theorem vsteps_procNext (b : QBeh) (c : QCfg) (mode : PMode) (todo kept idle : List Slot) (ph : Phase)
    (below : List QFrame) :
    VSteps (viewS c (.proc mode todo kept idle ph :: below)) (view (procNext b c mode todo kept idle below)) := by
  unfold procNext
  split
  · exact .single (vstep_finishProc c mode kept [] kept idle ph below (by simp))
  · split
    · exact .single (vstep_finishProc c mode _ _ kept idle ph below rfl)
    · split
      · rw [view_nextFilter]; exact .refl _
      · rw [view_nextFilter]; exact .refl _
      · exact .refl _
      · exact .refl _

theorem vsteps_endDispatch (b : QBeh) (c : QCfg) (below : List QFrame) :
    VSteps (viewS c below) (view (endDispatch b c below)) := by
  unfold endDispatch
  split
  · rename_i mode s rest kept idle below'
    refine VSteps.head ?_ (vsteps_procNext b _ mode rest kept _ .disp below')
    cases he : s.ev with
    | none =>
      have := VStep.clearHead (viewS c (.proc mode (s :: rest) kept idle .disp :: below')) s rest kept idle (procFrames below') rfl
      simp only [he] at this
      exact this
    | some e =>
      have := VStep.clearHead (viewS c (.proc mode (s :: rest) kept idle .disp :: below')) s rest kept idle (procFrames below') rfl
      simp only [he] at this
      exact this
  · rw [view_deliver]; exact .refl _

theorem vsteps_startProc (b : QBeh) (c : QCfg) (mode : PMode) (k : QRes → QProg) (rest : List QFrame) :
    VSteps (viewS c rest) (view (startProc b c mode k rest)) := by
  unfold startProc
  split
  · exact .refl _
  · split
    rename_i todo q hm
    have hq : c.queue = todo ++ q := by
      split at hm
      · cases hm; exact (List.take_append_drop 1 c.queue).symm
      · cases hm; simp
    refine VSteps.head ?_ (vsteps_procNext b _ mode todo [] [] .disp (.wait k :: rest))
    exact VStep.start (viewS c rest) todo q hq

theorem consumedSeqs_clear (q : List Slot) (tr : List QEv) :
    consumedSeqs (((q.filterMap (·.ev)).map (fun e => QEv.consumed e.seq 2)).reverse ++ tr)
      = (seqsOf q).reverse ++ consumedSeqs tr := by
  unfold consumedSeqs seqsOf
  rw [List.filterMap_append, List.filterMap_reverse, List.filterMap_map, List.filterMap_filterMap]
  congr 2
  induction q with
  | nil => rfl
  | cons s q ih =>
    simp only [List.filterMap_cons]
    cases s.ev <;> simp [ih, consumedSeq]

theorem apply_stack (c : QCfg) (cmd : QCmd) : (c.apply cmd).1.stack = c.stack := by
  cases cmd <;> simp only [QCfg.apply] <;> (repeat' split) <;> rfl

theorem vsteps_apply (c : QCfg) (cmd : QCmd) : VSteps (view c) (view (c.apply cmd).1) := by
  cases cmd with
  | enqueue key arg =>
    simp only [QCfg.apply]
    split
    · rename_i s fr hf
      exact .single (VStep.enqFree (view c) s fr key arg hf)
    · rename_i hf
      exact .single (VStep.enqNew (view c) key arg hf)
  | take =>
    simp only [QCfg.apply]
    split
    · split
      · rename_i s r hq _ e he
        exact .single (VStep.take (view c) s r e hq he)
      · exact .refl _
    · exact .refl _
  | clear =>
    simp only [QCfg.apply]
    split
    · exact .refl _
    · have := VStep.clear (view c)
      refine .single ?_
      show VStep (view c) ⟨_, _, _, _, _, _, _, _⟩
      simp only [consumedSeqs_clear]
      exact this
  | _ => simp only [QCfg.apply] <;> (repeat' split) <;> exact .refl _

/-! ### stack shape -/

theorem shape_nextListener (b : QBeh) (c : QCfg) (key arg : Nat) (snap : List Entry) {below : List QFrame}
    (h : COk true below) : StackOk (nextListener b c key arg snap below).stack := by
  unfold nextListener
  split
  · exact .done h
  · exact .prog (.iter h)

theorem shape_nextFilter (b : QBeh) (c : QCfg) (key arg : Nat) (snap : List Entry) {below : List QFrame}
    (h : COk true below) : StackOk (nextFilter b c key arg snap below).stack := by
  unfold nextFilter
  split
  · exact shape_nextListener _ _ _ _ _ h
  · exact .prog (.filt h)

theorem shape_finishProc (c : QCfg) (mode : PMode) (K idle : List Slot) (k : QRes → QProg)
    {k' : List QFrame} (h : COk false k') : StackOk (finishProc c mode K idle (.wait k :: k')).stack :=
  .prog h

theorem shape_procNext (b : QBeh) (c : QCfg) (mode : PMode) (todo kept idle : List Slot)
    (k : QRes → QProg) {k' : List QFrame} (h : COk false k') :
    StackOk (procNext b c mode todo kept idle (.wait k :: k')).stack := by
  unfold procNext
  split
  · exact shape_finishProc _ _ _ _ _ h
  · split
    · exact shape_finishProc _ _ _ _ _ h
    · split
      · exact shape_nextFilter _ _ _ _ _ (.disp h)
      · exact shape_nextFilter _ _ _ _ _ (.disp h)
      · exact .prog (.pred h rfl)
      · exact .prog (.pred h rfl)

theorem shape_endDispatch (b : QBeh) (c : QCfg) {below : List QFrame} (h : COk true below) :
    StackOk (endDispatch b c below).stack := by
  cases h with
  | wait hk => exact .prog hk
  | disp hk => exact shape_procNext _ _ _ _ _ _ _ hk

theorem shape_startProc (b : QBeh) (c : QCfg) (mode : PMode) (k : QRes → QProg) {rest : List QFrame}
    (h : COk false rest) : StackOk (startProc b c mode k rest).stack := by
  unfold startProc
  split
  · exact .prog h
  · split
    exact shape_procNext _ _ _ _ _ _ _ h

/-! ### one machine step -/

theorem view_eq_viewS {c : QCfg} {st : List QFrame} (h : procFrames c.stack = procFrames st) :
    view c = viewS c st := by
  simp [view, viewS, h]

theorem step_inv (b : QBeh) (c c' : QCfg) (hs : StackOk c.stack) (h : step b c = some c') :
    StackOk c'.stack ∧ VSteps (view c) (view c') := by
  generalize hst : c.stack = st at hs
  cases hs with
  | nil => simp [step, hst] at h
  | @done r hr =>
    simp only [step, hst, Option.some.injEq] at h
    subst h
    refine ⟨shape_endDispatch _ _ hr, ?_⟩
    rw [view_eq_viewS (st := r) (by rw [hst]; rfl)]
    exact vsteps_endDispatch _ _ _
  | @prog p k hk =>
    cases p with
    | ret v =>
      cases hk with
      | nil =>
        simp only [step, hst, Option.some.injEq] at h
        subst h
        refine ⟨.nil, ?_⟩
        rw [view_eq_viewS (st := []) (by rw [hst]; rfl)]
        exact .refl _
      | @filt key arg rest cur r hr =>
        simp only [step, hst] at h
        split at h
        · cases h
          refine ⟨shape_nextFilter _ _ _ _ _ hr, ?_⟩
          rw [view_nextFilter, view_eq_viewS (st := r) (by rw [hst]; rfl)]
          exact .refl _
        · cases h
          refine ⟨.done hr, ?_⟩
          rw [view_eq_viewS (st := .done :: r) (by rw [hst]; rfl)]
          exact .refl _
      | @iter key arg rest r hr =>
        simp only [step, hst] at h
        split at h
        · cases h
          refine ⟨shape_nextListener _ _ _ _ _ hr, ?_⟩
          rw [view_nextListener, view_eq_viewS (st := r) (by rw [hst]; rfl)]
          exact .refl _
        · cases h
          refine ⟨.done hr, ?_⟩
          rw [view_eq_viewS (st := .done :: r) (by rw [hst]; rfl)]
          exact .refl _
      | @pred mode s rest kept idle k k' hk' hm =>
        simp only [step, hst] at h
        have hv : view c = viewS c (.proc mode (s :: rest) kept idle .pred :: .wait k :: k') :=
          view_eq_viewS (by rw [hst]; rfl)
        split at h
        · rename_i p e he
          split at h
          · cases h
            refine ⟨shape_nextFilter _ _ _ _ _ (.disp hk'), ?_⟩
            rw [view_nextFilter, hv]
            exact .refl _
          · cases h
            refine ⟨shape_procNext _ _ _ _ _ _ _ hk', ?_⟩
            rw [hv]
            refine VSteps.head ?_ (vsteps_procNext b c _ rest (kept ++ [s]) idle .pred (.wait k :: k'))
            exact VStep.decline _ s rest kept idle _ rfl (by simp [he])
        · rename_i p e he
          split at h
          · cases h
            refine ⟨shape_finishProc _ _ _ _ _ hk', ?_⟩
            rw [hv]
            exact .single (vstep_finishProc c _ _ (s :: rest) kept idle .pred _ rfl)
          · cases h
            refine ⟨shape_nextFilter _ _ _ _ _ (.disp hk'), ?_⟩
            rw [view_nextFilter, hv]
            exact .refl _
        · cases h
    | op cmd kk =>
      have hv : view c = viewS c k := view_eq_viewS (by rw [hst]; rfl)
      have happ : ∀ cmd', step b c = (let (c1, r) := c.apply cmd'
            some { c1 with stack := .prog (kk r) :: k, trace := .res r :: c1.trace }) →
          StackOk c'.stack ∧ VSteps (view c) (view c') := by
        intro cmd' he
        rw [he] at h
        simp only [Option.some.injEq] at h
        subst h
        refine ⟨.prog hk, ?_⟩
        have h1 := vsteps_apply c cmd'
        have h2 := apply_stack c cmd'
        refine VSteps.trans h1 ?_
        rw [view_eq_viewS (c := (c.apply cmd').1) (st := k) (by rw [h2, hst]; rfl)]
        exact .refl _
      cases cmd with
      | dispatch key arg =>
        simp only [step, hst, Option.some.injEq] at h
        subst h
        refine ⟨shape_nextFilter _ _ _ _ _ (.wait hk), ?_⟩
        rw [view_nextFilter, hv]
        exact .refl _
      | process =>
        simp only [step, hst, Option.some.injEq] at h
        subst h
        exact ⟨shape_startProc _ _ _ _ hk, hv ▸ vsteps_startProc _ _ _ _ _⟩
      | processOne =>
        simp only [step, hst, Option.some.injEq] at h
        subst h
        exact ⟨shape_startProc _ _ _ _ hk, hv ▸ vsteps_startProc _ _ _ _ _⟩
      | processIf p =>
        simp only [step, hst, Option.some.injEq] at h
        subst h
        exact ⟨shape_startProc _ _ _ _ hk, hv ▸ vsteps_startProc _ _ _ _ _⟩
      | processUntil p =>
        simp only [step, hst, Option.some.injEq] at h
        subst h
        exact ⟨shape_startProc _ _ _ _ hk, hv ▸ vsteps_startProc _ _ _ _ _⟩
      | _ => exact happ _ (by simp only [step, hst]; rfl)


/-! ### reachable configurations -/

theorem init_inv {c : QCfg} (h : Init c) : QInv c := by
  obtain ⟨hq, hf, hec, hseq, hslot, htr, p, hst⟩ := h
  refine ⟨by rw [hst]; exact .prog .nil, ?_⟩
  have hpf : procFrames c.stack = [] := by rw [hst]; rfl
  refine ⟨?_, ?_, ?_, ?_, ?_, ?_, ?_⟩ <;> simp [view, hq, hf, hec, hseq, hslot, htr, hpf, consumedSeqs]

theorem QInv.step {b : QBeh} {c c' : QCfg} (h : QInv c) (hs : QCfg.step b c = some c') : QInv c' :=
  have := step_inv b c c' h.shape hs
  ⟨this.1, h.vinv.steps this.2⟩

theorem Reachable.inv {b : QBeh} {c : QCfg} (h : Reachable b c) : QInv c := by
  induction h with
  | init h => exact init_inv h
  | step _ hs ih => exact ih.step hs

theorem Reachable.runN {b : QBeh} (n : Nat) {c : QCfg} (h : Reachable b c) :
    Reachable b (QCfg.runN b n c).1 := by
  induction n generalizing c with
  | zero => exact h
  | succ n ih =>
    unfold QCfg.runN
    split
    · exact h
    · rename_i c' hs
      exact ih (.step h hs)

theorem runN_succ_of_step {b : QBeh} {c' : QCfg} (n : Nat) (c0 : QCfg)
    (hs : QCfg.step b (QCfg.runN b n c0).1 = some c') : (QCfg.runN b (n + 1) c0).1 = c' := by
  induction n generalizing c0 with
  | zero =>
    have : QCfg.step b c0 = some c' := hs
    simp [QCfg.runN, this]
  | succ n ih =>
    rw [QCfg.runN]
    rw [QCfg.runN] at hs
    split
    · rename_i hn
      simp only [hn] at hs
      cases hs
    · rename_i c1 h1
      simp only [h1] at hs
      exact ih c1 hs

/-- reachability in the `runN` formulation -/
theorem reachable_iff {b : QBeh} {c : QCfg} :
    Reachable b c ↔ ∃ n c0, Init c0 ∧ (QCfg.runN b n c0).1 = c := by
  constructor
  · intro h
    induction h with
    | init h => exact ⟨0, _, h, rfl⟩
    | @step c c' _ hs ih =>
      obtain ⟨n, c0, h0, hr⟩ := ih
      subst hr
      exact ⟨n + 1, c0, h0, runN_succ_of_step n c0 hs⟩
  · rintro ⟨n, c0, h0, rfl⟩
    exact (Reachable.init h0).runN n

/-! ### from views back to configurations -/

theorem inflightV_procFrames (st : List QFrame) : inflightV (procFrames st) = inflightS st := by
  induction st with
  | nil => rfl
  | cons f st ih =>
    cases f <;> simp_all [procFrames, List.filterMap_cons, toPFrame, inflightS, frameSlots]

theorem pendV_procFrames (st : List QFrame) : pendV (procFrames st) = pendS st := by
  induction st with
  | nil => rfl
  | cons f st ih =>
    cases f <;> simp_all [procFrames, List.filterMap_cons, toPFrame, pendS, framePend]

theorem length_procFrames (st : List QFrame) : (procFrames st).length = procCount st := by
  induction st with
  | nil => rfl
  | cons f st ih =>
    cases f <;> simp_all [procFrames, List.filterMap_cons, List.filter_cons, toPFrame, procCount, isProc]

theorem mem_procFrames {st : List QFrame} {mode : PMode} {todo kept idle : List Slot} {ph : Phase}
    (h : QFrame.proc mode todo kept idle ph ∈ st) : (⟨todo, kept, idle⟩ : PFrame) ∈ procFrames st :=
  List.mem_filterMap.mpr ⟨_, h, rfl⟩

end Evp.Q
