import EventppVerif.Q.Inv
/-
  The abstract transitions of a view (`VStep`) preserve the view invariant (`VInv`).
  Pure list reasoning; nothing about programs or stacks.
-/
namespace Evp.Q
open Evp

/-! ### `settle`, `putBack`, `recycle` are permutations -/

theorem settle_perm (o : Option Bool) (l : List Slot) : (QCfg.settle o l).Perm l := by
  cases o with
  | none => exact List.Perm.refl _
  | some asc => exact List.mergeSort_perm _ _

@[simp] theorem settle_none (l : List Slot) : QCfg.settle none l = l := rfl

theorem putBack_perm (o : Option Bool) (K q : List Slot) : (putBack o K q).Perm (K ++ q) := by
  unfold putBack
  split
  · rename_i h
    have : K = [] := by simpa using h
    subst this; simp
  · exact settle_perm _ _

theorem recycle_perm (o : Option Bool) (f i : List Slot) : (recycle o f i).Perm (f ++ i) := by
  unfold recycle
  split
  · rename_i h
    have : i = [] := by simpa using h
    subst this; simp
  · exact settle_perm _ _

@[simp] theorem putBack_none (K q : List Slot) : putBack none K q = K ++ q := by
  unfold putBack
  split
  · rename_i h
    have : K = [] := by simpa using h
    subst this; simp
  · rfl

@[simp] theorem mem_settle {o : Option Bool} {l : List Slot} {s : Slot} :
    s ∈ QCfg.settle o l ↔ s ∈ l := (settle_perm o l).mem_iff

@[simp] theorem mem_putBack {o : Option Bool} {K q : List Slot} {s : Slot} :
    s ∈ putBack o K q ↔ s ∈ K ∨ s ∈ q := by
  rw [(putBack_perm o K q).mem_iff, List.mem_append]

@[simp] theorem mem_recycle {o : Option Bool} {f i : List Slot} {s : Slot} :
    s ∈ recycle o f i ↔ s ∈ f ∨ s ∈ i := by
  rw [(recycle_perm o f i).mem_iff, List.mem_append]

/-! ### `sidsOf`, `seqsOf` -/

@[simp] theorem sidsOf_nil : sidsOf [] = [] := rfl
@[simp] theorem sidsOf_cons (s : Slot) (l : List Slot) : sidsOf (s :: l) = s.sid :: sidsOf l := rfl
@[simp] theorem sidsOf_append (l m : List Slot) : sidsOf (l ++ m) = sidsOf l ++ sidsOf m := by
  simp [sidsOf]
@[simp] theorem seqsOf_nil : seqsOf [] = [] := rfl
@[simp] theorem seqsOf_append (l m : List Slot) : seqsOf (l ++ m) = seqsOf l ++ seqsOf m := by
  simp [seqsOf]
theorem seqsOf_cons_some {s : Slot} {e : QEvent} (h : s.ev = some e) (l : List Slot) :
    seqsOf (s :: l) = e.seq :: seqsOf l := by
  simp [seqsOf, h]
theorem seqsOf_cons_none {s : Slot} (h : s.ev = none) (l : List Slot) :
    seqsOf (s :: l) = seqsOf l := by
  simp [seqsOf, h]
@[simp] theorem seqsOf_cons_mk_some (i : Nat) (e : QEvent) (l : List Slot) :
    seqsOf (⟨i, some e⟩ :: l) = e.seq :: seqsOf l := seqsOf_cons_some rfl l
@[simp] theorem seqsOf_cons_clr (s : Slot) (l : List Slot) : seqsOf (clr s :: l) = seqsOf l :=
  seqsOf_cons_none rfl l
@[simp] theorem seqsOf_map_clr (l : List Slot) : seqsOf (l.map clr) = [] := by
  induction l with
  | nil => rfl
  | cons s l ih => simp [ih]
@[simp] theorem sidsOf_map_clr (l : List Slot) : sidsOf (l.map clr) = sidsOf l := by
  simp [sidsOf, clr]
@[simp] theorem clr_sid (s : Slot) : (clr s).sid = s.sid := rfl
@[simp] theorem clr_ev (s : Slot) : (clr s).ev = none := rfl

theorem seqsOf_of_empty {l : List Slot} (h : ∀ s ∈ l, s.ev = none) : seqsOf l = [] := by
  induction l with
  | nil => rfl
  | cons s l ih =>
    rw [seqsOf_cons_none (h s (by simp))]
    exact ih (fun t ht => h t (by simp [ht]))

theorem count_sidsOf_perm {l m : List Slot} (h : l.Perm m) (a : Nat) :
    (sidsOf l).count a = (sidsOf m).count a := (h.map _).count_eq a

theorem count_seqsOf_perm {l m : List Slot} (h : l.Perm m) (a : Nat) :
    (seqsOf l).count a = (seqsOf m).count a := (h.filterMap _).count_eq a

@[simp] theorem count_sidsOf_settle (o : Option Bool) (l : List Slot) (a : Nat) :
    (sidsOf (QCfg.settle o l)).count a = (sidsOf l).count a := count_sidsOf_perm (settle_perm o l) a
@[simp] theorem count_seqsOf_settle (o : Option Bool) (l : List Slot) (a : Nat) :
    (seqsOf (QCfg.settle o l)).count a = (seqsOf l).count a := count_seqsOf_perm (settle_perm o l) a
@[simp] theorem count_sidsOf_putBack (o : Option Bool) (K q : List Slot) (a : Nat) :
    (sidsOf (putBack o K q)).count a = (sidsOf K).count a + (sidsOf q).count a := by
  rw [count_sidsOf_perm (putBack_perm o K q) a]; simp
@[simp] theorem count_seqsOf_putBack (o : Option Bool) (K q : List Slot) (a : Nat) :
    (seqsOf (putBack o K q)).count a = (seqsOf K).count a + (seqsOf q).count a := by
  rw [count_seqsOf_perm (putBack_perm o K q) a]; simp
@[simp] theorem count_sidsOf_recycle (o : Option Bool) (f i : List Slot) (a : Nat) :
    (sidsOf (recycle o f i)).count a = (sidsOf f).count a + (sidsOf i).count a := by
  rw [count_sidsOf_perm (recycle_perm o f i) a]; simp
@[simp] theorem count_seqsOf_recycle (o : Option Bool) (f i : List Slot) (a : Nat) :
    (seqsOf (recycle o f i)).count a = (seqsOf f).count a + (seqsOf i).count a := by
  rw [count_seqsOf_perm (recycle_perm o f i) a]; simp

@[simp] theorem inflightV_nil : inflightV [] = [] := rfl
@[simp] theorem inflightV_cons (f : PFrame) (fs : List PFrame) :
    inflightV (f :: fs) = f.todo ++ f.kept ++ f.idle ++ inflightV fs := by
  simp [inflightV]
@[simp] theorem pendV_nil : pendV [] = [] := rfl
@[simp] theorem pendV_cons (f : PFrame) (fs : List PFrame) :
    pendV (f :: fs) = pendV fs ++ (f.kept ++ f.todo) := rfl

theorem pendV_sub_inflightV (fs : List PFrame) : ∀ s ∈ pendV fs, s ∈ inflightV fs := by
  induction fs with
  | nil => simp
  | cons f fs ih =>
    intro s hs
    simp only [pendV_cons, List.mem_append] at hs
    simp only [inflightV_cons, List.mem_append]
    rcases hs with h | h | h
    · exact Or.inr (ih s h)
    · exact Or.inl (Or.inl (Or.inr h))
    · exact Or.inl (Or.inl (Or.inl h))

theorem mem_seqsOf {l : List Slot} {n : Nat} :
    n ∈ seqsOf l ↔ ∃ s ∈ l, ∃ e, s.ev = some e ∧ e.seq = n := by
  simp [seqsOf, List.mem_filterMap]

theorem seqsOf_mono {l m : List Slot} (h : ∀ s ∈ l, s ∈ m) : ∀ n ∈ seqsOf l, n ∈ seqsOf m := by
  intro n hn
  rw [mem_seqsOf] at hn ⊢
  obtain ⟨s, hs, e, he⟩ := hn
  exact ⟨s, h s hs, e, he⟩

/-- every pending sequence number is below `nextSeq` -/
theorem VInv.pend_lt {v : View} (h : VInv v) :
    ∀ n ∈ seqsOf (pendV v.frames ++ v.queue), n < v.nextSeq := by
  intro n hn
  have : n ∈ seqsOf v.queue ++ seqsOf (inflightV v.frames) ++ v.cons := by
    rw [seqsOf_append, List.mem_append] at hn
    simp only [List.mem_append]
    rcases hn with hn | hn
    · exact Or.inl (Or.inr (seqsOf_mono (pendV_sub_inflightV _) n hn))
    · exact Or.inl (Or.inl hn)
  simpa using (h.once.mem_iff.mp this)


/-! ### preservation, one lemma per abstract transition -/

theorem VInv.enqFree {v : View} (h : VInv v) (s : Slot) (fr : List Slot) (key arg : Nat)
    (hf : v.free = s :: fr) :
    VInv { v with
        free := fr
        queue := QCfg.settle v.ordered (v.queue ++ [{ s with ev := some ⟨v.nextSeq, key, arg⟩ }])
        nextSeq := v.nextSeq + 1 } := by
  have hlt := h.pend_lt
  obtain ⟨h1, h2, h3, h4, h5, h6, h7⟩ := h
  refine ⟨?_, ?_, h3, ?_, ?_, ?_, h7⟩
  · intro t ht
    simp only [mem_settle, List.mem_append, List.mem_singleton] at ht
    rcases ht with ht | rfl
    · exact h1 t ht
    · rfl
  · intro t ht; exact h2 t (by simp [hf, ht])
  · rw [List.perm_iff_count] at h4 ⊢
    intro a
    have := h4 a
    simp [hf, List.count_cons] at this ⊢
    omega
  · rw [List.perm_iff_count] at h5 ⊢
    intro a
    have := h5 a
    simp [List.count_cons, List.range_succ] at this ⊢
    omega
  · intro ho
    simp only at ho
    simp only [ho, settle_none]
    rw [← List.append_assoc, seqsOf_append, List.pairwise_append]
    refine ⟨h6 ho, by simp, ?_⟩
    intro a ha b hb
    simp at hb
    subst hb
    exact hlt a ha

theorem VInv.enqNew {v : View} (h : VInv v) (key arg : Nat) :
    VInv { v with
        queue := QCfg.settle v.ordered (v.queue ++ [⟨v.nextSlot, some ⟨v.nextSeq, key, arg⟩⟩])
        nextSlot := v.nextSlot + 1
        nextSeq := v.nextSeq + 1 } := by
  have hlt := h.pend_lt
  obtain ⟨h1, h2, h3, h4, h5, h6, h7⟩ := h
  refine ⟨?_, h2, h3, ?_, ?_, ?_, h7⟩
  · intro t ht
    simp only [mem_settle, List.mem_append, List.mem_singleton] at ht
    rcases ht with ht | rfl
    · exact h1 t ht
    · rfl
  · rw [List.perm_iff_count] at h4 ⊢
    intro a
    have := h4 a
    simp [List.count_cons, List.range_succ] at this ⊢
    omega
  · rw [List.perm_iff_count] at h5 ⊢
    intro a
    have := h5 a
    simp [List.count_cons, List.range_succ] at this ⊢
    omega
  · intro ho
    simp only at ho
    simp only [ho, settle_none]
    rw [← List.append_assoc, seqsOf_append, List.pairwise_append]
    refine ⟨h6 ho, by simp, ?_⟩
    intro a ha b hb
    simp at hb
    subst hb
    exact hlt a ha

theorem pairwise_seqsOf_sublist {l m : List Slot} (hs : l.Sublist m)
    (h : (seqsOf m).Pairwise (· < ·)) : (seqsOf l).Pairwise (· < ·) :=
  h.sublist (hs.filterMap _)

theorem VInv.take {v : View} (h : VInv v) (s : Slot) (r : List Slot) (e : QEvent)
    (hq : v.queue = s :: r) (he : s.ev = some e) :
    VInv { v with
        queue := r
        free := QCfg.settle v.ordered (v.free ++ [clr s])
        cons := e.seq :: v.cons } := by
  obtain ⟨h1, h2, h3, h4, h5, h6, h7⟩ := h
  refine ⟨?_, ?_, h3, ?_, ?_, ?_, h7⟩
  · intro t ht; exact h1 t (by simp [hq, ht])
  · intro t ht
    simp only [mem_settle, List.mem_append, List.mem_singleton] at ht
    rcases ht with ht | rfl
    · exact h2 t ht
    · rfl
  · rw [List.perm_iff_count] at h4 ⊢
    intro a
    have := h4 a
    simp [hq, List.count_cons] at this ⊢
    omega
  · rw [List.perm_iff_count] at h5 ⊢
    intro a
    have := h5 a
    simp [hq, List.count_cons, seqsOf_cons_some he] at this ⊢
    omega
  · intro ho
    refine pairwise_seqsOf_sublist ?_ (h6 ho)
    rw [hq]
    exact List.Sublist.append_left (List.sublist_cons_self _ _) _

theorem VInv.clear {v : View} (h : VInv v) :
    VInv { v with
        queue := []
        free := QCfg.settle v.ordered (v.free ++ v.queue.map clr)
        cons := (seqsOf v.queue).reverse ++ v.cons } := by
  obtain ⟨h1, h2, h3, h4, h5, h6, h7⟩ := h
  refine ⟨by simp, ?_, h3, ?_, ?_, ?_, h7⟩
  · intro t ht
    simp only [mem_settle, List.mem_append, List.mem_map] at ht
    rcases ht with ht | ⟨u, _, rfl⟩
    · exact h2 t ht
    · rfl
  · rw [List.perm_iff_count] at h4 ⊢
    intro a
    have := h4 a
    simp at this ⊢
    omega
  · rw [List.perm_iff_count] at h5 ⊢
    intro a
    have := h5 a
    simp at this ⊢
    omega
  · intro ho
    refine pairwise_seqsOf_sublist ?_ (h6 ho)
    simp

theorem VInv.start {v : View} (h : VInv v) (todo q : List Slot) (hq : v.queue = todo ++ q) :
    VInv { v with queue := q, ec := v.ec + 1, frames := ⟨todo, [], []⟩ :: v.frames } := by
  obtain ⟨h1, h2, h3, h4, h5, h6, h7⟩ := h
  refine ⟨?_, h2, ?_, ?_, ?_, ?_, ?_⟩
  · intro t ht; exact h1 t (by simp [hq, ht])
  · intro f hf
    simp only [List.mem_cons] at hf
    rcases hf with rfl | hf
    · exact ⟨fun t ht => h1 t (by simp [hq, ht]), by simp, by simp⟩
    · exact h3 f hf
  · rw [List.perm_iff_count] at h4 ⊢
    intro a
    have := h4 a
    simp [hq] at this ⊢
    omega
  · rw [List.perm_iff_count] at h5 ⊢
    intro a
    have := h5 a
    simp [hq] at this ⊢
    omega
  · intro ho
    have := h6 ho
    simpa [hq] using this
  · simp [h7]

theorem VInv.finish {v : View} (h : VInv v) (todo kept idle : List Slot) (fs : List PFrame)
    (hf : v.frames = ⟨todo, kept, idle⟩ :: fs) :
    VInv { v with
        queue := putBack v.ordered (kept ++ todo) v.queue
        free := recycle v.ordered v.free idle
        ec := v.ec - 1
        frames := fs } := by
  obtain ⟨h1, h2, h3, h4, h5, h6, h7⟩ := h
  have hF := h3 ⟨todo, kept, idle⟩ (by simp [hf])
  refine ⟨?_, ?_, ?_, ?_, ?_, ?_, ?_⟩
  · intro t ht
    simp only [mem_putBack, List.mem_append] at ht
    rcases ht with (ht | ht) | ht
    · exact hF.2.1 t ht
    · exact hF.1 t ht
    · exact h1 t ht
  · intro t ht
    simp only [mem_recycle] at ht
    rcases ht with ht | ht
    · exact h2 t ht
    · exact hF.2.2 t ht
  · intro f hf'; exact h3 f (by simp [hf, hf'])
  · rw [List.perm_iff_count] at h4 ⊢
    intro a
    have := h4 a
    simp [hf] at this ⊢
    omega
  · rw [List.perm_iff_count] at h5 ⊢
    intro a
    have := h5 a
    simp [hf, seqsOf_of_empty hF.2.2] at this ⊢
    omega
  · intro ho
    have := h6 ho
    simp only at ho
    simpa [hf, ho] using this
  · simp [h7, hf]

theorem VInv.clearHead {v : View} (h : VInv v) (s : Slot) (rest kept idle : List Slot)
    (fs : List PFrame) (hf : v.frames = ⟨s :: rest, kept, idle⟩ :: fs) :
    VInv { v with
        cons := (match s.ev with | some e => e.seq :: v.cons | none => v.cons)
        frames := ⟨rest, kept, idle ++ [clr s]⟩ :: fs } := by
  obtain ⟨h1, h2, h3, h4, h5, h6, h7⟩ := h
  have hF := h3 ⟨s :: rest, kept, idle⟩ (by simp [hf])
  refine ⟨h1, h2, ?_, ?_, ?_, ?_, ?_⟩
  · intro f hf'
    simp only [List.mem_cons] at hf'
    rcases hf' with rfl | hf'
    · refine ⟨fun t ht => hF.1 t (by simp [ht]), hF.2.1, ?_⟩
      intro t ht
      simp only [List.mem_append, List.mem_singleton] at ht
      rcases ht with ht | rfl
      · exact hF.2.2 t ht
      · rfl
    · exact h3 f (by simp [hf, hf'])
  · rw [List.perm_iff_count] at h4 ⊢
    intro a
    have := h4 a
    simp [hf, List.count_cons] at this ⊢
    omega
  · rw [List.perm_iff_count] at h5 ⊢
    intro a
    have := h5 a
    cases he : s.ev with
    | none =>
      simp [hf, seqsOf_cons_none he] at this ⊢
      omega
    | some e =>
      simp [hf, seqsOf_cons_some he, List.count_cons] at this ⊢
      omega
  · intro ho
    refine pairwise_seqsOf_sublist ?_ (h6 ho)
    simp only [hf, pendV_cons]
    refine List.Sublist.append_right ?_ _
    refine List.Sublist.append_left ?_ _
    exact List.Sublist.append_left (List.sublist_cons_self _ _) _
  · simp [h7, hf]

theorem VInv.decline {v : View} (h : VInv v) (s : Slot) (rest kept idle : List Slot)
    (fs : List PFrame) (hf : v.frames = ⟨s :: rest, kept, idle⟩ :: fs) :
    VInv { v with frames := ⟨rest, kept ++ [s], idle⟩ :: fs } := by
  obtain ⟨h1, h2, h3, h4, h5, h6, h7⟩ := h
  have hF := h3 ⟨s :: rest, kept, idle⟩ (by simp [hf])
  refine ⟨h1, h2, ?_, ?_, ?_, ?_, ?_⟩
  · intro f hf'
    simp only [List.mem_cons] at hf'
    rcases hf' with rfl | hf'
    · refine ⟨fun t ht => hF.1 t (by simp [ht]), ?_, hF.2.2⟩
      intro t ht
      simp only [List.mem_append, List.mem_singleton] at ht
      rcases ht with ht | rfl
      · exact hF.2.1 t ht
      · exact hF.1 t (by simp)
    · exact h3 f (by simp [hf, hf'])
  · rw [List.perm_iff_count] at h4 ⊢
    intro a
    have := h4 a
    simp [hf, List.count_cons] at this ⊢
    omega
  · rw [List.perm_iff_count] at h5 ⊢
    intro a
    have := h5 a
    obtain ⟨e, he⟩ := Option.isSome_iff_exists.mp (hF.1 s (by simp))
    simp [hf, seqsOf_cons_some he, List.count_cons] at this ⊢
    omega
  · intro ho
    have := h6 ho
    simpa [hf] using this
  · simp [h7, hf]

theorem VInv.step {v w : View} (h : VInv v) (hs : VStep v w) : VInv w := by
  cases hs with
  | enqFree s fr key arg hf => exact h.enqFree s fr key arg hf
  | enqNew key arg hf => exact h.enqNew key arg
  | take s r e hq he => exact h.take s r e hq he
  | clear => exact h.clear
  | start todo q hq => exact h.start todo q hq
  | finish todo kept idle fs hf => exact h.finish todo kept idle fs hf
  | clearHead s rest kept idle fs hf => exact h.clearHead s rest kept idle fs hf
  | decline s rest kept idle fs hf hs => exact h.decline s rest kept idle fs hf


theorem VInv.steps {v w : View} (h : VInv v) (hs : VSteps v w) : VInv w := by
  induction hs with
  | refl => exact h
  | tail _ s ih => exact ih.step s

end Evp.Q
