import EventppVerif.CL.Spec
/-
  Model of `EventDispatcher` / `EventQueue` (eventdispatcher.h, eventqueue.h, mixins/mixinfilter.h,
  utilities/orderedqueuelist.h) as a small-step machine with an explicit frame stack.

  Layering: the per-event listener lists and the filter list are *Spec-level* callback lists
  (`SList` with snapshot iteration that skips removed entries) — that the real pointer lists
  behave like this is property C02, proved in CL/.  What is modelled at implementation level
  here is the queue: slots (`BufferedItem`) that are filled, spliced between `queueList`,
  `freeList` and the per-call `tempList`/`idleList`, cleared and recycled; the
  `queueEmptyCounter` guard; the put-back of `processIf`/`processUntil`; the re-sort of
  `OrderedQueueList`; the filter phase of `directDispatch`; the `CanContinueInvoking` policy asked
  after each listener (`QBeh.cont`).

  Listeners, filters and predicates run arbitrary programs (`QProg`) that may issue any
  command, to any nesting depth.
-/
namespace Evp.Q
open Evp

structure QEvent where
  /-- ghost: enqueue sequence number, unique per event -/
  seq : Nat
  key : Nat
  arg : Nat
deriving DecidableEq, Repr

/-- `BufferedItem<QueuedEvent>`: `ev = none` ⇔ `dtor == nullptr` -/
structure Slot where
  sid : Nat
  ev : Option QEvent
deriving DecidableEq, Repr

inductive QRes
  | unit
  | bool (b : Bool)
  | handle (h : Hd)
  | ev (key arg : Nat)
deriving DecidableEq, Repr

inductive QCmd
  | listen (key : Nat) (cb : Cb)
  | listenFront (key : Nat) (cb : Cb)
  | listenBefore (key : Nat) (cb : Cb) (before : Hd)
  | unlisten (key : Nat) (h : Hd)
  | hasAny (key : Nat)
  | dispatch (key arg : Nat)
  | enqueue (key arg : Nat)
  | process
  | processOne
  | processIf (pred : Cb)
  | processUntil (pred : Cb)
  | peek
  | take
  | clear
  | emptyq
  | addFilter (f : Cb)
  | removeFilter (h : Hd)
deriving DecidableEq, Repr

inductive QProg
  | ret (verdict : Bool)
  | op (c : QCmd) (k : QRes → QProg)

inductive CallKind | listener | filter | pred
deriving DecidableEq, Repr

structure QCall where
  kind : CallKind
  key : Nat
  h : Hd
  cb : Cb
  arg : Nat
deriving DecidableEq, Repr

inductive QEv
  | call (c : QCall)
  | res (r : QRes)
  /-- ghost: the event with this sequence number left the queue for good
      (0 = dispatched, 1 = taken, 2 = cleared) -/
  | consumed (seq : Nat) (how : Nat)
deriving DecidableEq, Repr

def QEv.isCallOf (cb : Cb) : QEv → Bool
  | .call c => c.cb == cb
  | _ => false

def countCalls (tr : List QEv) (cb : Cb) : Nat := (tr.filter (QEv.isCallOf cb)).length

/-- behaviour of listeners / filters / predicates, and how a filter rewrites the argument -/
structure QBeh where
  run : QCall → Nat → QProg
  rewrite : Cb → Nat → Nat
  /-- the `CanContinueInvoking` policy as a function of the argument the listeners got: evaluated
      after each listener returns; `false` ends the dispatch.  The default policy is constantly `true`. -/
  cont : Nat → Bool := fun _ => true

inductive PMode | all | one | ifp (p : Cb) | untilp (p : Cb)
deriving DecidableEq, Repr

inductive Phase | pred | disp
deriving DecidableEq, Repr

inductive QFrame
  | prog (p : QProg)
  | wait (k : QRes → QProg)
  /-- filter phase of a dispatch: filter `cur` is running, `rest` is the remaining snapshot -/
  | filt (key arg : Nat) (rest : List Entry) (cur : Cb)
  /-- listener phase of a dispatch -/
  | iter (key arg : Nat) (rest : List Entry)
  /-- a processing call: the head of `todo` is the slot being examined / dispatched -/
  | proc (mode : PMode) (todo kept idle : List Slot) (phase : Phase)
  /-- the dispatch above has just ended (no more listeners, a filter blocked it, or the
      `CanContinueInvoking` policy stopped it after a listener) -/
  | done

structure QCfg where
  lists : Store SList := {}
  filters : SList := []
  queue : List Slot := []
  free : List Slot := []
  /-- `queueEmptyCounter` -/
  ec : Nat := 0
  /-- `OrderedQueueList` policy: `none` = `std::list`, `some true` = ascending by event key,
      `some false` = descending -/
  ordered : Option Bool := none
  /-- number of event keys of the world (only used by `foreign`) -/
  nkeys : Nat := 1
  nextId : Nat := 0
  nextSeq : Nat := 0
  nextSlot : Nat := 0
  trace : List QEv := []
  stack : List QFrame := []

namespace QCfg

/-- `OrderedQueueList::doSort` comparator turned into `≤` (empty slots first) -/
def slotLe (asc : Bool) (a b : Slot) : Bool :=
  match a.ev, b.ev with
  | none, _ => true
  | some _, none => false
  | some x, some y => if asc then decide (x.key ≤ y.key) else decide (y.key ≤ x.key)

/-- what `splice` leaves behind: plain for `std::list`, stably re-sorted for `OrderedQueueList` -/
def settle (ord : Option Bool) (l : List Slot) : List Slot :=
  match ord with
  | none => l
  | some asc => l.mergeSort (slotLe asc)

/-- `h` is currently a listener of another event: using it for event `key` is outside every
    property; the machine skips the command and so does the harness. -/
def foreign (c : QCfg) (key : Nat) (h : Hd) : Bool :=
  (List.range c.nkeys).any (fun k => k != key && (c.lists k).present h)

def emptyQueue (c : QCfg) : Bool := c.queue.isEmpty && c.ec == 0

def push (c : QCfg) (e : QEv) : QCfg := { c with trace := e :: c.trace }

/-- hand a result to the suspended program below -/
def deliver (c : QCfg) (r : QRes) : List QFrame → QCfg
  | .wait k :: rest => { c with stack := .prog (k r) :: rest, trace := .res r :: c.trace }
  | rest => { c with stack := rest }

def callProg (b : QBeh) (c : QCfg) (call : QCall) : QProg := b.run call (countCalls c.trace call.cb)

/-- end of a processing call: put the kept slots back in front, recycle the idle ones, drop the
    guard, report -/
def finishProc (c : QCfg) (mode : PMode) (kept idle : List Slot) (below : List QFrame) : QCfg :=
  let q := if kept.isEmpty then c.queue else settle c.ordered (kept ++ c.queue)
  let f := if idle.isEmpty then c.free else settle c.ordered (c.free ++ idle)
  let r := match mode with
    | .all | .one => true
    | .ifp _ | .untilp _ => !idle.isEmpty
  ({ c with queue := q, free := f, ec := c.ec - 1 }).deliver (.bool r) below

/-- continue with the next listener of a dispatch, or end the dispatch -/
def nextListener (b : QBeh) (c : QCfg) (key arg : Nat) (snap : List Entry) (below : List QFrame) : QCfg :=
  match snap.dropWhile (fun e => !(c.lists key).present e.id) with
  | [] => { c with stack := .done :: below }
  | e :: es =>
    let call : QCall := ⟨.listener, key, e.id, e.cb, arg⟩
    { c with trace := .call call :: c.trace
             stack := .prog (callProg b c call) :: .iter key arg es :: below }

/-- continue with the next filter, or start the listeners -/
def nextFilter (b : QBeh) (c : QCfg) (key arg : Nat) (snap : List Entry) (below : List QFrame) : QCfg :=
  match snap.dropWhile (fun e => !c.filters.present e.id) with
  | [] => nextListener b c key arg (c.lists key) below
  | e :: es =>
    let call : QCall := ⟨.filter, key, e.id, e.cb, arg⟩
    { c with trace := .call call :: c.trace
             stack := .prog (callProg b c call) :: .filt key arg es e.cb :: below }

/-- examine the head of `todo` of a processing call -/
def procNext (b : QBeh) (c : QCfg) (mode : PMode) (todo kept idle : List Slot) (below : List QFrame) : QCfg :=
  match todo with
  | [] => finishProc c mode kept idle below
  | s :: rest =>
    match s.ev with
    | none => finishProc c mode (kept ++ s :: rest) idle below  -- unreachable: slot discipline
    | some e =>
      match mode with
      | .all | .one =>
        nextFilter b c e.key e.arg c.filters (.proc mode (s :: rest) kept idle .disp :: below)
      | .ifp p | .untilp p =>
        let call : QCall := ⟨.pred, e.key, 0, p, e.arg⟩
        { c with trace := .call call :: c.trace
                 stack := .prog (callProg b c call) :: .proc mode (s :: rest) kept idle .pred :: below }

/-- the dispatch that was running has ended; `below` is what it returns to -/
def endDispatch (b : QBeh) (c : QCfg) (below : List QFrame) : QCfg :=
  match below with
  | .proc mode (s :: rest) kept idle .disp :: below' =>
    -- `item.clear()`, then the slot waits in tempList/idleList for recycling
    let c' := match s.ev with
      | some e => c.push (.consumed e.seq 0)
      | none => c
    procNext b c' mode rest kept (idle ++ [{ s with ev := none }]) below'
  | _ => c.deliver .unit below

def take1 (c : QCfg) : Option (Slot × List Slot) :=
  match c.queue with
  | [] => none
  | s :: r => some (s, r)

def apply (c : QCfg) : QCmd → QCfg × QRes
  | .listen key cb =>
    ({ c with lists := upd c.lists key ((c.lists key).append c.nextId cb), nextId := c.nextId + 1 }, .handle c.nextId)
  | .listenFront key cb =>
    ({ c with lists := upd c.lists key ((c.lists key).prepend c.nextId cb), nextId := c.nextId + 1 }, .handle c.nextId)
  | .listenBefore key cb h =>
    if c.foreign key h then (c, .unit) else
    ({ c with lists := upd c.lists key ((c.lists key).insert c.nextId cb h), nextId := c.nextId + 1 }, .handle c.nextId)
  | .unlisten key h =>
    if c.foreign key h then (c, .unit) else
    let (l', r) := (c.lists key).remove h
    ({ c with lists := upd c.lists key l' }, .bool r)
  | .hasAny key => (c, .bool (!(c.lists key).isEmpty))
  | .addFilter f =>
    ({ c with filters := c.filters.append c.nextId f, nextId := c.nextId + 1 }, .handle c.nextId)
  | .removeFilter h =>
    let (l', r) := c.filters.remove h
    ({ c with filters := l' }, .bool r)
  | .enqueue key arg =>
    -- doEnqueue: recycle the first free slot or make a new one, `set`, splice to the back
    let ev : QEvent := ⟨c.nextSeq, key, arg⟩
    match c.free with
    | s :: fr =>
      ({ c with free := fr, queue := settle c.ordered (c.queue ++ [{ s with ev := some ev }]),
                nextSeq := c.nextSeq + 1 }, .unit)
    | [] =>
      ({ c with queue := settle c.ordered (c.queue ++ [⟨c.nextSlot, some ev⟩]), nextSlot := c.nextSlot + 1,
                nextSeq := c.nextSeq + 1 }, .unit)
  | .peek =>
    match c.queue with
    | s :: _ => (match s.ev with
      | some e => (c, .ev e.key e.arg)
      | none => (c, .bool false))
    | [] => (c, .bool false)
  | .take =>
    match c.queue with
    | s :: r => (match s.ev with
      | some e =>
        (({ c with queue := r, free := settle c.ordered (c.free ++ [{ s with ev := none }]) }).push (.consumed e.seq 1),
          .ev e.key e.arg)
      | none => (c, .bool false))
    | [] => (c, .bool false)
  | .clear =>
    if c.queue.isEmpty then (c, .unit) else
    let evs := c.queue.filterMap (·.ev)
    ({ c with queue := [], free := settle c.ordered (c.free ++ c.queue.map (fun s => { s with ev := none })),
              trace := (evs.map (fun e => QEv.consumed e.seq 2)).reverse ++ c.trace }, .unit)
  | .emptyq => (c, .bool c.emptyQueue)
  | .dispatch _ _ => (c, .unit)
  | .process => (c, .unit)
  | .processOne => (c, .unit)
  | .processIf _ => (c, .unit)
  | .processUntil _ => (c, .unit)

/-- start a processing call: unlocked emptiness pre-check, guard, swap / splice out -/
def startProc (b : QBeh) (c : QCfg) (mode : PMode) (k : QRes → QProg) (rest : List QFrame) : QCfg :=
  if c.queue.isEmpty then { c with stack := .prog (k (.bool false)) :: rest, trace := .res (.bool false) :: c.trace }
  else
    let (todo, q) := match mode with
      | .one => (c.queue.take 1, c.queue.drop 1)
      | _ => (c.queue, [])
    procNext b { c with queue := q, ec := c.ec + 1 } mode todo [] [] (.wait k :: rest)

def step (b : QBeh) (c : QCfg) : Option QCfg :=
  match c.stack with
  | [] => none
  | .prog (.ret v) :: .filt key arg rest cur :: below =>
    if v then some (nextFilter b c key (b.rewrite cur arg) rest below)
    else some { c with stack := .done :: below }
  | .prog (.ret _) :: .iter key arg rest :: below =>
    -- `CallbackList::operator()`: `cb(args...); return canContinueInvoking(args...);`
    if b.cont arg then some (nextListener b c key arg rest below)
    else some { c with stack := .done :: below }
  | .prog (.ret v) :: .proc mode (s :: rest) kept idle .pred :: below =>
    (match mode, s.ev with
    | .ifp _, some e =>
      if v then some (nextFilter b c e.key e.arg c.filters (.proc mode (s :: rest) kept idle .disp :: below))
      else some (procNext b c mode rest (kept ++ [s]) idle below)
    | .untilp _, some e =>
      if v then some (finishProc c mode (kept ++ s :: rest) idle below)
      else some (nextFilter b c e.key e.arg c.filters (.proc mode (s :: rest) kept idle .disp :: below))
    | _, _ => none)
  | .prog (.ret _) :: rest => some { c with stack := rest }
  | .prog (.op (.dispatch key arg) k) :: rest =>
    some (nextFilter b c key arg c.filters (.wait k :: rest))
  | .prog (.op .process k) :: rest => some (startProc b c .all k rest)
  | .prog (.op .processOne k) :: rest => some (startProc b c .one k rest)
  | .prog (.op (.processIf p) k) :: rest => some (startProc b c (.ifp p) k rest)
  | .prog (.op (.processUntil p) k) :: rest => some (startProc b c (.untilp p) k rest)
  | .prog (.op cmd k) :: rest =>
    let (c', r) := c.apply cmd
    some { c' with stack := .prog (k r) :: rest, trace := .res r :: c'.trace }
  | .done :: below => some (endDispatch b c below)
  | .wait _ :: _ => none
  | .filt _ _ _ _ :: _ => none
  | .iter _ _ _ :: _ => none
  | .proc _ _ _ _ _ :: _ => none

def runN (b : QBeh) : Nat → QCfg → QCfg × Bool
  | 0, c => (c, c.stack.isEmpty)
  | n + 1, c => match step b c with
    | none => (c, c.stack.isEmpty)
    | some c' => runN b n c'

end QCfg
end Evp.Q
