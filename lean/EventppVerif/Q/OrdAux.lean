import EventppVerif.Q.Reach
/-
  OrderedQueueList (C13): the sorted-queue invariant of the queue machine.

  * `lexLe asc a b`: both slots hold an event, and `a`'s event comes before `b`'s in comparator
    order, ties broken by the enqueue sequence number.
  * `settle` (= `List.mergeSort (slotLe asc)`) of a list whose ties are already in `seq` order is
    `Pairwise lexLe` (`pairwise_lexLe_settle`), via the insertion characterisation
    `List.mergeSort_cons` of core.
  * `SI`: the invariant, over (queue, nextSeq, stack).
-/
namespace Evp.Q
open Evp QCfg

/-! ### the order -/

/-- event `x` is dispatched before event `y`: strictly before in comparator order, or equal keys and
    enqueued earlier -/
def evBefore (asc : Bool) (x y : QEvent) : Prop :=
  (if asc then x.key < y.key else y.key < x.key) ∨ (x.key = y.key ∧ x.seq < y.seq)

instance (asc : Bool) (x y : QEvent) : Decidable (evBefore asc x y) := by
  unfold evBefore; infer_instance

/-- both slots are occupied and `a`'s event is dispatched before `b`'s -/
def lexLe (asc : Bool) (a b : Slot) : Prop :=
  match a.ev, b.ev with
  | some x, some y => evBefore asc x y
  | _, _ => False

instance (asc : Bool) (a b : Slot) : Decidable (lexLe asc a b) := by
  unfold lexLe; split <;> infer_instance

theorem lexLe_iff {asc : Bool} {a b : Slot} :
    lexLe asc a b ↔ ∃ x y, a.ev = some x ∧ b.ev = some y ∧ evBefore asc x y := by
  unfold lexLe
  split
  · next x y hx hy => simp [hx, hy]
  · next h =>
    constructor
    · intro h; exact h.elim
    · rintro ⟨x, y, hx, hy, -⟩; exact h x y hx hy

/-- equal keys ⇒ enqueue order (vacuous on empty slots) -/
def tieOK (a b : Slot) : Prop :=
  ∀ x y, a.ev = some x → b.ev = some y → x.key = y.key → x.seq < y.seq

theorem lexLe.tieOK {asc : Bool} {a b : Slot} (h : lexLe asc a b) : tieOK a b := by
  obtain ⟨x, y, hx, hy, hb⟩ := lexLe_iff.1 h
  intro x' y' hx' hy' hk
  rw [hx] at hx'; rw [hy] at hy'
  cases hx'; cases hy'
  unfold evBefore at hb
  cases asc <;> simp at hb <;> omega

theorem slotLe_trans (asc : Bool) (a b c : Slot) :
    slotLe asc a b = true → slotLe asc b c = true → slotLe asc a c = true := by
  unfold slotLe
  cases a.ev <;> cases b.ev <;> cases c.ev <;> cases asc <;> simp <;> omega

theorem slotLe_total (asc : Bool) (a b : Slot) : (slotLe asc a b || slotLe asc b a) = true := by
  unfold slotLe
  cases a.ev <;> cases b.ev <;> cases asc <;> simp <;> omega

/-- for occupied slots: not `slotLe a b` means `b` is strictly before `a` -/
theorem lexLe_of_not_slotLe {asc : Bool} {a b : Slot} {x y : QEvent} (ha : a.ev = some x)
    (hb : b.ev = some y) (h : slotLe asc a b = false) : lexLe asc b a := by
  rw [lexLe_iff]
  refine ⟨y, x, hb, ha, ?_⟩
  unfold slotLe at h
  rw [ha, hb] at h
  unfold evBefore
  cases asc <;> simp at h ⊢ <;> omega

theorem lexLe_of_slotLe_tie {asc : Bool} {a b : Slot} {x y : QEvent} (ha : a.ev = some x)
    (hb : b.ev = some y) (h : slotLe asc a b = true) (ht : tieOK a b) : lexLe asc a b := by
  rw [lexLe_iff]
  refine ⟨x, y, ha, hb, ?_⟩
  have ht' := ht x y ha hb
  unfold slotLe at h
  rw [ha, hb] at h
  unfold evBefore
  cases asc <;> simp at h ⊢ <;> omega

/-- **stable sort ⇒ lexicographic order.**  If all slots of `l` are occupied and ties of `l` are
    already in enqueue order, the stable `mergeSort` by key yields the (key, seq)-lexicographic
    order. -/
theorem pairwise_lexLe_mergeSort (asc : Bool) :
    ∀ (l : List Slot), (∀ s ∈ l, ∃ e, s.ev = some e) → l.Pairwise tieOK →
      (l.mergeSort (slotLe asc)).Pairwise (lexLe asc)
  | [], _, _ => by simp
  | a :: l, hocc, htie => by
    obtain ⟨l₁, l₂, h₁, h₂, h₃⟩ := List.mergeSort_cons (slotLe_trans asc) (slotLe_total asc) a l
    have ih := pairwise_lexLe_mergeSort asc l (fun s hs => hocc s (List.mem_cons_of_mem _ hs))
      (List.Pairwise.of_cons htie)
    have hsorted := List.pairwise_mergeSort (slotLe_trans asc) (slotLe_total asc) (a :: l)
    rw [h₁] at hsorted ⊢
    rw [h₂] at ih
    have hmem : ∀ s, s ∈ l₁ ++ l₂ → s ∈ l := by
      intro s hs; rw [← h₂] at hs; exact List.mem_mergeSort.1 hs
    obtain ⟨xa, hxa⟩ := hocc a (List.mem_cons_self)
    rw [List.pairwise_append] at ih hsorted ⊢
    obtain ⟨ih1, ih2, ih3⟩ := ih
    obtain ⟨-, hs2, -⟩ := hsorted
    have hatail : ∀ s ∈ l₂, lexLe asc a s := by
      intro s hs
      have hsl : s ∈ l := hmem s (List.mem_append_right _ hs)
      obtain ⟨xs, hxs⟩ := hocc s (List.mem_cons_of_mem _ hsl)
      exact lexLe_of_slotLe_tie hxa hxs (List.rel_of_pairwise_cons hs2 hs)
        (List.rel_of_pairwise_cons htie hsl)
    refine ⟨ih1, List.pairwise_cons.2 ⟨hatail, ih2⟩, ?_⟩
    intro s hs t ht
    rcases List.mem_cons.1 ht with rfl | ht
    · have hsl : s ∈ l := hmem s (List.mem_append_left _ hs)
      obtain ⟨xs, hxs⟩ := hocc s (List.mem_cons_of_mem _ hsl)
      have := h₃ s hs
      simp at this
      exact lexLe_of_not_slotLe hxa hxs this
    · exact ih3 s hs t ht

theorem settle_perm (o : Option Bool) (l : List Slot) : (settle o l).Perm l := by
  unfold settle
  cases o with
  | none => exact List.Perm.refl _
  | some asc => exact List.mergeSort_perm l _

theorem mem_settle {o : Option Bool} {l : List Slot} {s : Slot} : s ∈ settle o l ↔ s ∈ l :=
  (settle_perm o l).mem_iff

theorem pairwise_lexLe_settle (asc : Bool) (l : List Slot) (hocc : ∀ s ∈ l, ∃ e, s.ev = some e)
    (htie : l.Pairwise tieOK) : (settle (some asc) l).Pairwise (lexLe asc) :=
  pairwise_lexLe_mergeSort asc l hocc htie

/-! ### the invariant -/

/-- the slots a frame holds that will still be dispatched or put back -/
def frameSlotsE : QFrame → List Slot
  | .proc _ todo kept _ _ => kept ++ todo
  | _ => []

/-- all slots heldE by processing calls, oldest call first -/
def heldE : List QFrame → List Slot
  | [] => []
  | f :: fs => heldE fs ++ frameSlotsE f

@[simp] theorem held_nil : heldE [] = [] := rfl
@[simp] theorem held_cons (f : QFrame) (fs : List QFrame) : heldE (f :: fs) = heldE fs ++ frameSlotsE f := rfl
@[simp] theorem frameSlots_prog (p) : frameSlotsE (.prog p) = [] := rfl
@[simp] theorem frameSlots_wait (k) : frameSlotsE (.wait k) = [] := rfl
@[simp] theorem frameSlots_filt (a b c d) : frameSlotsE (.filt a b c d) = [] := rfl
@[simp] theorem frameSlots_iter (a b c) : frameSlotsE (.iter a b c) = [] := rfl
@[simp] theorem frameSlots_done : frameSlotsE .done = [] := rfl
@[simp] theorem frameSlots_proc (m t k i p) : frameSlotsE (.proc m t k i p) = k ++ t := rfl

theorem mem_held {s : Slot} {f : QFrame} : ∀ {st : List QFrame}, f ∈ st → s ∈ frameSlotsE f → s ∈ heldE st
  | g :: st, hf, hs => by
    rcases List.mem_cons.1 hf with rfl | hf
    · exact List.mem_append_right _ hs
    · exact List.mem_append_left _ (mem_held hf hs)

/-- The sortedness invariant over (queue, nextSeq, stack):
    every heldE or queued slot is occupied by an event with `seq < nextSeq`; over the concatenation
    "frames oldest first, then the queue" ties are in enqueue order (`tieOK`); the queue and every
    frame's `kept ++ todo` are sorted by `lexLe`. -/
structure SI (asc : Bool) (q : List Slot) (n : Nat) (st : List QFrame) : Prop where
  occ : ∀ s ∈ heldE st ++ q, ∃ e, s.ev = some e ∧ e.seq < n
  tie : (heldE st ++ q).Pairwise tieOK
  qsorted : q.Pairwise (lexLe asc)
  fsorted : ∀ f ∈ st, (frameSlotsE f).Pairwise (lexLe asc)

def SIc (asc : Bool) (c : QCfg) : Prop :=
  c.ordered = some asc ∧ SI asc c.queue c.nextSeq c.stack

theorem SI.of_sublist {asc q n st q' n' st'} (h : SI asc q n st)
    (hsub : (heldE st' ++ q').Sublist (heldE st ++ q)) (hn : n ≤ n')
    (hq : q'.Pairwise (lexLe asc)) (hf : ∀ f ∈ st', (frameSlotsE f).Pairwise (lexLe asc)) :
    SI asc q' n' st' where
  occ := by
    intro s hs
    obtain ⟨e, he, hlt⟩ := h.occ s (hsub.subset hs)
    exact ⟨e, he, by omega⟩
  tie := h.tie.sublist hsub
  qsorted := hq
  fsorted := hf

theorem SI.resort {asc n st} {Y : List Slot}
    (hocc : ∀ s ∈ heldE st ++ Y, ∃ e, s.ev = some e ∧ e.seq < n)
    (htie : (heldE st ++ Y).Pairwise tieOK)
    (hf : ∀ f ∈ st, (frameSlotsE f).Pairwise (lexLe asc)) :
    SI asc (settle (some asc) Y) n st := by
  have hYocc : ∀ s ∈ Y, ∃ e, s.ev = some e := by
    intro s hs
    obtain ⟨e, he, -⟩ := hocc s (List.mem_append_right _ hs)
    exact ⟨e, he⟩
  rw [List.pairwise_append] at htie
  have hsorted := pairwise_lexLe_settle asc Y hYocc htie.2.1
  refine ⟨?_, ?_, hsorted, hf⟩
  · intro s hs
    apply hocc
    rcases List.mem_append.1 hs with h | h
    · exact List.mem_append_left _ h
    · exact List.mem_append_right _ (mem_settle.1 h)
  · rw [List.pairwise_append]
    refine ⟨htie.1, hsorted.imp (fun h => h.tieOK), ?_⟩
    intro a ha b hb
    exact htie.2.2 a ha b (mem_settle.1 hb)

theorem SI.sublist_frame {asc q n st f} (h : SI asc q n (f :: st)) {l : List Slot}
    (hl : l.Sublist (frameSlotsE f)) : l.Pairwise (lexLe asc) :=
  (h.fsorted f (List.mem_cons_self)).sublist hl

theorem SI.tail_sorted {asc q n st f} (h : SI asc q n (f :: st)) :
    ∀ g ∈ st, (frameSlotsE g).Pairwise (lexLe asc) :=
  fun g hg => h.fsorted g (List.mem_cons_of_mem _ hg)

/-- pushing a frame that holds no slots -/
theorem SI.push {asc q n st} (h : SI asc q n st) (f : QFrame) (hf : frameSlotsE f = []) :
    SI asc q n (f :: st) := by
  refine h.of_sublist (by simp [hf]) (Nat.le_refl _) h.qsorted ?_
  intro g hg
  rcases List.mem_cons.1 hg with rfl | hg
  · rw [hf]; exact List.Pairwise.nil
  · exact h.fsorted g hg

theorem SI.pop {asc q n st f} (h : SI asc q n (f :: st)) : SI asc q n st :=
  h.of_sublist (by simp) (Nat.le_refl _) h.qsorted h.tail_sorted

/-! ### building blocks -/

theorem deliver_SIc {asc : Bool} (c : QCfg) (r : QRes) (below : List QFrame)
    (ho : c.ordered = some asc) (h : SI asc c.queue c.nextSeq below) :
    SIc asc (c.deliver r below) := by
  unfold deliver
  split
  · exact ⟨ho, h.pop.push _ rfl⟩
  · exact ⟨ho, h⟩

theorem nextListener_SIc {asc : Bool} (b : QBeh) (c : QCfg) (key arg : Nat) (snap : List Entry)
    (below : List QFrame) (ho : c.ordered = some asc) (h : SI asc c.queue c.nextSeq below) :
    SIc asc (nextListener b c key arg snap below) := by
  unfold nextListener
  split
  · exact ⟨ho, h.push _ rfl⟩
  · exact ⟨ho, (h.push _ rfl).push _ rfl⟩

theorem nextFilter_SIc {asc : Bool} (b : QBeh) (c : QCfg) (key arg : Nat) (snap : List Entry)
    (below : List QFrame) (ho : c.ordered = some asc) (h : SI asc c.queue c.nextSeq below) :
    SIc asc (nextFilter b c key arg snap below) := by
  unfold nextFilter
  split
  · exact nextListener_SIc b c key arg _ below ho h
  · exact ⟨ho, (h.push _ rfl).push _ rfl⟩

theorem finishProc_SIc {asc : Bool} (c : QCfg) (mode : PMode) (kept idle : List Slot) (ph : Phase)
    (below : List QFrame) (ho : c.ordered = some asc)
    (h : SI asc c.queue c.nextSeq (.proc mode [] kept idle ph :: below)) :
    SIc asc (finishProc c mode kept idle below) := by
  unfold finishProc
  refine deliver_SIc _ _ _ ?_ ?_
  · exact ho
  show SI asc (if kept.isEmpty then c.queue else settle c.ordered (kept ++ c.queue)) c.nextSeq below
  split
  · exact h.pop
  · rw [ho]
    refine SI.resort ?_ ?_ h.tail_sorted
    · have := h.occ; simpa using this
    · have := h.tie; simpa using this

theorem procNext_SIc {asc : Bool} (b : QBeh) (c : QCfg) (mode : PMode) (todo kept idle : List Slot)
    (ph : Phase) (below : List QFrame) (ho : c.ordered = some asc)
    (h : SI asc c.queue c.nextSeq (.proc mode todo kept idle ph :: below)) :
    SIc asc (procNext b c mode todo kept idle below) := by
  have hre : ∀ (m' : PMode) (t' k' i' : List Slot) (p' : Phase), k' ++ t' = kept ++ todo →
      SI asc c.queue c.nextSeq (.proc m' t' k' i' p' :: below) := by
    intro m' t' k' i' p' he
    refine h.of_sublist (by simp [he]) (Nat.le_refl _) h.qsorted ?_
    intro g hg
    rcases List.mem_cons.1 hg with rfl | hg
    · have := h.fsorted _ (List.mem_cons_self); simpa [he] using this
    · exact h.tail_sorted g hg
  unfold procNext
  split
  · exact finishProc_SIc c mode kept idle ph below ho h
  · next s rest =>
    split
    · exact finishProc_SIc c mode _ idle ph below ho (hre _ _ _ _ _ (by simp))
    · split
      · exact nextFilter_SIc b c _ _ _ _ ho (hre _ _ _ _ _ rfl)
      · exact nextFilter_SIc b c _ _ _ _ ho (hre _ _ _ _ _ rfl)
      · exact ⟨ho, (hre _ _ _ _ _ rfl).push _ rfl⟩
      · exact ⟨ho, (hre _ _ _ _ _ rfl).push _ rfl⟩

theorem endDispatch_SIc {asc : Bool} (b : QBeh) (c : QCfg) (below : List QFrame)
    (ho : c.ordered = some asc) (h : SI asc c.queue c.nextSeq below) :
    SIc asc (endDispatch b c below) := by
  unfold endDispatch
  split
  · next mode s rest kept idle below' =>
    have h' : SI asc c.queue c.nextSeq (.proc mode rest kept (idle ++ [{ s with ev := none }]) .disp :: below') := by
      refine h.of_sublist (by simp) (Nat.le_refl _) h.qsorted ?_
      intro g hg
      rcases List.mem_cons.1 hg with rfl | hg
      · exact h.sublist_frame (by simp)
      · exact h.tail_sorted g hg
    split
    · exact procNext_SIc b (c.push _) mode rest kept _ .disp below' ho h'
    · exact procNext_SIc b c mode rest kept _ .disp below' ho h'
  · exact deliver_SIc c _ below ho h

theorem startProc_SIc {asc : Bool} (b : QBeh) (c : QCfg) (mode : PMode) (k : QRes → QProg)
    (rest : List QFrame) (ho : c.ordered = some asc) (h : SI asc c.queue c.nextSeq rest) :
    SIc asc (startProc b c mode k rest) := by
  unfold startProc
  split
  · exact ⟨ho, h.push _ rfl⟩
  · have key : ∀ todo q, todo ++ q = c.queue →
        SIc asc (procNext b { c with queue := q, ec := c.ec + 1 } mode todo [] [] (.wait k :: rest)) := by
      intro todo q he
      refine procNext_SIc b _ mode todo [] [] .disp _ ?_ ?_
      · exact ho
      show SI asc q c.nextSeq _
      have hq := h.qsorted
      rw [← he, List.pairwise_append] at hq
      refine h.of_sublist (by simp [← he]) (Nat.le_refl _) hq.2.1 ?_
      intro g hg
      rcases List.mem_cons.1 hg with rfl | hg
      · simpa using hq.1
      · rcases List.mem_cons.1 hg with rfl | hg
        · simp
        · exact h.fsorted g hg
    split
    · next todo q hm =>
      split at hm
      · cases hm; exact key _ _ (List.take_append_drop 1 c.queue)
      · cases hm; exact key _ _ (by simp)

theorem apply_SI {asc : Bool} (c : QCfg) (cmd : QCmd) (st : List QFrame)
    (ho : c.ordered = some asc) (h : SI asc c.queue c.nextSeq st) :
    (c.apply cmd).1.ordered = some asc ∧ SI asc (c.apply cmd).1.queue (c.apply cmd).1.nextSeq st := by
  have enq : ∀ (sl : Slot) (key arg : Nat), sl.ev = some ⟨c.nextSeq, key, arg⟩ →
      SI asc (settle (some asc) (c.queue ++ [sl])) (c.nextSeq + 1) st := by
    intro sl key arg hsl
    refine SI.resort ?_ ?_ h.fsorted
    · intro s hs
      rw [← List.append_assoc] at hs
      rcases List.mem_append.1 hs with hs | hs
      · obtain ⟨e, he, hlt⟩ := h.occ s hs
        exact ⟨e, he, by omega⟩
      · simp at hs; subst hs
        exact ⟨_, hsl, by simp⟩
    · rw [← List.append_assoc, List.pairwise_append]
      refine ⟨h.tie, by simp, ?_⟩
      intro a ha b' hb
      simp at hb; subst hb
      intro x y hx hy _
      obtain ⟨e, he, hlt⟩ := h.occ a ha
      rw [hsl] at hy; cases hy
      rw [he] at hx; cases hx
      exact hlt
  cases cmd <;> simp only [apply]
  case listenBefore => split <;> exact ⟨ho, h⟩
  case unlisten => split <;> exact ⟨ho, h⟩
  case enqueue key arg =>
    split
    · exact ⟨ho, by rw [ho]; exact enq _ key arg rfl⟩
    · exact ⟨ho, by rw [ho]; exact enq _ key arg rfl⟩
  case peek =>
    split
    · split <;> exact ⟨ho, h⟩
    · exact ⟨ho, h⟩
  case take =>
    split
    · next s r hq =>
      split
      · refine ⟨ho, ?_⟩
        show SI asc r c.nextSeq st
        rw [hq] at h
        exact h.of_sublist (by simp) (Nat.le_refl _) (List.Pairwise.of_cons h.qsorted) h.fsorted
      · exact ⟨ho, h⟩
    · exact ⟨ho, h⟩
  case clear =>
    split
    · exact ⟨ho, h⟩
    · refine ⟨ho, ?_⟩
      show SI asc [] c.nextSeq st
      exact h.of_sublist (by simp) (Nat.le_refl _) List.Pairwise.nil h.fsorted
  all_goals exact ⟨ho, h⟩

/-! ### the invariant holds in every reachable configuration -/

theorem SIc_init {asc : Bool} {c0 : QCfg} (hi : InitE c0) (ho : c0.ordered = some asc) : SIc asc c0 := by
  obtain ⟨hq, -, -, -, -, -, p, hst⟩ := hi
  refine ⟨ho, ?_⟩
  rw [hq, hst]
  exact ⟨by simp, by simp, List.Pairwise.nil, by simp⟩

theorem SIc_step {asc : Bool} {b : QBeh} {c c' : QCfg} (h : SIc asc c) (hs : step b c = some c') :
    SIc asc c' := by
  obtain ⟨ho, h⟩ := h
  cases step_stepR hs with
  | filtTrue hst => rw [hst] at h; exact nextFilter_SIc b c _ _ _ _ ho h.pop.pop
  | filtFalse hst => rw [hst] at h; exact ⟨ho, h.pop.pop.push _ rfl⟩
  | iter hst _ => rw [hst] at h; exact nextListener_SIc b c _ _ _ _ ho h.pop.pop
  | iterStop hst _ => rw [hst] at h; exact ⟨ho, h.pop.pop.push _ rfl⟩
  | predDispatch hst hev hm =>
    rw [hst] at h
    refine nextFilter_SIc b c _ _ _ _ ho ?_
    refine h.pop.of_sublist (by simp) (Nat.le_refl _) h.qsorted ?_
    intro g hg
    rcases List.mem_cons.1 hg with rfl | hg
    · have := h.pop.fsorted _ (List.mem_cons_self); simpa using this
    · exact h.pop.tail_sorted g hg
  | predSkip hst hev =>
    rw [hst] at h
    refine procNext_SIc b c _ _ _ _ .pred _ ho ?_
    refine h.pop.of_sublist (by simp) (Nat.le_refl _) h.qsorted ?_
    intro g hg
    rcases List.mem_cons.1 hg with rfl | hg
    · have := h.pop.fsorted _ (List.mem_cons_self); simpa using this
    · exact h.pop.tail_sorted g hg
  | predStop hst hev =>
    rw [hst] at h
    refine finishProc_SIc c _ _ _ .pred _ ho ?_
    refine h.pop.of_sublist (by simp) (Nat.le_refl _) h.qsorted ?_
    intro g hg
    rcases List.mem_cons.1 hg with rfl | hg
    · have := h.pop.fsorted _ (List.mem_cons_self); simpa using this
    · exact h.pop.tail_sorted g hg
  | pop hst _ _ _ => rw [hst] at h; exact ⟨ho, h.pop⟩
  | dispatch hst => rw [hst] at h; exact nextFilter_SIc b c _ _ _ _ ho (h.pop.push _ rfl)
  | startProc hst hm => rw [hst] at h; exact startProc_SIc b c _ _ _ ho h.pop
  | apply hst hsim =>
    rw [hst] at h
    obtain ⟨ho', h'⟩ := apply_SI c _ _ ho h.pop
    exact ⟨ho', h'.push _ rfl⟩
  | done hst => rw [hst] at h; exact endDispatch_SIc b c _ ho h.pop

/-! ### the policy never changes -/

@[simp] theorem deliver_ordered (c : QCfg) (r below) : (c.deliver r below).ordered = c.ordered := by
  unfold deliver; split <;> rfl
@[simp] theorem push_ordered (c : QCfg) (e) : (c.push e).ordered = c.ordered := rfl
@[simp] theorem nextListener_ordered (b c key arg snap below) :
    (nextListener b c key arg snap below).ordered = c.ordered := by
  unfold nextListener; split <;> rfl
@[simp] theorem nextFilter_ordered (b c key arg snap below) :
    (nextFilter b c key arg snap below).ordered = c.ordered := by
  unfold nextFilter; split <;> simp
@[simp] theorem finishProc_ordered (c mode kept idle below) :
    (finishProc c mode kept idle below).ordered = c.ordered := by
  unfold finishProc; simp
@[simp] theorem procNext_ordered (b c mode todo kept idle below) :
    (procNext b c mode todo kept idle below).ordered = c.ordered := by
  unfold procNext; split <;> (try split) <;> (try split) <;> simp
@[simp] theorem endDispatch_ordered (b c below) : (endDispatch b c below).ordered = c.ordered := by
  unfold endDispatch; split <;> (try split) <;> simp
@[simp] theorem startProc_ordered (b c mode k rest) :
    (startProc b c mode k rest).ordered = c.ordered := by
  unfold startProc; split <;> (try split) <;> simp
@[simp] theorem apply_ordered (c : QCfg) (cmd) : (c.apply cmd).1.ordered = c.ordered := by
  cases cmd <;> simp only [apply] <;> (try split) <;> (try split) <;> simp [push]

theorem step_ordered {b : QBeh} {c c' : QCfg} (hs : step b c = some c') : c'.ordered = c.ordered := by
  cases step_stepR hs <;> simp

theorem runN_ordered (b : QBeh) (n : Nat) (c : QCfg) : (runN b n c).1.ordered = c.ordered := by
  induction n generalizing c with
  | zero => rfl
  | succ n ih =>
    cases hs : step b c with
    | none => rw [runN_none hs]
    | some c' => rw [runN_succ_some hs, ih c', step_ordered hs]

theorem runN_SIc {asc : Bool} (b : QBeh) (n : Nat) (c : QCfg) (h : SIc asc c) :
    SIc asc (runN b n c).1 := by
  induction n generalizing c with
  | zero => exact h
  | succ n ih =>
    cases hs : step b c with
    | none => rw [runN_none hs]; exact h
    | some c' => rw [runN_succ_some hs]; exact ih c' (SIc_step h hs)

/-- the sortedness invariant holds in every reachable configuration of an ordered queue -/
theorem reachable_SIc {asc : Bool} {b : QBeh} {c : QCfg} (hr : ReachE b c)
    (ho : c.ordered = some asc) : SIc asc c := by
  obtain ⟨c0, n, hi, rfl⟩ := hr
  rw [runN_ordered] at ho
  exact runN_SIc b n c0 (SIc_init hi ho)

end Evp.Q
