import EventppVerif.Q.Machine
/-
  Reachability for the queue machine, the `runN` calculus, and a constructor-per-rule presentation
  (`StepR`) of `QCfg.step` so that invariants are proved by one `cases` instead of fighting the
  overlapping patterns of the `match` in `step`.
-/
namespace Evp.Q
open Evp QCfg

/-- Initial configurations: nothing queued, no slot ever made, no guard heldE, empty trace, one
    top-level program.  Listener lists, filters, the policy (`ordered`) and `nkeys` are arbitrary. -/
def InitE (c0 : QCfg) : Prop :=
  c0.queue = [] ∧ c0.free = [] ∧ c0.ec = 0 ∧ c0.nextSeq = 0 ∧ c0.nextSlot = 0 ∧ c0.trace = [] ∧
  ∃ p, c0.stack = [.prog p]

/-- `c` is reached from an initial configuration by running the machine. -/
def ReachE (b : QBeh) (c : QCfg) : Prop :=
  ∃ c0 n, InitE c0 ∧ (QCfg.runN b n c0).1 = c

/-! ### `runN` calculus -/

theorem runN_zero (b : QBeh) (c : QCfg) : (runN b 0 c).1 = c := rfl

theorem runN_succ_some {b : QBeh} {c c' : QCfg} (h : step b c = some c') (n : Nat) :
    runN b (n + 1) c = runN b n c' := by
  simp [runN, h]

theorem runN_none {b : QBeh} {c : QCfg} (h : step b c = none) (n : Nat) :
    (runN b n c).1 = c := by
  cases n with
  | zero => rfl
  | succ n => simp [runN, h]

theorem runN_add (b : QBeh) (m n : Nat) (c : QCfg) :
    (runN b (m + n) c).1 = (runN b n (runN b m c).1).1 := by
  induction m generalizing c with
  | zero => simp [runN]
  | succ m ih =>
    cases h : step b c with
    | none =>
      have : m + 1 + n = (m + n) + 1 := by omega
      rw [this]
      simp only [runN, h]
      exact (runN_none h n).symm
    | some c' =>
      have : m + 1 + n = (m + n) + 1 := by omega
      rw [this, runN_succ_some h, runN_succ_some h]
      exact ih c'

/-- `c'` is reached from `c` after some number of steps. -/
def Steps (b : QBeh) (c c' : QCfg) : Prop := ∃ n, (runN b n c).1 = c'

theorem Steps.refl (b : QBeh) (c : QCfg) : Steps b c c := ⟨0, rfl⟩

theorem Steps.trans {b : QBeh} {c₁ c₂ c₃ : QCfg} (h₁ : Steps b c₁ c₂) (h₂ : Steps b c₂ c₃) :
    Steps b c₁ c₃ := by
  obtain ⟨m, hm⟩ := h₁
  obtain ⟨n, hn⟩ := h₂
  exact ⟨m + n, by rw [runN_add, hm, hn]⟩

theorem Steps.single {b : QBeh} {c c' : QCfg} (h : step b c = some c') : Steps b c c' :=
  ⟨1, by rw [runN_succ_some h]; rfl⟩

theorem Steps.head {b : QBeh} {c c' c'' : QCfg} (h : step b c = some c') (h₂ : Steps b c' c'') :
    Steps b c c'' := (Steps.single h).trans h₂

/-- Invariants: true initially and preserved by `step` ⇒ true in every reachable configuration. -/
theorem ReachE.induction {b : QBeh} {P : QCfg → Prop}
    (h0 : ∀ c0, InitE c0 → P c0)
    (hstep : ∀ c c', P c → step b c = some c' → P c')
    {c : QCfg} (hr : ReachE b c) : P c := by
  obtain ⟨c0, n, hi, rfl⟩ := hr
  have : ∀ n c, P c → P (runN b n c).1 := by
    intro n
    induction n with
    | zero => intro c h; exact h
    | succ n ih =>
      intro c h
      cases hs : step b c with
      | none => rw [runN_none hs]; exact h
      | some c' => rw [runN_succ_some hs]; exact ih c' (hstep c c' h hs)
  exact this n c0 (h0 c0 hi)

theorem ReachE.step {b : QBeh} {c c' : QCfg} (hr : ReachE b c) (h : step b c = some c') :
    ReachE b c' := by
  obtain ⟨c0, n, hi, rfl⟩ := hr
  refine ⟨c0, n + 1, hi, ?_⟩
  rw [runN_add, runN_succ_some h 0]
  rfl

/-! ### one constructor per rule of `step` -/

/-- the processing mode started by a command -/
def procMode : QCmd → Option PMode
  | .process => some .all
  | .processOne => some .one
  | .processIf p => some (.ifp p)
  | .processUntil p => some (.untilp p)
  | _ => none

/-- commands executed by `QCfg.apply` (everything but `dispatch` and the processing calls) -/
def isSimple : QCmd → Bool
  | .dispatch _ _ => false
  | .process => false
  | .processOne => false
  | .processIf _ => false
  | .processUntil _ => false
  | _ => true

inductive StepR (b : QBeh) (c : QCfg) : QCfg → Prop
  | filtTrue {key arg rest cur below} :
      c.stack = .prog (.ret true) :: .filt key arg rest cur :: below →
      StepR b c (nextFilter b c key (b.rewrite cur arg) rest below)
  | filtFalse {key arg rest cur below} :
      c.stack = .prog (.ret false) :: .filt key arg rest cur :: below →
      StepR b c { c with stack := .done :: below }
  | iter {v key arg rest below} :
      c.stack = .prog (.ret v) :: .iter key arg rest :: below →
      b.cont arg = true →
      StepR b c (nextListener b c key arg rest below)
  /-- `CanContinueInvoking` said no after a listener returned: the dispatch ends -/
  | iterStop {v key arg rest below} :
      c.stack = .prog (.ret v) :: .iter key arg rest :: below →
      b.cont arg = false →
      StepR b c { c with stack := .done :: below }
  | predDispatch {v mode s rest kept idle below e} :
      c.stack = .prog (.ret v) :: .proc mode (s :: rest) kept idle .pred :: below →
      s.ev = some e →
      ((∃ p, mode = .ifp p ∧ v = true) ∨ (∃ p, mode = .untilp p ∧ v = false)) →
      StepR b c (nextFilter b c e.key e.arg c.filters (.proc mode (s :: rest) kept idle .disp :: below))
  | predSkip {p s rest kept idle below e} :
      c.stack = .prog (.ret false) :: .proc (.ifp p) (s :: rest) kept idle .pred :: below →
      s.ev = some e →
      StepR b c (procNext b c (.ifp p) rest (kept ++ [s]) idle below)
  | predStop {p s rest kept idle below e} :
      c.stack = .prog (.ret true) :: .proc (.untilp p) (s :: rest) kept idle .pred :: below →
      s.ev = some e →
      StepR b c (finishProc c (.untilp p) (kept ++ s :: rest) idle below)
  | pop {v rest} :
      c.stack = .prog (.ret v) :: rest →
      (∀ key arg r cur bl, rest ≠ .filt key arg r cur :: bl) →
      (∀ key arg r bl, rest ≠ .iter key arg r :: bl) →
      (∀ mode s r kept idle bl, rest ≠ .proc mode (s :: r) kept idle .pred :: bl) →
      StepR b c { c with stack := rest }
  | dispatch {key arg k rest} :
      c.stack = .prog (.op (.dispatch key arg) k) :: rest →
      StepR b c (nextFilter b c key arg c.filters (.wait k :: rest))
  | startProc {cmd mode k rest} :
      c.stack = .prog (.op cmd k) :: rest → procMode cmd = some mode →
      StepR b c (startProc b c mode k rest)
  | apply {cmd k rest} :
      c.stack = .prog (.op cmd k) :: rest → isSimple cmd = true →
      StepR b c { (c.apply cmd).1 with stack := .prog (k (c.apply cmd).2) :: rest,
                                       trace := .res (c.apply cmd).2 :: (c.apply cmd).1.trace }
  | done {below} :
      c.stack = .done :: below →
      StepR b c (endDispatch b c below)

theorem step_stepR {b : QBeh} {c c' : QCfg} (h : step b c = some c') : StepR b c c' := by
  unfold QCfg.step at h
  split at h
  · cases h
  · next v key arg rest cur below hst =>
    cases v <;> simp at h <;> subst h
    · exact .filtFalse hst
    · exact .filtTrue hst
  · next v key arg rest below hst =>
    split at h
    · next hc => cases h; exact .iter hst hc
    · next hc => cases h; exact .iterStop hst (by simpa using hc)
  · next v mode s rest kept idle below hst =>
    split at h
    · next p e hev =>
      cases v <;> simp at h <;> subst h
      · exact .predSkip hst hev
      · exact .predDispatch hst hev (.inl ⟨_, rfl, rfl⟩)
    · next p e hev =>
      cases v <;> simp at h <;> subst h
      · exact .predDispatch hst hev (.inr ⟨_, rfl, rfl⟩)
      · exact .predStop hst hev
    · cases h
  · next v rest h1 h2 h3 hst =>
    cases h
    refine .pop hst ?_ ?_ ?_
    · intro key arg r cur bl he; exact h1 _ _ _ _ _ he
    · intro key arg r bl he; exact h2 _ _ _ _ he
    · intro mode s r kept idle bl he; exact h3 _ _ _ _ _ _ he
  · next hst => cases h; exact .dispatch hst
  · next hst => cases h; exact .startProc hst rfl
  · next hst => cases h; exact .startProc hst rfl
  · next hst => cases h; exact .startProc hst rfl
  · next hst => cases h; exact .startProc hst rfl
  · next cmd k rest h1 h2 h3 h4 h5 hst =>
    cases h
    refine .apply hst ?_
    cases cmd <;> simp_all [isSimple]
  · next hst => cases h; exact .done hst
  all_goals cases h

end Evp.Q
