import EventppVerif.Q.Reach
/-
  Stack-shape invariant of the queue machine: what sits directly above a processing-call frame.

  A `.proc mode todo kept idle phase` frame is never on top of the stack; its `todo` is never empty
  and its head slot holds an event `e` (the event being examined); in phase `.disp` the frame
  directly above it is the dispatch of `e.key` (`.filt e.key ..`, `.iter e.key ..` or `.done`);
  in phase `.pred` it is the predicate's program (`.prog _`, or `.wait _` while the predicate
  itself dispatches).
-/
namespace Evp.Q
open Evp QCfg

/-- `f` belongs to a dispatch of event `key` (`.done`: the dispatch has just ended) -/
def isDisp (key : Nat) : QFrame → Prop
  | .filt k _ _ _ => k = key
  | .iter k _ _ => k = key
  | .done => True
  | _ => False

def isProgish : QFrame → Prop
  | .prog _ => True
  | .wait _ => True
  | _ => False

/-- what a processing-call frame with this `todo` and `phase` needs directly above it -/
def aboveOK (above : Option QFrame) (todo : List Slot) (ph : Phase) : Prop :=
  ∃ f s r e, above = some f ∧ todo = s :: r ∧ s.ev = some e ∧
    (match ph with
     | .disp => isDisp e.key f
     | .pred => isProgish f)

def frameOK (above : Option QFrame) : QFrame → Prop
  | .proc _ todo _ _ ph => aboveOK above todo ph
  | _ => True

/-- `Shape above st`: the stack segment `st` is well shaped when `above` is the frame directly above
    it (`none`: `st` is the whole stack) -/
def Shape : Option QFrame → List QFrame → Prop
  | _, [] => True
  | above, f :: rest => frameOK above f ∧ Shape (some f) rest

@[simp] theorem Shape_nil (a) : Shape a [] = True := rfl
theorem Shape_cons (a f rest) : Shape a (f :: rest) = (frameOK a f ∧ Shape (some f) rest) := rfl

@[simp] theorem frameOK_prog (a p) : frameOK a (.prog p) = True := rfl
@[simp] theorem frameOK_wait (a k) : frameOK a (.wait k) = True := rfl
@[simp] theorem frameOK_filt (a k x r c) : frameOK a (.filt k x r c) = True := rfl
@[simp] theorem frameOK_iter (a k x r) : frameOK a (.iter k x r) = True := rfl
@[simp] theorem frameOK_done (a) : frameOK a .done = True := rfl
@[simp] theorem frameOK_proc (a m t k i p) : frameOK a (.proc m t k i p) = aboveOK a t p := rfl

theorem frameOK.mono {f f' : QFrame} {g : QFrame} (h : frameOK (some f) g)
    (hd : ∀ k, isDisp k f → isDisp k f') (hp : isProgish f → isProgish f') :
    frameOK (some f') g := by
  cases g with
  | proc m t k i ph =>
    obtain ⟨f0, s, r, e, hf, ht, he, hph⟩ := h
    cases hf
    refine ⟨f', s, r, e, rfl, ht, he, ?_⟩
    cases ph
    · exact hp hph
    · exact hd _ hph
  | _ => trivial

theorem Shape.mono {f f' : QFrame} {st : List QFrame} (h : Shape (some f) st)
    (hd : ∀ k, isDisp k f → isDisp k f') (hp : isProgish f → isProgish f') :
    Shape (some f') st := by
  cases st with
  | nil => trivial
  | cons g rest => exact ⟨h.1.mono hd hp, h.2⟩

/-- a frame that is neither a dispatch frame nor a program has no processing call directly below -/
theorem Shape.not_proc {f : QFrame} {st : List QFrame} (h : Shape (some f) st)
    (hd : ∀ k, ¬ isDisp k f) (hp : ¬ isProgish f) :
    ∀ m t k i p r, st ≠ .proc m t k i p :: r := by
  intro m t k i p r he
  subst he
  obtain ⟨f0, s, r', e, hf, -, -, hph⟩ := h.1
  cases hf
  cases p
  · exact hp hph
  · exact hd _ hph

/-- every dispatch frame of `key` may sit on `below` -/
def DispAll (key : Nat) (below : List QFrame) : Prop := ∀ g, isDisp key g → Shape (some g) below

theorem DispAll.of_filt {key arg r cur below} (h : Shape (some (.filt key arg r cur)) below) :
    DispAll key below := by
  intro g hg
  refine h.mono ?_ (fun hp => hp.elim)
  intro k hk
  have : key = k := hk
  subst this; exact hg

theorem DispAll.of_iter {key arg r below} (h : Shape (some (.iter key arg r)) below) :
    DispAll key below := by
  intro g hg
  refine h.mono ?_ (fun hp => hp.elim)
  intro k hk
  have : key = k := hk
  subst this; exact hg

theorem DispAll.of_wait {key k rest} {f : QFrame} (h : Shape (some f) rest) (hf : isProgish f) :
    DispAll key (.wait k :: rest) := by
  intro g _
  refine ⟨trivial, h.mono ?_ (fun _ => trivial)⟩
  intro k' hk'
  cases f <;> first | exact hf.elim | exact hk'.elim

theorem DispAll.of_proc {mode s rest kept idle below e} {f : QFrame} (hev : s.ev = some e)
    (h : Shape (some f) below) (hd : ∀ k, ¬ isDisp k f) (hp : ¬ isProgish f) :
    DispAll e.key (.proc mode (s :: rest) kept idle .disp :: below) := by
  intro g hg
  refine ⟨⟨g, s, rest, e, rfl, rfl, hev, hg⟩, h.mono ?_ ?_⟩
  · intro k hk; exact (hd k hk).elim
  · intro hp'; exact (hp hp').elim

theorem not_isDisp_proc (k m t kp i p) : ¬ isDisp k (.proc m t kp i p) := fun h => h
theorem not_isProgish_proc (m t kp i p) : ¬ isProgish (.proc m t kp i p) := fun h => h

/-! ### building blocks -/

theorem nextListener_shape (b : QBeh) (c : QCfg) (key arg : Nat) (snap : List Entry)
    (below : List QFrame) (h : DispAll key below) :
    Shape none (nextListener b c key arg snap below).stack := by
  unfold nextListener
  split
  · exact ⟨trivial, h .done trivial⟩
  · exact ⟨trivial, trivial, h (.iter key arg _) rfl⟩

theorem nextFilter_shape (b : QBeh) (c : QCfg) (key arg : Nat) (snap : List Entry)
    (below : List QFrame) (h : DispAll key below) :
    Shape none (nextFilter b c key arg snap below).stack := by
  unfold nextFilter
  split
  · exact nextListener_shape b c key arg _ below h
  · exact ⟨trivial, trivial, h (.filt key arg _ _) rfl⟩

theorem deliver_shape (c : QCfg) (r : QRes) (below : List QFrame) {f : QFrame}
    (h : Shape (some f) below) (hnp : ∀ m t k i p r, below ≠ .proc m t k i p :: r) :
    Shape none (c.deliver r below).stack := by
  unfold deliver
  split
  · exact ⟨trivial, h.2.mono (fun _ hk => hk.elim) (fun _ => trivial)⟩
  · show Shape none below
    cases below with
    | nil => trivial
    | cons g rest =>
      refine ⟨?_, h.2⟩
      cases g with
      | proc m t k i p => exact (hnp m t k i p rest rfl).elim
      | _ => trivial

theorem finishProc_shape (c : QCfg) (mode : PMode) (kept idle : List Slot) (below : List QFrame)
    {m t k i p} (h : Shape (some (.proc m t k i p)) below) :
    Shape none (finishProc c mode kept idle below).stack := by
  unfold finishProc
  exact deliver_shape _ _ below h (h.not_proc (fun k => not_isDisp_proc k _ _ _ _ _) (not_isProgish_proc _ _ _ _ _))

theorem Shape.reproc {m t k i p m' t' k' i' p'} {below : List QFrame}
    (h : Shape (some (.proc m t k i p)) below) : Shape (some (.proc m' t' k' i' p')) below :=
  h.mono (fun _ hk => hk.elim) (fun hp => hp.elim)

theorem procNext_shape (b : QBeh) (c : QCfg) (mode : PMode) (todo kept idle : List Slot)
    (below : List QFrame) {m t k i p} (h : Shape (some (.proc m t k i p)) below) :
    Shape none (procNext b c mode todo kept idle below).stack := by
  unfold procNext
  split
  · exact finishProc_shape c mode kept idle below h
  · next s rest =>
    split
    · exact finishProc_shape c mode _ idle below h
    · next e hev =>
      have hd : DispAll e.key (.proc mode (s :: rest) kept idle .disp :: below) :=
        DispAll.of_proc hev h (fun k => not_isDisp_proc k _ _ _ _ _) (not_isProgish_proc _ _ _ _ _)
      split
      · exact nextFilter_shape b c _ _ _ _ hd
      · exact nextFilter_shape b c _ _ _ _ hd
      · exact ⟨trivial, ⟨_, s, rest, e, rfl, rfl, hev, trivial⟩, h.reproc⟩
      · exact ⟨trivial, ⟨_, s, rest, e, rfl, rfl, hev, trivial⟩, h.reproc⟩

theorem endDispatch_shape (b : QBeh) (c : QCfg) (below : List QFrame)
    (h : Shape (some .done) below) : Shape none (endDispatch b c below).stack := by
  unfold endDispatch
  split
  · next mode s rest kept idle below' =>
    split
    · exact procNext_shape b _ mode rest kept _ below' h.2
    · exact procNext_shape b _ mode rest kept _ below' h.2
  · next hne =>
    refine deliver_shape c _ below h ?_
    intro m t k i p r he
    subst he
    obtain ⟨f0, s, r', e, hf, ht, -, hph⟩ := h.1
    cases hf
    cases p
    · exact hph
    · subst ht; exact hne _ _ _ _ _ _ rfl

theorem startProc_shape (b : QBeh) (c : QCfg) (mode : PMode) (k : QRes → QProg)
    (rest : List QFrame) {p} (h : Shape (some (.prog p)) rest) :
    Shape none (startProc b c mode k rest).stack := by
  unfold startProc
  split
  · exact ⟨trivial, h.mono (fun k hk => hk.elim) (fun _ => trivial)⟩
  · have hw : Shape (some (.proc mode [] [] [] .disp)) (.wait k :: rest) :=
      ⟨trivial, h.mono (fun k hk => hk.elim) (fun _ => trivial)⟩
    split
    · exact procNext_shape b _ mode _ [] [] _ hw

/-! ### the invariant -/

theorem shape_init {c0 : QCfg} (hi : InitE c0) : Shape none c0.stack := by
  obtain ⟨-, -, -, -, -, -, p, hst⟩ := hi
  rw [hst]
  exact ⟨trivial, trivial⟩

theorem shape_step {b : QBeh} {c c' : QCfg} (h : Shape none c.stack) (hs : step b c = some c') :
    Shape none c'.stack := by
  cases step_stepR hs with
  | filtTrue hst => rw [hst] at h; exact nextFilter_shape b c _ _ _ _ (.of_filt h.2.2)
  | filtFalse hst =>
    rw [hst] at h
    exact ⟨trivial, h.2.2.mono (fun k _ => trivial) (fun hp => hp.elim)⟩
  | iter hst _ => rw [hst] at h; exact nextListener_shape b c _ _ _ _ (.of_iter h.2.2)
  | iterStop hst _ =>
    rw [hst] at h
    exact ⟨trivial, h.2.2.mono (fun k _ => trivial) (fun hp => hp.elim)⟩
  | predDispatch hst hev hm =>
    rw [hst] at h
    exact nextFilter_shape b c _ _ _ _
      (.of_proc hev h.2.2 (fun k => not_isDisp_proc k _ _ _ _ _) (not_isProgish_proc _ _ _ _ _))
  | predSkip hst hev => rw [hst] at h; exact procNext_shape b c _ _ _ _ _ h.2.2
  | predStop hst hev => rw [hst] at h; exact finishProc_shape c _ _ _ _ h.2.2
  | pop hst h1 h2 h3 =>
    rw [hst] at h
    show Shape none _
    rename_i v rest
    cases rest with
    | nil => trivial
    | cons g rest' =>
      refine ⟨?_, h.2.2⟩
      cases g with
      | proc m t k i p =>
        obtain ⟨f0, s, r', e, hf, ht, -, hph⟩ := h.2.1
        cases hf
        cases p
        · subst ht; exact (h3 _ _ _ _ _ _ rfl).elim
        · exact hph.elim
      | _ => trivial
  | dispatch hst =>
    rw [hst] at h
    exact nextFilter_shape b c _ _ _ _ (.of_wait h.2 trivial)
  | startProc hst hm => rw [hst] at h; exact startProc_shape b c _ _ _ h.2
  | apply hst hsim =>
    rw [hst] at h
    exact ⟨trivial, h.2.mono (fun k hk => hk.elim) (fun _ => trivial)⟩
  | done hst => rw [hst] at h; exact endDispatch_shape b c _ h.2

theorem reachable_shape {b : QBeh} {c : QCfg} (hr : ReachE b c) : Shape none c.stack :=
  ReachE.induction (P := fun c => Shape none c.stack) (fun _ hi => shape_init hi)
    (fun _ _ h hs => shape_step h hs) hr

/-- reading the invariant off at a processing-call frame anywhere in the stack -/
theorem Shape.at_frame {g : QFrame} {ys : List QFrame} :
    ∀ (xs : List QFrame) (a : Option QFrame), Shape a (xs ++ g :: ys) →
      (xs = [] ∧ frameOK a g) ∨ (∃ xs' f, xs = xs' ++ [f] ∧ frameOK (some f) g)
  | [], a, h => .inl ⟨rfl, h.1⟩
  | x :: xs, a, h => by
    rcases Shape.at_frame xs (some x) h.2 with ⟨rfl, hf⟩ | ⟨xs', f, rfl, hf⟩
    · exact .inr ⟨[], x, rfl, hf⟩
    · exact .inr ⟨x :: xs', f, rfl, hf⟩

theorem shape_proc_frame {above below : List QFrame} {mode todo kept idle ph}
    (h : Shape none (above ++ .proc mode todo kept idle ph :: below)) :
    ∃ above' f s rest e, above = above' ++ [f] ∧ todo = s :: rest ∧ s.ev = some e ∧
      (ph = .disp → isDisp e.key f) ∧ (ph = .pred → isProgish f) := by
  rcases Shape.at_frame above none h with ⟨-, hf⟩ | ⟨xs', f, rfl, hf⟩
  · obtain ⟨f0, -, -, -, hf0, -⟩ := hf
    cases hf0
  · obtain ⟨f0, s, r, e, hf0, ht, he, hph⟩ := hf
    cases hf0
    refine ⟨xs', f, s, r, e, rfl, ht, he, ?_, ?_⟩
    · intro hp; subst hp; exact hph
    · intro hp; subst hp; exact hph

end Evp.Q
