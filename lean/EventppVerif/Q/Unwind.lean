import EventppVerif.Q.InvCor
/-
  An exception escaping a processing call of the queue machine (Q/Machine.lean), as stack
  unwinding.

  The exception is thrown by the program on top of the stack (a listener, a filter, a predicate,
  or a copy made on their behalf) and nobody in between catches it.  It passes through the frames
  of the running dispatch (`.filt`, `.iter`, `.done`: nothing to undo, their state are locals),
  reaches the innermost processing call (`.proc`), whose locals are destroyed:

  * `tempList` / `idleList` (the slots `todo ++ kept ++ idle`) are destroyed together with the
    events they still hold — there is no put-back on this path (eventqueue.h, `process`,
    `processOne`, `processIf`, `processUntil`: the `splice` back is after the loop);
  * `CounterGuard` restores `queueEmptyCounter`: `ec := ec - 1`;

  and leaves the processing call towards its caller.  CHOICE: the `.wait k` frame under the
  `.proc` frame — the continuation the caller would have run with the *result* of the call — is
  removed as well and nothing is pushed: the call has no result.  What is left is the stack "below
  a running program" (`COk false`); the caller's handler is modelled by putting any program on it
  (`unwind_resumable`).  `unwind` is applied again for an exception that keeps travelling through
  an enclosing processing call (`unwindN`).

  With no processing call on the stack, the exception leaves everything: `stack := []`, and
  `ec - 1 = 0 = ec`.

  `queue`, `free`, `lists`, `filters`, `trace` are not touched: writes that callbacks made before
  the throw stay, nothing is rolled back.
-/
namespace Evp.Q
open Evp QCfg

/-- the continuation of the processing call that did not return -/
def dropWait : List QFrame → List QFrame
  | .wait _ :: r => r
  | r => r

/-- the frames that survive: those below the innermost processing call (and its `.wait`) -/
def belowProc : List QFrame → List QFrame
  | [] => []
  | .proc _ _ _ _ _ :: r => dropWait r
  | .prog _ :: r => belowProc r
  | .wait _ :: r => belowProc r
  | .filt _ _ _ _ :: r => belowProc r
  | .iter _ _ _ :: r => belowProc r
  | .done :: r => belowProc r

/-- the slots destroyed with the innermost processing call -/
def poppedSlots : List QFrame → List Slot
  | [] => []
  | .proc _ t k i _ :: _ => t ++ k ++ i
  | .prog _ :: r => poppedSlots r
  | .wait _ :: r => poppedSlots r
  | .filt _ _ _ _ :: r => poppedSlots r
  | .iter _ _ _ :: r => poppedSlots r
  | .done :: r => poppedSlots r

/-- the still-pending slots among them -/
def poppedPend : List QFrame → List Slot
  | [] => []
  | .proc _ t k _ _ :: _ => k ++ t
  | .prog _ :: r => poppedPend r
  | .wait _ :: r => poppedPend r
  | .filt _ _ _ _ :: r => poppedPend r
  | .iter _ _ _ :: r => poppedPend r
  | .done :: r => poppedPend r

/-- an exception escapes the innermost processing call -/
def unwind (c : QCfg) : QCfg := { c with stack := belowProc c.stack, ec := c.ec - 1 }

/-- the exception escapes `n` nested processing calls in succession -/
def unwindN : Nat → QCfg → QCfg
  | 0, c => c
  | n + 1, c => unwindN n (unwind c)

/-- the slots destroyed by `unwindN n` -/
def discardedN : Nat → List QFrame → List Slot
  | 0, _ => []
  | n + 1, st => poppedSlots st ++ discardedN n (belowProc st)

/-! ### stack facts -/

@[simp] theorem procCount_nil : procCount [] = 0 := rfl
@[simp] theorem inflightS_nil : inflightS [] = [] := rfl

theorem procCount_cons (f : QFrame) (st : List QFrame) :
    procCount (f :: st) = (if isProc f then 1 else 0) + procCount st := by
  cases f <;> simp [procCount, List.filter_cons, isProc] <;> omega

theorem inflightS_cons (f : QFrame) (st : List QFrame) :
    inflightS (f :: st) = frameSlots f ++ inflightS st := by
  simp [inflightS]

theorem procCount_dropWait (r : List QFrame) : procCount (dropWait r) = procCount r := by
  cases r with
  | nil => rfl
  | cons f r => cases f <;> simp [dropWait, procCount_cons, isProc]

theorem inflightS_dropWait (r : List QFrame) : inflightS (dropWait r) = inflightS r := by
  cases r with
  | nil => rfl
  | cons f r => cases f <;> simp [dropWait, inflightS_cons, frameSlots]

theorem pendS_dropWait (r : List QFrame) : pendS (dropWait r) = pendS r := by
  cases r with
  | nil => rfl
  | cons f r => cases f <;> simp [dropWait, pendS, framePend]

theorem dropWait_suffix (r : List QFrame) : dropWait r <:+ r := by
  cases r with
  | nil => exact List.suffix_refl _
  | cons f r =>
    cases f <;> first
      | exact List.suffix_refl _
      | exact List.suffix_cons _ _

theorem procCount_belowProc (st : List QFrame) : procCount (belowProc st) = procCount st - 1 := by
  induction st with
  | nil => rfl
  | cons f st ih =>
    cases f <;> simp [belowProc, procCount_cons, isProc, ih, procCount_dropWait]

theorem inflightS_belowProc (st : List QFrame) :
    inflightS st = poppedSlots st ++ inflightS (belowProc st) := by
  induction st with
  | nil => rfl
  | cons f st ih =>
    cases f <;> simp [belowProc, poppedSlots, inflightS_cons, frameSlots, inflightS_dropWait] <;> exact ih

theorem pendS_belowProc (st : List QFrame) : pendS st = pendS (belowProc st) ++ poppedPend st := by
  induction st with
  | nil => rfl
  | cons f st ih =>
    cases f <;> simp [belowProc, poppedPend, pendS, framePend, pendS_dropWait] <;> exact ih

theorem belowProc_suffix (st : List QFrame) : belowProc st <:+ st := by
  induction st with
  | nil => exact List.suffix_refl _
  | cons f st ih =>
    cases f <;> first
      | exact List.IsSuffix.trans (dropWait_suffix st) (List.suffix_cons _ _)
      | exact List.IsSuffix.trans ih (List.suffix_cons _ _)

theorem poppedSlots_of_procCount_zero {st : List QFrame} (h : procCount st = 0) : poppedSlots st = [] := by
  induction st with
  | nil => rfl
  | cons f st ih =>
    cases f <;> simp_all [procCount_cons, isProc, poppedSlots]

theorem belowProc_of_procCount_zero {st : List QFrame} (h : procCount st = 0) : belowProc st = [] := by
  induction st with
  | nil => rfl
  | cons f st ih =>
    cases f <;> simp_all [procCount_cons, isProc, belowProc]

/-- the innermost processing call of a stack that has one -/
theorem exists_innermost {st : List QFrame} (h : 0 < procCount st) :
    ∃ above mode todo kept idle ph r, st = above ++ .proc mode todo kept idle ph :: r ∧
      procCount above = 0 ∧ belowProc st = dropWait r ∧ poppedSlots st = todo ++ kept ++ idle ∧
      poppedPend st = kept ++ todo := by
  induction st with
  | nil => simp at h
  | cons f st ih =>
    cases f with
    | proc mode todo kept idle ph => exact ⟨[], mode, todo, kept, idle, ph, st, rfl, rfl, rfl, rfl, rfl⟩
    | prog p =>
      obtain ⟨a, m, t, k, i, ph, r, h1, h2, h3, h4, h5⟩ := ih (by simpa [procCount_cons, isProc] using h)
      exact ⟨.prog p :: a, m, t, k, i, ph, r, by simp [h1], by simp [procCount_cons, isProc, h2],
        by simp [belowProc, h3], by simp [poppedSlots, h4], by simp [poppedPend, h5]⟩
    | wait w =>
      obtain ⟨a, m, t, k, i, ph, r, h1, h2, h3, h4, h5⟩ := ih (by simpa [procCount_cons, isProc] using h)
      exact ⟨.wait w :: a, m, t, k, i, ph, r, by simp [h1], by simp [procCount_cons, isProc, h2],
        by simp [belowProc, h3], by simp [poppedSlots, h4], by simp [poppedPend, h5]⟩
    | filt key arg rest cur =>
      obtain ⟨a, m, t, k, i, ph, r, h1, h2, h3, h4, h5⟩ := ih (by simpa [procCount_cons, isProc] using h)
      exact ⟨.filt key arg rest cur :: a, m, t, k, i, ph, r, by simp [h1],
        by simp [procCount_cons, isProc, h2],
        by simp [belowProc, h3], by simp [poppedSlots, h4], by simp [poppedPend, h5]⟩
    | iter key arg rest =>
      obtain ⟨a, m, t, k, i, ph, r, h1, h2, h3, h4, h5⟩ := ih (by simpa [procCount_cons, isProc] using h)
      exact ⟨.iter key arg rest :: a, m, t, k, i, ph, r, by simp [h1],
        by simp [procCount_cons, isProc, h2],
        by simp [belowProc, h3], by simp [poppedSlots, h4], by simp [poppedPend, h5]⟩
    | done =>
      obtain ⟨a, m, t, k, i, ph, r, h1, h2, h3, h4, h5⟩ := ih (by simpa [procCount_cons, isProc] using h)
      exact ⟨.done :: a, m, t, k, i, ph, r, by simp [h1], by simp [procCount_cons, isProc, h2],
        by simp [belowProc, h3], by simp [poppedSlots, h4], by simp [poppedPend, h5]⟩

/-- what is left is a stack a program may run on -/
theorem COk.belowProc {x : Bool} {st : List QFrame} (h : COk x st) : COk false (belowProc st) := by
  induction h with
  | nil => exact .nil
  | filt _ ih => exact ih
  | iter _ ih => exact ih
  | pred hk _ _ => exact hk
  | wait _ ih => exact ih
  | disp hk _ => exact hk

theorem StackOk.belowProc {st : List QFrame} (h : StackOk st) : COk false (belowProc st) := by
  cases h with
  | nil => exact .nil
  | prog hk => exact hk.belowProc
  | done hk => exact hk.belowProc

/-! ### `unwind` -/

@[simp] theorem unwind_queue (c : QCfg) : (unwind c).queue = c.queue := rfl
@[simp] theorem unwind_free (c : QCfg) : (unwind c).free = c.free := rfl
@[simp] theorem unwind_lists (c : QCfg) : (unwind c).lists = c.lists := rfl
@[simp] theorem unwind_filters (c : QCfg) : (unwind c).filters = c.filters := rfl
@[simp] theorem unwind_trace (c : QCfg) : (unwind c).trace = c.trace := rfl
@[simp] theorem unwind_nextSeq (c : QCfg) : (unwind c).nextSeq = c.nextSeq := rfl
@[simp] theorem unwind_nextSlot (c : QCfg) : (unwind c).nextSlot = c.nextSlot := rfl
@[simp] theorem unwind_nextId (c : QCfg) : (unwind c).nextId = c.nextId := rfl
@[simp] theorem unwind_ordered (c : QCfg) : (unwind c).ordered = c.ordered := rfl
@[simp] theorem unwind_nkeys (c : QCfg) : (unwind c).nkeys = c.nkeys := rfl
@[simp] theorem unwind_stack (c : QCfg) : (unwind c).stack = belowProc c.stack := rfl
@[simp] theorem unwind_ec (c : QCfg) : (unwind c).ec = c.ec - 1 := rfl

/-- the guard stays exact (needs nothing but its exactness before) -/
theorem unwind_guard {c : QCfg} (h : c.ec = procCount c.stack) :
    (unwind c).ec = procCount (unwind c).stack := by
  simp [h, procCount_belowProc]

theorem unwindN_guard {c : QCfg} (h : c.ec = procCount c.stack) (n : Nat) :
    (unwindN n c).ec = procCount (unwindN n c).stack := by
  induction n generalizing c with
  | zero => exact h
  | succ n ih => exact ih (unwind_guard h)

theorem unwindN_keeps (c : QCfg) (n : Nat) :
    (unwindN n c).queue = c.queue ∧ (unwindN n c).free = c.free ∧ (unwindN n c).lists = c.lists ∧
    (unwindN n c).filters = c.filters ∧ (unwindN n c).trace = c.trace ∧
    (unwindN n c).nextSeq = c.nextSeq ∧ (unwindN n c).nextSlot = c.nextSlot ∧
    (unwindN n c).ordered = c.ordered := by
  induction n generalizing c with
  | zero => exact ⟨rfl, rfl, rfl, rfl, rfl, rfl, rfl, rfl⟩
  | succ n ih => exact ih (unwind c)

theorem unwindN_inflight (c : QCfg) (n : Nat) :
    c.inflight = discardedN n c.stack ++ (unwindN n c).inflight := by
  induction n generalizing c with
  | zero => simp [discardedN, unwindN]
  | succ n ih =>
    have h1 : c.inflight = poppedSlots c.stack ++ (unwind c).inflight := inflightS_belowProc c.stack
    rw [h1, ih (unwind c)]
    simp [discardedN, unwindN]

theorem unwindN_stack_suffix (c : QCfg) (n : Nat) : (unwindN n c).stack <:+ c.stack := by
  induction n generalizing c with
  | zero => exact List.suffix_refl _
  | succ n ih => exact List.IsSuffix.trans (ih (unwind c)) (belowProc_suffix c.stack)

/-- the caller catches the exception and goes on with program `p` -/
def resume (c : QCfg) (p : QProg) : QCfg := { unwind c with stack := .prog p :: (unwind c).stack }

/-- the caller's handler may run any program on what is left -/
theorem unwind_resumable {c : QCfg} (h : StackOk c.stack) (p : QProg) :
    StackOk (.prog p :: (unwind c).stack) := .prog h.belowProc

/-! ### permutation bookkeeping -/

theorem perm_move_mid (a p i c : List Nat) : (a ++ i ++ c ++ p).Perm (a ++ (p ++ i) ++ c) := by
  rw [List.perm_iff_count]
  intro x
  simp only [List.count_append]
  omega

end Evp.Q
