import EventppVerif.Generated.AnyDataFrag
/-
  Model of `eventpp::AnyData<maxSize_>` (utilities/anydata.h).  Which constructor is enabled for
  an object of a given size is NOT written here: it is regenerated from the source
  (Generated/AnyDataFrag.lean).  Objects are ledger entries (type tag, value, moved-from flag);
  `live` counts constructed-and-not-yet-destroyed objects.
-/
namespace Evp.AnyData
open Evp.Gen.AnyData

structure Obj where
  ty : Nat
  val : Nat
  moved : Bool
deriving DecidableEq, Repr

/-- what an `AnyData` holds: an object in its inline buffer (possibly already moved from), or a
    `LargeData` that owns a heap object or (after being moved from) nothing -/
inductive Shell
  | inl (o : Obj)
  | large (p : Option Obj)
deriving DecidableEq, Repr

def Shell.held : Shell → Nat
  | .inl _ => 1
  | .large (some _) => 1
  | .large none => 0

/-- the shell has been moved from: reading it is outside the property -/
def Shell.movedFrom : Shell → Bool
  | .inl o => o.moved
  | .large p => p.isNone

def Shell.obj? : Shell → Option Obj
  | .inl o => some o
  | .large p => p

structure St where
  slots : List (Nat × Shell) := []
  /-- ledger: live payload objects -/
  live : Nat := 0
deriving Repr

inductive Op
  | new (a ty size val : Nat)
  | move (b a : Nat)
  | get (a : Nat)
  | isType (a ty : Nat)
  | del (a : Nat)
deriving DecidableEq, Repr

inductive Out
  | skip
  | ok
  | val (v : Nat)
  | bool (b : Bool)
  /-- neither constructor is enabled (would not compile) -/
  | noCtor
deriving DecidableEq, Repr

def lookup (s : St) (a : Nat) : Option Shell := (s.slots.find? (fun p => p.1 == a)).map (·.2)

def erase (l : List (Nat × Shell)) (a : Nat) : List (Nat × Shell) := l.filter (fun p => p.1 != a)

/-- construct from an object of `size` bytes with template argument `cap` (`szLarge = sizeof(LargeData)`) -/
def mkShell (cap szLarge size : Nat) (o : Obj) : Option Shell :=
  let m := effCap cap szLarge
  if inlineCond size m then some (.inl o)
  else if largeCond size m then some (.large (some o))
  else none

def step (cap szLarge : Nat) (s : St) : Op → St × Out
  | .new a ty size val =>
    match lookup s a with
    | some _ => (s, .skip)
    | none =>
      match mkShell cap szLarge size ⟨ty, val, false⟩ with
      | some sh => ({ slots := (a, sh) :: s.slots, live := s.live + 1 }, .ok)
      | none => (s, .noCtor)
  | .move b a =>
    match lookup s b, lookup s a with
    | none, some (.inl o) =>
      -- move-constructs the held object into the new buffer; the source keeps a moved-from object
      ({ slots := (b, .inl o) :: (a, .inl { o with moved := true }) :: erase s.slots a, live := s.live + 1 }, .ok)
    | none, some (.large p) =>
      -- LargeData's move constructor swaps the pointers: no object is created
      ({ slots := (b, .large p) :: (a, .large none) :: erase s.slots a, live := s.live }, .ok)
    | _, _ => (s, .skip)
  | .get a =>
    match lookup s a with
    | some sh => if sh.movedFrom then (s, .skip) else
      (match sh.obj? with
      | some o => (s, .val o.val)
      | none => (s, .skip))
    | none => (s, .skip)
  | .isType a ty =>
    match lookup s a with
    | some sh => if sh.movedFrom then (s, .skip) else
      (match sh.obj? with
      | some o => (s, .bool (o.ty == ty))
      | none => (s, .skip))
    | none => (s, .skip)
  | .del a =>
    match lookup s a with
    | some sh => ({ slots := erase s.slots a, live := s.live - sh.held }, .ok)
    | none => (s, .skip)

def run (cap szLarge : Nat) : St → List Op → St × List Out
  | s, [] => (s, [])
  | s, op :: r =>
    let (s', o) := step cap szLarge s op
    let (s'', os) := run cap szLarge s' r
    (s'', o :: os)

end Evp.AnyData
