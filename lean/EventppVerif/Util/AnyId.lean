import EventppVerif.Generated.AnyIdFrag
/-
  Model of `eventpp::AnyId` (utilities/anyid.h): a digest plus an optional stored value.
  The three operators are NOT written here: they are the definitions re-generated from the source
  on every run (Generated/AnyIdFrag.lean).
-/
namespace Evp.AnyId

/-- An id over a value storage `V` (for `EmptyAnyStorage` take `V := Unit`). Digests are
    `std::size_t`-like: naturals with their order. -/
structure Id (V : Type) where
  digest : Nat
  value : V

/-- what the Storage type offers: `==` (or the fall-back `true`) and `<` (or the fall-back `false`) -/
structure Cmp (V : Type) where
  veq : V → V → Bool
  vlt : V → V → Bool

/-- the property's assumption on a Storage that supports both operators: `==` is an equivalence,
    `<` a strict weak order whose incomparability is `==`.  (A Storage supporting neither is the
    instance `veq = fun _ _ => true`, `vlt = fun _ _ => false`, see `Cmp.none_coherent`.) -/
structure Coherent {V : Type} (c : Cmp V) : Prop where
  eq_refl : ∀ a, c.veq a a = true
  eq_symm : ∀ a b, c.veq a b = true → c.veq b a = true
  eq_trans : ∀ a b d, c.veq a b = true → c.veq b d = true → c.veq a d = true
  lt_irrefl : ∀ a, c.vlt a a = false
  lt_trans : ∀ a b d, c.vlt a b = true → c.vlt b d = true → c.vlt a d = true
  incomp : ∀ a b, (c.vlt a b = false ∧ c.vlt b a = false) ↔ c.veq a b = true

/-- Storage with neither operator: the source's fall-backs -/
def Cmp.none (V : Type) : Cmp V :=
  ⟨fun _ _ => Gen.AnyId.noEqFallback, fun _ _ => Gen.AnyId.noLtFallback⟩

variable {V : Type}

def idEq (c : Cmp V) (a b : Id V) : Bool :=
  Gen.AnyId.eq (a.digest == b.digest) (c.veq a.value b.value)

def idLt (c : Cmp V) (a b : Id V) : Bool :=
  Gen.AnyId.lt (decide (a.digest < b.digest)) (c.vlt a.value b.value) (a.digest == b.digest)

/-- `std::hash<AnyId>`: a function of the digest only (`Gen.AnyId.hashOfDigestOnly`) -/
def idHash (h : Nat → Nat) (a : Id V) : Nat := h a.digest

/-- the comparable storage used by the harness: values are `Nat` codes -/
def natCmp' : Cmp Nat := ⟨fun a b => a == b, fun a b => decide (a < b)⟩

end Evp.AnyId
