import EventppVerif.Generated.DispatchFrag
/-
  Evaluation-order model of the call expressions that both read the event from an argument and
  forward that same argument (eventdispatcher.h `dispatch` ×2, eventqueue.h `enqueue` ×2,
  hetereventqueue.h `doEnqueue` ×2).  An argument value is `{val, valid}`; forwarding a by-value
  (movable) argument moves it and leaves the source invalid; reading the event from an invalid source
  yields the moved-from key.  The order in which sibling function arguments are evaluated is
  unspecified: `order` ranges over both orders.  Whether the read is a sibling argument or sequenced
  before the call is regenerated from the source (Generated/DispatchFrag.lean).
-/
namespace Evp.EvalOrder

structure Val where
  val : Nat
  valid : Bool
deriving DecidableEq, Repr

/-- the two initialisations inside the call expression -/
inductive Init | readEvent | forwardArg
deriving DecidableEq, Repr

/-- state while evaluating: the caller's argument object, the event read so far, the value passed on -/
structure St where
  arg : Val
  event : Option Nat := none
  passed : Option Val := none
deriving DecidableEq, Repr

/-- the key a moved-from object yields (an empty string, a null pointer …): not the caller's key -/
def movedFromKey : Nat := 0

def evalInit (s : St) : Init → St
  | .readEvent => { s with event := some (if s.arg.valid then s.arg.val else movedFromKey) }
  | .forwardArg => { s with passed := some s.arg, arg := { s.arg with valid := false } }

def evalAll (s : St) (order : List Init) : St := order.foldl evalInit s

/-- the two possible evaluation orders of the sibling arguments -/
def orders : List (List Init) := [[.readEvent, .forwardArg], [.forwardArg, .readEvent]]

/-- result of the call expression: the event the dispatch is routed to and the argument value the
    listeners receive.  `sequenced = true`: the event is read in its own statement (or in a braced
    initialiser list, which is evaluated left to right) before the forwarding. -/
def callResult (sequenced : Bool) (order : List Init) (arg : Val) : Option Nat × Option Val :=
  let s := if sequenced then evalAll { arg := arg } [.readEvent, .forwardArg] else evalAll { arg := arg } order
  (s.event, s.passed)

end Evp.EvalOrder
