/-
  Generic fault model for property C09 (exception safety).

  An operation of the library is a *step table*: the sequence of points at which memory is
  allocated (`alloc`, may throw `bad_alloc`), user code runs (`user`: a copy / move / comparison /
  hash / call of a user type, may throw anything) or the shared structure is written (`mutate`).
  The writes themselves (pointer assignments, `splice`, `swap`, counter updates) do not throw.

  `runFault steps k s` runs the table from state `s` and lets the `k`-th fault point throw; it
  returns the state at the throw — what the caller finds after the exception has reached it — and
  whether anything was thrown at all.

  The *strong* guarantee ("the object is exactly as it was before the call") is a property of the
  shape of the table: every fault point precedes every write (`FaultsFirst`: allocate-then-link,
  copy-and-swap).  The *basic* guarantee is what holds for every table: the state at the throw is
  the result of exactly the writes that precede the throwing point (`prefixBefore`).

  The tables of the concrete operations are at the end of the file, each with the place in the
  source it is read off from.  The theorems are in `Properties/C09.lean`.
-/
namespace Evp.Fault

inductive Step (σ : Type)
  /-- a memory allocation (may throw `bad_alloc`) -/
  | alloc
  /-- user code runs: copy / move / compare / hash / call (may throw) -/
  | user (kind : Nat)
  /-- a write to the shared structure (does not throw) -/
  | mutate (f : σ → σ)

/-- kinds of user code, for the readability of the tables only -/
abbrev kCopy : Nat := 0
abbrev kMove : Nat := 1
abbrev kCompare : Nat := 2
abbrev kHash : Nat := 3
abbrev kCall : Nat := 4

variable {σ : Type}

namespace Step

def isFaultPoint : Step σ → Bool
  | .alloc => true
  | .user _ => true
  | .mutate _ => false

def isMutate : Step σ → Bool
  | .mutate _ => true
  | _ => false

end Step

/-- run the steps; nothing throws -/
def runAll : List (Step σ) → σ → σ
  | [], s => s
  | .mutate f :: r, s => runAll r (f s)
  | .alloc :: r, s => runAll r s
  | .user _ :: r, s => runAll r s

/-- run the steps; the `k`-th fault point (0-based, counting `alloc` and `user` steps in order)
    throws.  Returns the state at the throw (the writes before it applied) and whether it threw. -/
def runFault : List (Step σ) → Nat → σ → σ × Bool
  | [], _, s => (s, false)
  | .mutate f :: r, k, s => runFault r k (f s)
  | .alloc :: _, 0, s => (s, true)
  | .alloc :: r, k + 1, s => runFault r k s
  | .user _ :: _, 0, s => (s, true)
  | .user _ :: r, k + 1, s => runFault r k s

/-- number of fault points of a table -/
def faultPoints (steps : List (Step σ)) : Nat := steps.countP Step.isFaultPoint

/-- the steps executed before the `k`-th fault point throws (all of them if there is no such
    point) -/
def prefixBefore : List (Step σ) → Nat → List (Step σ)
  | [], _ => []
  | .mutate f :: r, k => .mutate f :: prefixBefore r k
  | .alloc :: _, 0 => []
  | .alloc :: r, k + 1 => .alloc :: prefixBefore r k
  | .user _ :: _, 0 => []
  | .user n :: r, k + 1 => .user n :: prefixBefore r k

/-- allocate-then-link / copy-and-swap shape: every fault point precedes every write -/
def FaultsFirst (steps : List (Step σ)) : Prop :=
  ∃ pre post, steps = pre ++ post ∧ (∀ st ∈ pre, st.isMutate = false) ∧
    (∀ st ∈ post, st.isFaultPoint = false)

/-- executable form of `FaultsFirst`: no fault point after the first write -/
def faultsFirstB : List (Step σ) → Bool
  | [] => true
  | .mutate _ :: r => r.all (fun st => !st.isFaultPoint)
  | .alloc :: r => faultsFirstB r
  | .user _ :: r => faultsFirstB r

/-! ### basic facts -/

@[simp] theorem faultPoints_nil : faultPoints ([] : List (Step σ)) = 0 := rfl
@[simp] theorem faultPoints_mutate (f : σ → σ) (r : List (Step σ)) :
    faultPoints (.mutate f :: r) = faultPoints r := by simp [faultPoints, Step.isFaultPoint]
@[simp] theorem faultPoints_alloc (r : List (Step σ)) :
    faultPoints (.alloc :: r) = faultPoints r + 1 := by simp [faultPoints, List.countP_cons, Step.isFaultPoint]
@[simp] theorem faultPoints_user (n : Nat) (r : List (Step σ)) :
    faultPoints (.user n :: r) = faultPoints r + 1 := by simp [faultPoints, List.countP_cons, Step.isFaultPoint]
theorem faultPoints_append (l m : List (Step σ)) :
    faultPoints (l ++ m) = faultPoints l + faultPoints m := by simp [faultPoints]

theorem faultPoints_eq_zero {steps : List (Step σ)} (h : ∀ st ∈ steps, st.isFaultPoint = false) :
    faultPoints steps = 0 := by
  induction steps with
  | nil => rfl
  | cons st r ih =>
    have h1 := h st (by simp)
    have h2 := ih (fun t ht => h t (by simp [ht]))
    cases st <;> simp_all [Step.isFaultPoint]

/-- whether the run throws depends on the table and on `k` only -/
theorem runFault_snd (steps : List (Step σ)) (k : Nat) (s : σ) :
    (runFault steps k s).2 = decide (k < faultPoints steps) := by
  induction steps generalizing k s with
  | nil => simp [runFault]
  | cons st r ih =>
    cases st with
    | mutate f => simp [runFault, ih]
    | alloc => cases k <;> simp [runFault, ih]
    | user n => cases k <;> simp [runFault, ih]

theorem runFault_of_ge {steps : List (Step σ)} {k : Nat} (h : faultPoints steps ≤ k) (s : σ) :
    runFault steps k s = (runAll steps s, false) := by
  induction steps generalizing k s with
  | nil => rfl
  | cons st r ih =>
    cases st with
    | mutate f => simp only [faultPoints_mutate] at h; simp [runFault, runAll, ih h]
    | alloc =>
      simp only [faultPoints_alloc] at h
      cases k with
      | zero => omega
      | succ k => simp [runFault, runAll, ih (by omega : faultPoints r ≤ k)]
    | user n =>
      simp only [faultPoints_user] at h
      cases k with
      | zero => omega
      | succ k => simp [runFault, runAll, ih (by omega : faultPoints r ≤ k)]

/-- the state at the throw is the state after exactly the steps before the throwing point -/
theorem runFault_fst (steps : List (Step σ)) (k : Nat) (s : σ) :
    (runFault steps k s).1 = runAll (prefixBefore steps k) s := by
  induction steps generalizing k s with
  | nil => rfl
  | cons st r ih =>
    cases st with
    | mutate f => simp [runFault, prefixBefore, runAll, ih]
    | alloc => cases k <;> simp [runFault, prefixBefore, runAll, ih]
    | user n => cases k <;> simp [runFault, prefixBefore, runAll, ih]

theorem prefixBefore_prefix (steps : List (Step σ)) (k : Nat) : prefixBefore steps k <+: steps := by
  induction steps generalizing k with
  | nil => exact List.prefix_refl _
  | cons st r ih =>
    cases st with
    | mutate f => simp only [prefixBefore]; exact List.cons_prefix_cons.mpr ⟨rfl, ih k⟩
    | alloc =>
      cases k with
      | zero => simp [prefixBefore]
      | succ k => simp only [prefixBefore]; exact List.cons_prefix_cons.mpr ⟨rfl, ih k⟩
    | user n =>
      cases k with
      | zero => simp [prefixBefore]
      | succ k => simp only [prefixBefore]; exact List.cons_prefix_cons.mpr ⟨rfl, ih k⟩

/-- `prefixBefore steps k` is exactly the part of the table in front of the `k`-th fault point -/
theorem prefixBefore_spec {steps : List (Step σ)} {k : Nat} (h : k < faultPoints steps) :
    ∃ fp rest, steps = prefixBefore steps k ++ fp :: rest ∧ fp.isFaultPoint = true ∧
      faultPoints (prefixBefore steps k) = k := by
  induction steps generalizing k with
  | nil => simp at h
  | cons st r ih =>
    cases st with
    | mutate f =>
      simp only [faultPoints_mutate] at h
      obtain ⟨fp, rest, h1, h2, h3⟩ := ih h
      exact ⟨fp, rest, by simp only [prefixBefore, List.cons_append]; rw [← h1], h2,
        by simp [prefixBefore, h3]⟩
    | alloc =>
      cases k with
      | zero => exact ⟨.alloc, r, rfl, rfl, rfl⟩
      | succ k =>
        simp only [faultPoints_alloc] at h
        obtain ⟨fp, rest, h1, h2, h3⟩ := ih (by omega : k < faultPoints r)
        exact ⟨fp, rest, by simp only [prefixBefore, List.cons_append]; rw [← h1], h2,
          by simp [prefixBefore, h3]⟩
    | user n =>
      cases k with
      | zero => exact ⟨.user n, r, rfl, rfl, rfl⟩
      | succ k =>
        simp only [faultPoints_user] at h
        obtain ⟨fp, rest, h1, h2, h3⟩ := ih (by omega : k < faultPoints r)
        exact ⟨fp, rest, by simp only [prefixBefore, List.cons_append]; rw [← h1], h2,
          by simp [prefixBefore, h3]⟩

theorem prefixBefore_of_ge {steps : List (Step σ)} {k : Nat} (h : faultPoints steps ≤ k) :
    prefixBefore steps k = steps := by
  induction steps generalizing k with
  | nil => rfl
  | cons st r ih =>
    cases st with
    | mutate f => simp only [faultPoints_mutate] at h; simp [prefixBefore, ih h]
    | alloc =>
      simp only [faultPoints_alloc] at h
      cases k with
      | zero => omega
      | succ k => simp [prefixBefore, ih (by omega : faultPoints r ≤ k)]
    | user n =>
      simp only [faultPoints_user] at h
      cases k with
      | zero => omega
      | succ k => simp [prefixBefore, ih (by omega : faultPoints r ≤ k)]

theorem runAll_append (l m : List (Step σ)) (s : σ) : runAll (l ++ m) s = runAll m (runAll l s) := by
  induction l generalizing s with
  | nil => rfl
  | cons st r ih => cases st <;> simp [runAll, ih]

theorem runAll_noMutate {l : List (Step σ)} (h : ∀ st ∈ l, st.isMutate = false) (s : σ) :
    runAll l s = s := by
  induction l generalizing s with
  | nil => rfl
  | cons st r ih =>
    have h2 := ih (fun t ht => h t (by simp [ht]))
    have h1 := h st (by simp)
    cases st <;> simp_all [runAll, Step.isMutate]

/-- a table without fault points never throws -/
theorem runFault_noFault {l : List (Step σ)} (h : ∀ st ∈ l, st.isFaultPoint = false) (k : Nat) (s : σ) :
    (runFault l k s).2 = false := by
  rw [runFault_snd, faultPoints_eq_zero h]; simp

/-- a write-free prefix either throws, with the state untouched, or hands the run over to the rest
    of the table, with the state untouched -/
theorem runFault_append_noMutate {pre : List (Step σ)} (h : ∀ st ∈ pre, st.isMutate = false)
    (post : List (Step σ)) (k : Nat) (s : σ) :
    runFault (pre ++ post) k s = (s, true) ∨ ∃ k', runFault (pre ++ post) k s = runFault post k' s := by
  induction pre generalizing k with
  | nil => exact .inr ⟨k, rfl⟩
  | cons st r ih =>
    have h2 := fun k => ih (fun t ht => h t (by simp [ht])) k
    have h1 := h st (by simp)
    cases st with
    | mutate f => simp [Step.isMutate] at h1
    | alloc =>
      cases k with
      | zero => exact .inl rfl
      | succ k => simpa [runFault] using h2 k
    | user n =>
      cases k with
      | zero => exact .inl rfl
      | succ k => simpa [runFault] using h2 k

/-- every state on the way satisfies what every write preserves: if `P` holds before the call and
    each write of the table preserves it, `P` holds at the throw -/
theorem runFault_preserves {P : σ → Prop} {steps : List (Step σ)}
    (h : ∀ f, Step.mutate f ∈ steps → ∀ s, P s → P (f s)) (k : Nat) {s : σ} (hs : P s) :
    P (runFault steps k s).1 := by
  induction steps generalizing k s with
  | nil => exact hs
  | cons st r ih =>
    have ih' := fun k s hs => ih (fun f hf => h f (by simp [hf])) k (s := s) hs
    cases st with
    | mutate f => exact ih' k (f s) (h f (by simp) s hs)
    | alloc => cases k <;> simp only [runFault] <;> first | exact hs | exact ih' _ _ hs
    | user n => cases k <;> simp only [runFault] <;> first | exact hs | exact ih' _ _ hs

/-! ### `FaultsFirst` and its executable form -/

theorem all_noFault_iff (l : List (Step σ)) :
    l.all (fun st => !st.isFaultPoint) = true ↔ ∀ st ∈ l, st.isFaultPoint = false := by
  simp [List.all_eq_true]

theorem faultsFirstB_of_noFault {l : List (Step σ)} (h : ∀ st ∈ l, st.isFaultPoint = false) :
    faultsFirstB l = true := by
  cases l with
  | nil => rfl
  | cons st r =>
    have h1 := h st (by simp)
    cases st with
    | mutate f =>
      simp only [faultsFirstB]
      exact (all_noFault_iff r).mpr (fun t ht => h t (by simp [ht]))
    | alloc => simp [Step.isFaultPoint] at h1
    | user n => simp [Step.isFaultPoint] at h1

theorem faultsFirst_iff (steps : List (Step σ)) : FaultsFirst steps ↔ faultsFirstB steps = true := by
  constructor
  · rintro ⟨pre, post, rfl, hpre, hpost⟩
    induction pre with
    | nil => exact faultsFirstB_of_noFault hpost
    | cons st r ih =>
      have h1 := hpre st (by simp)
      have h2 := ih (fun t ht => hpre t (by simp [ht]))
      cases st with
      | mutate f => simp [Step.isMutate] at h1
      | alloc => exact h2
      | user n => exact h2
  · intro h
    induction steps with
    | nil => exact ⟨[], [], rfl, by simp, by simp⟩
    | cons st r ih =>
      cases st with
      | mutate f =>
        refine ⟨[], .mutate f :: r, rfl, by simp, ?_⟩
        intro t ht
        rcases List.mem_cons.mp ht with rfl | ht
        · rfl
        · exact (all_noFault_iff r).mp h t ht
      | alloc =>
        obtain ⟨pre, post, h1, h2, h3⟩ := ih h
        refine ⟨.alloc :: pre, post, by simp [h1], ?_, h3⟩
        intro t ht
        rcases List.mem_cons.mp ht with rfl | ht
        · rfl
        · exact h2 t ht
      | user n =>
        obtain ⟨pre, post, h1, h2, h3⟩ := ih h
        refine ⟨.user n :: pre, post, by simp [h1], ?_, h3⟩
        intro t ht
        rcases List.mem_cons.mp ht with rfl | ht
        · rfl
        · exact h2 t ht

theorem FaultsFirst.of_check {steps : List (Step σ)} (h : faultsFirstB steps = true) :
    FaultsFirst steps := (faultsFirst_iff steps).mpr h

/-- an operation that runs no user code and allocates nothing (`remove`, `swap`, move) -/
theorem FaultsFirst.of_noFault {steps : List (Step σ)} (h : ∀ st ∈ steps, st.isFaultPoint = false) :
    FaultsFirst steps := ⟨[], steps, rfl, by simp, h⟩

/-- an operation that writes nothing (`peekEvent`, `has`, `forEach` of a read-only function) -/
theorem FaultsFirst.of_noMutate {steps : List (Step σ)} (h : ∀ st ∈ steps, st.isMutate = false) :
    FaultsFirst steps := ⟨steps, [], by simp, h, by simp⟩

/-! ### histories: operations run one after the other, some of them with an injected fault -/

/-- an operation of a history: its table, and the fault point that throws (if any) -/
abbrev Op (σ : Type) := List (Step σ) × Option Nat

/-- the state the operation leaves (at its end, or at the throw) -/
def Op.run (op : Op σ) (s : σ) : σ :=
  match op.2 with
  | none => runAll op.1 s
  | some k => (runFault op.1 k s).1

/-- the operation ended with an exception -/
def Op.threw (op : Op σ) : Bool :=
  match op.2 with
  | none => false
  | some k => decide (k < faultPoints op.1)

def runHistory (h : List (Op σ)) (s : σ) : σ := h.foldl (fun s op => op.run s) s

/-- the history with the operations that threw left out, and no fault injected into the others -/
def unfaulted (h : List (Op σ)) : List (Op σ) :=
  (h.filter (fun op => !op.threw)).map (fun op => (op.1, none))

theorem Op.threw_spec (op : Op σ) (s : σ) :
    op.threw = match op.2 with
      | none => false
      | some k => (runFault op.1 k s).2 := by
  unfold Op.threw
  split
  · rfl
  · rw [runFault_snd]

theorem Op.run_of_not_threw {op : Op σ} (h : op.threw = false) (s : σ) : op.run s = runAll op.1 s := by
  unfold Op.threw at h
  unfold Op.run
  split
  · rfl
  · rename_i k hk
    simp only [hk, decide_eq_false_iff_not, Nat.not_lt] at h
    rw [runFault_of_ge h]

/-! ### the tables of the concrete operations

  State of a callback list: the callbacks in list order.  State of a queue: the queued events in
  queue order.  State of a scoped remover together with its list: the callbacks attached to the
  list, and the callbacks the remover has recorded for removal. -/

abbrev CL := List Nat
abbrev Qu := List Nat

/-- `CallbackList::append` (callbacklist.h, `append`): `doAllocateNode(callback)` =
    `std::make_shared<Node>(callback, counter)` allocates the node and copy-constructs the callback
    into it, *then* the mutex is taken and `doAppend` links the node (pointer writes only). -/
def appendSteps (cb : Nat) : List (Step CL) :=
  [.alloc, .user kCopy, .mutate (· ++ [cb])]

/-- `CallbackList::prepend`: same shape, the node is linked at the head. -/
def prependSteps (cb : Nat) : List (Step CL) :=
  [.alloc, .user kCopy, .mutate (cb :: ·)]

/-- `CallbackList::insert(callback, before)`: `before.lock()` (no throw), `doAllocateNode`, then
    `doInsert` in front of position `i` (or `doAppend` when `before` is gone: `i ≥ length`). -/
def insertSteps (cb : Nat) (i : Nat) : List (Step CL) :=
  [.alloc, .user kCopy, .mutate (fun l => l.take i ++ cb :: l.drop i)]

/-- `CallbackList::remove(handle)`: `handle.lock()`, `doFreeNode`: pointer writes and the release
    of a `shared_ptr`; destructors do not throw.  No fault point at all. -/
def removeSteps (i : Nat) : List (Step CL) :=
  [.mutate (fun l => l.eraseIdx i)]

/-- `CallbackListBase::operator=(const CallbackListBase &)` (copy-and-swap):
    `CallbackListBase copied(other)` runs `cloneFrom` — per node of `other` one `make_shared<Node>`
    (allocation) and one copy of the callback — into a *local* list; then `swap(copied)` (noexcept,
    pointer writes).  A throw destroys `copied` only.
    `HeterCallbackListBase::operator=(const &)` has the same shape (and is no longer declared
    `noexcept`: fix cdc8c7c, recorded under "fixed" for C09). -/
def assignSteps (other : CL) : List (Step CL) :=
  other.flatMap (fun _ => [Step.alloc, Step.user kCopy]) ++ [.mutate (fun _ => other)]

/-- `EventQueue::enqueue` (eventqueue.h, `enqueue` / `doEnqueue`), `std::list` policy:
    `QueuedEvent{getEvent(args...), QueuedEventArgumentsType(std::forward<A>(args)...)}` copies /
    moves the arguments into a temporary; `doEnqueue` takes a recycled slot from `freeList` into a
    local `tempList` or `emplace_back`s a new one (allocation); `it->set(std::move(item))` moves the
    event into the slot; only then `queueList.splice(queueList.end(), tempList, it)` (pointer
    writes).  A throw before the splice destroys the local `tempList`; `queueList` is untouched.
    (A recycled slot that was already taken out of `freeList` is destroyed with `tempList`: the
    recycling cache is one node shorter, which no member function reports.) -/
def enqueueSteps (e : Nat) : List (Step Qu) :=
  [.user kMove, .alloc, .user kMove, .mutate (· ++ [e])]

/-- `EventQueue::peekEvent`: `*queuedEvent = queueList.front().get()` — one copy assignment of the
    user's event type into the caller's object; the queue is only read. -/
def peekSteps : List (Step Qu) :=
  [.user kCopy]

/-- state of a remover utility and the list it works on -/
structure RS where
  /-- callbacks attached to the callback list / dispatcher -/
  attached : List Nat
  /-- callbacks recorded in `itemList`, i.e. those the remover will detach -/
  recorded : List Nat
deriving DecidableEq, Repr

/-- the order a repaired `ScopedRemover::append` would use (reserve the record first, then attach,
    then fill the record in: no fault point after the first write) -/
def removerAppendFixedSteps (cb : Nat) : List (Step RS) :=
  [.alloc, .alloc, .user kCopy,
   .mutate (fun s => { s with attached := s.attached ++ [cb] }),
   .mutate (fun s => { s with recorded := s.recorded ++ [cb] })]

/-- the REAL `ScopedRemover::appendListener` / `append` (utilities/scopedremover.h):
    `Item item { event, dispatcher->appendListener(event, listener) }` runs the whole `append` of
    the list — node allocation, callback copy, link — and only then `itemList.push_back(item)`
    allocates the record.  Not `FaultsFirst`: known finding `rem.append:unrecorded-listener`. -/
def scopedRemoverAppendSteps (cb : Nat) : List (Step RS) :=
  [.alloc, .user kCopy,
   .mutate (fun s => { s with attached := s.attached ++ [cb] }),
   .alloc,
   .mutate (fun s => { s with recorded := s.recorded ++ [cb] })]

/-- state of a copy in progress: the source container and the destination under construction -/
structure CopyS where
  src : List Nat
  dst : List Nat
deriving DecidableEq, Repr

/-- copy construction (`CallbackListBase(const CallbackListBase &)`, `cloneFrom`): per node of the
    source one allocation and one callback copy, then the new node is linked to the destination.
    The destination grows while fault points are still ahead (not `FaultsFirst`), the source is
    only read. -/
def copyCtorSteps (src : List Nat) : List (Step CopyS) :=
  src.flatMap (fun x => [Step.alloc, Step.user kCopy,
    Step.mutate (fun s => { s with dst := s.dst ++ [x] })])

/-! ### shapes of the tables -/

theorem appendSteps_faultsFirst (cb : Nat) : FaultsFirst (appendSteps cb) := .of_check rfl
theorem prependSteps_faultsFirst (cb : Nat) : FaultsFirst (prependSteps cb) := .of_check rfl
theorem insertSteps_faultsFirst (cb i : Nat) : FaultsFirst (insertSteps cb i) := .of_check rfl
theorem removeSteps_faultsFirst (i : Nat) : FaultsFirst (removeSteps i) := .of_check rfl
theorem enqueueSteps_faultsFirst (e : Nat) : FaultsFirst (enqueueSteps e) := .of_check rfl
theorem peekSteps_faultsFirst : FaultsFirst peekSteps := .of_check rfl
theorem removerAppendFixedSteps_faultsFirst (cb : Nat) : FaultsFirst (removerAppendFixedSteps cb) :=
  .of_check rfl

theorem assignSteps_faultsFirst (other : CL) : FaultsFirst (assignSteps other) := by
  refine ⟨_, _, rfl, ?_, ?_⟩
  · intro st hst
    simp only [List.mem_flatMap, List.mem_cons, List.not_mem_nil, or_false] at hst
    obtain ⟨_, _, rfl | rfl⟩ := hst <;> rfl
  · intro st hst
    simp only [List.mem_singleton] at hst
    subst hst
    rfl

theorem scopedRemoverAppendSteps_not_faultsFirst (cb : Nat) :
    ¬ FaultsFirst (scopedRemoverAppendSteps cb) := by
  rw [faultsFirst_iff]
  simp [scopedRemoverAppendSteps, faultsFirstB, Step.isFaultPoint]

theorem faultPoints_assignSteps (other : CL) : faultPoints (assignSteps other) = 2 * other.length := by
  have h : ∀ l : List Nat,
      faultPoints (l.flatMap (fun _ => [(Step.alloc : Step CL), Step.user kCopy])) = 2 * l.length := by
    intro l
    induction l with
    | nil => rfl
    | cons x r ih =>
      simp only [List.flatMap_cons, List.cons_append, List.nil_append, faultPoints_alloc,
        faultPoints_user, List.length_cons, ih]
      omega
  simp [assignSteps, faultPoints_append, h]

/-- a copy construction interrupted anywhere: the source is what it was, the destination holds a
    prefix of the source's elements (a well-formed, shorter list — which the unwinding then
    destroys) -/
theorem copyCtor_fault (rest : List Nat) (k : Nat) (S done : List Nat) :
    (runFault (copyCtorSteps rest) k ⟨S, done⟩).1.src = S ∧
    ∃ m, m <+: rest ∧ (runFault (copyCtorSteps rest) k ⟨S, done⟩).1.dst = done ++ m := by
  induction rest generalizing k done with
  | nil => exact ⟨rfl, [], List.prefix_refl _, by simp [copyCtorSteps, runFault]⟩
  | cons x r ih =>
    match k with
    | 0 => exact ⟨rfl, [], List.nil_prefix, by simp [copyCtorSteps, runFault]⟩
    | 1 => exact ⟨rfl, [], List.nil_prefix, by simp [copyCtorSteps, runFault]⟩
    | k + 2 =>
      have h : runFault (copyCtorSteps (x :: r)) (k + 2) ⟨S, done⟩ =
          runFault (copyCtorSteps r) k ⟨S, done ++ [x]⟩ := by
        simp [copyCtorSteps, runFault]
      rw [h]
      obtain ⟨h1, m, hm, h2⟩ := ih k (done ++ [x])
      exact ⟨h1, x :: m, List.cons_prefix_cons.mpr ⟨rfl, hm⟩, by rw [h2]; simp⟩

end Evp.Fault
