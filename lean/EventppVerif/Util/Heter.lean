import EventppVerif.CL.Spec
/-
  Model of the heterogeneous classes (hetercallbacklist.h, hetereventdispatcher.h,
  hetereventqueue.h): one callback list per (event, prototype); a callback is bound to the FIRST
  listed prototype it can be called with, an invocation / dispatch / enqueue selects the FIRST
  listed prototype callable with its argument types (`firstMatch` over a `callable` matrix that the
  harness measures from the compiler); queued events carry the index of the prototype they were
  filed under (`callableIndex`) and a typed read of a slot is only legal for that index.
  The per-prototype lists are Spec-level lists (C01/C02).  Non-re-entrant histories.
-/
namespace Evp.Heter
open Evp

/-- first listed prototype (index `< n`) for which `ok` holds -/
def firstMatch (n : Nat) (ok : Nat → Bool) : Option Nat := (List.range n).find? ok

/-- the next listed prototype after `p` for which `ok` holds -/
def nextMatch (n : Nat) (ok : Nat → Bool) (p : Nat) : Option Nat :=
  (List.range n).find? (fun i => decide (p < i) && ok i)

structure HEvent where
  seq : Nat
  key : Nat
  /-- `callableIndex`: the prototype the event was filed under -/
  tag : Nat
  /-- argument kind and value -/
  kind : Nat
  val : Nat
deriving DecidableEq, Repr

/-- the static description of a heterogeneous class: prototypes and what is callable with what -/
structure Sig where
  nproto : Nat
  /-- callback kind `k` can be called with the arguments of prototype `p` -/
  cbOk : Nat → Nat → Bool
  /-- prototype `p` can be called with arguments of kind `a` -/
  argOk : Nat → Nat → Bool
  /-- predicate kind `f` can be called with the arguments of prototype `p` -/
  predOk : Nat → Nat → Bool

structure HW where
  /-- listeners of (event `key`, prototype `p`) at index `key * 16 + p` -/
  lists : Store SList := {}
  queue : List HEvent := []
  nextId : Nat := 0
  nextSeq : Nat := 0
  /-- a slot was read as the wrong type (must stay `false`) -/
  confused : Bool := false
deriving Inhabited

def slot (key p : Nat) : Nat := key * 16 + p

inductive HOp
  | listen (key kind : Nat) (cb : Cb)
  | remove (key : Nat) (h : Hd) (p : Nat)     -- the handle remembers its prototype index `p`
  | dispatch (key kind val : Nat)
  | enqueue (key kind val : Nat)
  | process
  | processOne
  | processIf (pkind m r : Nat)
deriving DecidableEq, Repr

inductive HEv
  | call (key p : Nat) (h : Hd) (cb : Cb) (kind val : Nat)
  | pred (pkind kind val : Nat)
  | res (s : String)
deriving DecidableEq, Repr

/-- call every listener of (key, p) in order with the value -/
def callAll (w : HW) (key p kind val : Nat) : List HEv :=
  (w.lists (slot key p)).map (fun e => HEv.call key p e.id e.cb kind val)

/-- `directDispatch`: select the prototype from the argument kind -/
def dispatchEv (sg : Sig) (w : HW) (key kind val : Nat) : List HEv :=
  match firstMatch sg.nproto (fun p => sg.argOk p kind) with
  | some p => callAll w key p kind val
  | none => []

def predVal (m r val : Nat) : Bool := decide (0 < m) && val % m == r

/-- one pass of `doProcessIf<PrototypeInfo>` for prototype `p`: examine exactly the events filed
    under `p`; dispatch and drop those the predicate accepts; everything else stays in place -/
def ifPass (sg : Sig) (w : HW) (pkind m r p : Nat) : List HEvent → List HEvent × List HEv × Bool
  | [] => ([], [], false)
  | e :: rest =>
    let (kept, evs, any) := ifPass sg w pkind m r p rest
    if e.tag = p then
      if predVal m r e.val then (kept, HEv.pred pkind e.kind e.val :: dispatchEv sg w e.key e.kind e.val ++ evs, true)
      else (e :: kept, HEv.pred pkind e.kind e.val :: evs, any)
    else (e :: kept, evs, any)

/-- `processIf`: prototypes the predicate is callable with, in listed order, until one pass
    dispatched something -/
def processIfFrom (sg : Sig) (w : HW) (pkind m r : Nat) : Nat → Option Nat → List HEvent → List HEvent × List HEv × Bool
  | 0, _, q => (q, [], false)
  | _ + 1, none, q => (q, [], false)
  | fuel + 1, some p, q =>
    if q.isEmpty then (q, [], false) else
    let (kept, evs, any) := ifPass sg w pkind m r p q
    if any then (kept, evs, true)
    else
      let (q2, evs2, any2) := processIfFrom sg w pkind m r fuel (nextMatch sg.nproto (fun i => sg.predOk pkind i) p) kept
      (q2, evs ++ evs2, any2)

def step (sg : Sig) (w : HW) : HOp → HW × List HEv
  | .listen key kind cb =>
    match firstMatch sg.nproto (fun p => sg.cbOk kind p) with
    | some p =>
      ({ w with lists := upd w.lists (slot key p) ((w.lists (slot key p)).append w.nextId cb), nextId := w.nextId + 1 },
        [.res s!"h{w.nextId}"])
    | none => (w, [.res "nomatch"])
  | .remove key h p =>
    let (l', r) := (w.lists (slot key p)).remove h
    ({ w with lists := upd w.lists (slot key p) l' }, [.res (if r then "true" else "false")])
  | .dispatch key kind val => (w, dispatchEv sg w key kind val ++ [.res "unit"])
  | .enqueue key kind val =>
    match firstMatch sg.nproto (fun p => sg.argOk p kind) with
    | some p => ({ w with queue := w.queue ++ [⟨w.nextSeq, key, p, kind, val⟩], nextSeq := w.nextSeq + 1 }, [.res "unit"])
    | none => (w, [.res "nomatch"])
  | .process =>
    if w.queue.isEmpty then (w, [.res "false"]) else
    ({ w with queue := [] }, w.queue.flatMap (fun e => dispatchEv sg w e.key e.kind e.val) ++ [.res "true"])
  | .processOne =>
    match w.queue with
    | [] => (w, [.res "false"])
    | e :: rest => ({ w with queue := rest }, dispatchEv sg w e.key e.kind e.val ++ [.res "true"])
  | .processIf pkind m r =>
    if w.queue.isEmpty then (w, [.res "false"]) else
    let (q, evs, any) := processIfFrom sg w pkind m r (sg.nproto + 1)
      (firstMatch sg.nproto (fun i => sg.predOk pkind i)) w.queue
    ({ w with queue := q }, evs ++ [.res (if any then "true" else "false")])

def run (sg : Sig) : HW → List HOp → HW × List HEv
  | w, [] => (w, [])
  | w, op :: r =>
    let (w', e) := step sg w op
    let (w'', es) := run sg w' r
    (w'', e ++ es)

end Evp.Heter
