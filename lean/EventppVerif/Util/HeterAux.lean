import EventppVerif.Util.Heter
/-
  Helper lemmas for property C14 (Properties/C14.lean) about the model Util/Heter.lean.
-/
namespace Evp.Heter
open Evp

/-! ### selection: `find?` over `List.range` is "the least index" -/

theorem find_range_none (n : Nat) (f : Nat → Bool) :
    (List.range n).find? f = none ↔ ∀ q < n, f q = false := by
  simp [List.find?_eq_none, List.mem_range]

theorem find_range_some (n : Nat) (f : Nat → Bool) (p : Nat) :
    (List.range n).find? f = some p ↔ p < n ∧ f p = true ∧ ∀ q < p, f q = false := by
  induction n generalizing p with
  | zero => simp
  | succ n ih =>
    rw [List.range_succ, List.find?_append]
    cases h : (List.range n).find? f with
    | none =>
      have hn := (find_range_none n f).1 h
      by_cases hf : f n = true
      · simp only [List.find?_cons, hf, Option.none_or, Option.some.injEq]
        constructor
        · intro e; subst e
          exact ⟨by omega, hf, hn⟩
        · rintro ⟨h1, h2, h3⟩
          by_cases hlt : p < n
          · rw [hn p hlt] at h2; cases h2
          · by_cases hgt : n < p
            · rw [h3 n hgt] at hf; cases hf
            · omega
      · simp only [List.find?_cons, List.find?_nil, hf, Option.none_or]
        constructor
        · intro e; cases e
        · rintro ⟨h1, h2, h3⟩
          by_cases hlt : p < n
          · rw [hn p hlt] at h2; cases h2
          · have : p = n := by omega
            subst this; exact absurd h2 hf
    | some x =>
      have ⟨hx1, hx2, hx3⟩ := (ih x).1 h
      simp only [Option.some_or, Option.some.injEq]
      constructor
      · intro e; subst e
        exact ⟨by omega, hx2, hx3⟩
      · rintro ⟨h1, h2, h3⟩
        by_cases hlt : p < x
        · rw [hx3 p hlt] at h2; cases h2
        · by_cases hgt : x < p
          · rw [h3 x hgt] at hx2; cases hx2
          · omega


theorem firstMatch_some (n : Nat) (ok : Nat → Bool) (p : Nat) :
    firstMatch n ok = some p ↔ p < n ∧ ok p = true ∧ ∀ q < p, ok q = false :=
  find_range_some n ok p

theorem firstMatch_none (n : Nat) (ok : Nat → Bool) :
    firstMatch n ok = none ↔ ∀ q < n, ok q = false :=
  find_range_none n ok

theorem nextMatch_some (n : Nat) (ok : Nat → Bool) (p p' : Nat) :
    nextMatch n ok p = some p' ↔
      p' < n ∧ p < p' ∧ ok p' = true ∧ ∀ q, p < q → q < p' → ok q = false := by
  unfold nextMatch
  rw [find_range_some]
  constructor
  · rintro ⟨h1, h2, h3⟩
    simp only [Bool.and_eq_true, decide_eq_true_eq] at h2
    refine ⟨h1, h2.1, h2.2, fun q hq hq' => ?_⟩
    have := h3 q hq'
    simpa [hq] using this
  · rintro ⟨h1, h2, h3, h4⟩
    refine ⟨h1, by simp [h2, h3], fun q hq => ?_⟩
    by_cases hpq : p < q
    · simp [h4 q hpq hq]
    · simp [hpq]

theorem nextMatch_none (n : Nat) (ok : Nat → Bool) (p : Nat) :
    nextMatch n ok p = none ↔ ∀ q, p < q → q < n → ok q = false := by
  unfold nextMatch
  rw [find_range_none]
  constructor
  · intro h q hq hq'
    have := h q hq'
    simpa [hq] using this
  · intro h q hq
    by_cases hpq : p < q
    · simp [h q hpq hq]
    · simp [hpq]

/-! ### slots -/

theorem slot_inj {key key' p p' : Nat} (hp : p < 16) (hp' : p' < 16)
    (h : slot key p = slot key' p') : key = key' ∧ p = p' := by
  unfold slot at h; omega

/-! ### events -/

/-- the event is a predicate call -/
def HEv.isPred : HEv → Bool
  | .pred .. => true
  | _ => false

/-- the event is a listener call -/
def HEv.isCall : HEv → Bool
  | .call .. => true
  | _ => false

@[simp] theorem isPred_pred (a b c : Nat) : (HEv.pred a b c).isPred = true := rfl
@[simp] theorem isPred_call (a b : Nat) (h : Hd) (cb : Cb) (c d : Nat) :
    (HEv.call a b h cb c d).isPred = false := rfl
@[simp] theorem isPred_res (s : String) : (HEv.res s).isPred = false := rfl

theorem callAll_noPred (w : HW) (key p kind val : Nat) :
    (callAll w key p kind val).filter (fun ev => !ev.isPred) = callAll w key p kind val := by
  unfold callAll
  rw [List.filter_eq_self]
  intro a ha
  rw [List.mem_map] at ha
  obtain ⟨e, _, rfl⟩ := ha
  rfl

theorem dispatchEv_noPred (sg : Sig) (w : HW) (key kind val : Nat) :
    (dispatchEv sg w key kind val).filter (fun ev => !ev.isPred) = dispatchEv sg w key kind val := by
  unfold dispatchEv
  split
  · exact callAll_noPred ..
  · rfl

theorem dispatchEv_mem_not_pred (sg : Sig) (w : HW) (key kind val : Nat) (ev : HEv)
    (h : ev ∈ dispatchEv sg w key kind val) : ev.isPred = false := by
  rw [← dispatchEv_noPred] at h
  have := (List.mem_filter.1 h).2
  simpa using this

/-- `dispatchEv` in terms of the selected prototype -/
theorem dispatchEv_of_some (sg : Sig) (w : HW) (key kind val p : Nat)
    (h : firstMatch sg.nproto (fun p => sg.argOk p kind) = some p) :
    dispatchEv sg w key kind val =
      (w.lists (slot key p)).map (fun e => HEv.call key p e.id e.cb kind val) := by
  unfold dispatchEv callAll; rw [h]

theorem dispatchEv_of_none (sg : Sig) (w : HW) (key kind val : Nat)
    (h : firstMatch sg.nproto (fun p => sg.argOk p kind) = none) :
    dispatchEv sg w key kind val = [] := by
  unfold dispatchEv; rw [h]

/-! ### one `processIf` pass -/

/-- the pass for prototype `p` removes (and dispatches) exactly these events -/
def removedBy (m r p : Nat) (e : HEvent) : Bool := decide (e.tag = p) && predVal m r e.val

section pass
variable (sg : Sig) (w : HW) (pkind m r p : Nat)

theorem ifPass_cons (e : HEvent) (rest : List HEvent) :
    ifPass sg w pkind m r p (e :: rest) =
      if e.tag = p then
        if predVal m r e.val then
          ((ifPass sg w pkind m r p rest).1,
            HEv.pred pkind e.kind e.val :: dispatchEv sg w e.key e.kind e.val ++
              (ifPass sg w pkind m r p rest).2.1, true)
        else (e :: (ifPass sg w pkind m r p rest).1,
            HEv.pred pkind e.kind e.val :: (ifPass sg w pkind m r p rest).2.1,
            (ifPass sg w pkind m r p rest).2.2)
      else (e :: (ifPass sg w pkind m r p rest).1, (ifPass sg w pkind m r p rest).2.1,
            (ifPass sg w pkind m r p rest).2.2) := rfl

theorem ifPass_kept (q : List HEvent) :
    (ifPass sg w pkind m r p q).1 = q.filter (fun e => !removedBy m r p e) := by
  induction q with
  | nil => rfl
  | cons e rest ih =>
    rw [ifPass_cons]
    by_cases ht : e.tag = p
    · by_cases hv : predVal m r e.val = true
      · simp [ht, hv, removedBy, ih]
      · simp [ht, hv, removedBy, ih]
    · simp [ht, removedBy, ih]

theorem ifPass_any (q : List HEvent) :
    (ifPass sg w pkind m r p q).2.2 = q.any (removedBy m r p) := by
  induction q with
  | nil => rfl
  | cons e rest ih =>
    rw [ifPass_cons]
    by_cases ht : e.tag = p
    · by_cases hv : predVal m r e.val = true
      · simp [ht, hv, removedBy]
      · simp [ht, hv, removedBy, ih]
    · simp [ht, removedBy, ih]

/-- the events of a pass: one predicate call per event filed under `p`, in queue order, each
    accepted one followed by its dispatch -/
theorem ifPass_evs (q : List HEvent) :
    (ifPass sg w pkind m r p q).2.1 = q.flatMap (fun e =>
      if e.tag = p then
        HEv.pred pkind e.kind e.val ::
          (if predVal m r e.val then dispatchEv sg w e.key e.kind e.val else [])
      else []) := by
  induction q with
  | nil => rfl
  | cons e rest ih =>
    rw [ifPass_cons]
    by_cases ht : e.tag = p
    · by_cases hv : predVal m r e.val = true
      · simp [ht, hv, ih]
      · simp [ht, hv, ih]
    · simp [ht, ih]

theorem ifPass_evs_noPred (q : List HEvent) :
    (ifPass sg w pkind m r p q).2.1.filter (fun ev => !ev.isPred) =
      (q.filter (removedBy m r p)).flatMap (fun e => dispatchEv sg w e.key e.kind e.val) := by
  induction q with
  | nil => rfl
  | cons e rest ih =>
    rw [ifPass_cons]
    by_cases ht : e.tag = p
    · by_cases hv : predVal m r e.val = true
      · simp [ht, hv, ih, removedBy, dispatchEv_noPred]
      · simp [ht, hv, ih, removedBy]
    · simp [ht, ih, removedBy]

theorem ifPass_pred_mem (q : List HEvent) (ev : HEv)
    (h : ev ∈ (ifPass sg w pkind m r p q).2.1) (hp : ev.isPred = true) :
    ∃ e ∈ q, e.tag = p ∧ ev = HEv.pred pkind e.kind e.val := by
  rw [ifPass_evs, List.mem_flatMap] at h
  obtain ⟨e, he, hev⟩ := h
  refine ⟨e, he, ?_⟩
  by_cases ht : e.tag = p
  · rw [if_pos ht] at hev
    rcases List.mem_cons.1 hev with rfl | hev
    · exact ⟨ht, rfl⟩
    · by_cases hv : predVal m r e.val = true
      · rw [if_pos hv] at hev
        rw [dispatchEv_mem_not_pred _ _ _ _ _ _ hev] at hp; cases hp
      · rw [if_neg hv] at hev; cases hev
  · rw [if_neg ht] at hev; cases hev

/-- nothing accepted: the pass leaves the queue as it is -/
theorem ifPass_kept_of_not_any (q : List HEvent)
    (h : (ifPass sg w pkind m r p q).2.2 = false) : (ifPass sg w pkind m r p q).1 = q := by
  rw [ifPass_kept, List.filter_eq_self]
  rw [ifPass_any] at h
  intro e he
  have := List.any_eq_false.1 h e he
  simpa using this

end pass

/-! ### `processIf`: the passes over the prototypes the predicate is callable with -/

section pif
variable (sg : Sig) (w : HW) (pkind m r : Nat)

theorem processIfFrom_none (fuel : Nat) (q : List HEvent) :
    processIfFrom sg w pkind m r fuel none q = (q, [], false) := by
  cases fuel <;> rfl

theorem processIfFrom_zero (op : Option Nat) (q : List HEvent) :
    processIfFrom sg w pkind m r 0 op q = (q, [], false) := rfl

theorem processIfFrom_some (fuel p : Nat) (q : List HEvent) :
    processIfFrom sg w pkind m r (fuel + 1) (some p) q =
      if q.isEmpty then (q, [], false) else
      if (ifPass sg w pkind m r p q).2.2 then
        ((ifPass sg w pkind m r p q).1, (ifPass sg w pkind m r p q).2.1, true)
      else
        ((processIfFrom sg w pkind m r fuel (nextMatch sg.nproto (fun i => sg.predOk pkind i) p)
            (ifPass sg w pkind m r p q).1).1,
         (ifPass sg w pkind m r p q).2.1 ++
          (processIfFrom sg w pkind m r fuel (nextMatch sg.nproto (fun i => sg.predOk pkind i) p)
            (ifPass sg w pkind m r p q).1).2.1,
         (processIfFrom sg w pkind m r fuel (nextMatch sg.nproto (fun i => sg.predOk pkind i) p)
            (ifPass sg w pkind m r p q).1).2.2) := rfl

/-- prototype `p` (at or after `lb`) is one the predicate is callable with and some queued event
    filed under it is accepted by the predicate -/
def Cand (q : List HEvent) (lb p : Nat) : Prop :=
  lb ≤ p ∧ p < sg.nproto ∧ sg.predOk pkind p = true ∧ ∃ e ∈ q, removedBy m r p e = true

/-- Full functional description of `processIfFrom` started at the least callable prototype
    `≥ lb` with enough fuel. -/
theorem processIfFrom_spec (fuel : Nat) (op : Option Nat) (lb : Nat) (q : List HEvent)
    (hleast : ∀ t, lb ≤ t → t < sg.nproto → sg.predOk pkind t = true → ∃ p0, op = some p0 ∧ p0 ≤ t)
    (hop : ∀ p0, op = some p0 →
      lb ≤ p0 ∧ p0 < sg.nproto ∧ sg.predOk pkind p0 = true ∧ sg.nproto < fuel + p0) :
    ((processIfFrom sg w pkind m r fuel op q).2.2 = false ∧
      (processIfFrom sg w pkind m r fuel op q).1 = q ∧
      (processIfFrom sg w pkind m r fuel op q).2.1.filter (fun ev => !ev.isPred) = [] ∧
      ∀ p, ¬ Cand sg pkind m r q lb p) ∨
    ((processIfFrom sg w pkind m r fuel op q).2.2 = true ∧
      ∃ p, Cand sg pkind m r q lb p ∧ (∀ p', p' < p → ¬ Cand sg pkind m r q lb p') ∧
        (processIfFrom sg w pkind m r fuel op q).1 = q.filter (fun e => !removedBy m r p e) ∧
        (processIfFrom sg w pkind m r fuel op q).2.1.filter (fun ev => !ev.isPred) =
          (q.filter (removedBy m r p)).flatMap (fun e => dispatchEv sg w e.key e.kind e.val)) := by
  induction fuel generalizing op lb q with
  | zero =>
    cases op with
    | none =>
      left
      rw [processIfFrom_none]
      refine ⟨rfl, rfl, rfl, ?_⟩
      rintro p ⟨h1, h2, h3, _⟩
      obtain ⟨p0, hp0, _⟩ := hleast p h1 h2 h3
      cases hp0
    | some p0 =>
      have := hop p0 rfl
      omega
  | succ fuel ih =>
    cases op with
    | none =>
      left
      rw [processIfFrom_none]
      refine ⟨rfl, rfl, rfl, ?_⟩
      rintro p ⟨h1, h2, h3, _⟩
      obtain ⟨p0, hp0, _⟩ := hleast p h1 h2 h3
      cases hp0
    | some p0 =>
      obtain ⟨hlb, hp0n, hp0ok, hfuel⟩ := hop p0 rfl
      have hbelow : ∀ p, p < p0 → ¬ Cand sg pkind m r q lb p := by
        rintro p hp ⟨h1, h2, h3, _⟩
        obtain ⟨p1, hp1, hle⟩ := hleast p h1 h2 h3
        cases hp1
        omega
      rw [processIfFrom_some]
      by_cases hq : q.isEmpty = true
      · rw [if_pos hq]
        left
        refine ⟨rfl, rfl, rfl, ?_⟩
        rintro p ⟨_, _, _, e, he, _⟩
        rw [List.isEmpty_iff] at hq
        subst hq
        cases he
      · rw [if_neg hq]
        by_cases hany : (ifPass sg w pkind m r p0 q).2.2 = true
        · rw [if_pos hany]
          right
          refine ⟨rfl, p0, ⟨hlb, hp0n, hp0ok, ?_⟩, hbelow, ifPass_kept .., ifPass_evs_noPred ..⟩
          rw [ifPass_any, List.any_eq_true] at hany
          exact hany
        · rw [if_neg hany]
          have hany' : (ifPass sg w pkind m r p0 q).2.2 = false := by
            cases h : (ifPass sg w pkind m r p0 q).2.2 with
            | true => exact absurd h hany
            | false => rfl
          have hnone : ∀ e ∈ q, removedBy m r p0 e = false := by
            rw [ifPass_any] at hany'
            exact List.any_eq_false.1 hany' |> fun h e he => by simpa using h e he
          have hat : ¬ Cand sg pkind m r q lb p0 := by
            rintro ⟨_, _, _, e, he, hr⟩
            rw [hnone e he] at hr; cases hr
          have hpassEv : (ifPass sg w pkind m r p0 q).2.1.filter (fun ev => !ev.isPred) = [] := by
            rw [ifPass_evs_noPred]
            have : q.filter (removedBy m r p0) = [] := by
              rw [List.filter_eq_nil_iff]
              intro e he
              rw [hnone e he]; simp
            rw [this]; rfl
          rw [ifPass_kept_of_not_any _ _ _ _ _ _ _ hany']
          have hlift : ∀ p, Cand sg pkind m r q lb p → p0 < p → Cand sg pkind m r q (p0 + 1) p := by
            rintro p ⟨_, h2, h3, h4⟩ hlt
            exact ⟨hlt, h2, h3, h4⟩
          have hdrop : ∀ p, Cand sg pkind m r q (p0 + 1) p → Cand sg pkind m r q lb p := by
            rintro p ⟨h1, h2, h3, h4⟩
            exact ⟨by omega, h2, h3, h4⟩
          have hnot : ∀ p, ¬ Cand sg pkind m r q (p0 + 1) p → ¬ Cand sg pkind m r q lb p := by
            intro p hn hc
            by_cases h1 : p < p0
            · exact hbelow p h1 hc
            · by_cases h2 : p = p0
              · subst h2; exact hat hc
              · exact hn (hlift p hc (by omega))
          have key := ih (nextMatch sg.nproto (fun i => sg.predOk pkind i) p0) (p0 + 1) q
            (by
              intro t ht htn htok
              cases hnm : nextMatch sg.nproto (fun i => sg.predOk pkind i) p0 with
              | none =>
                have := (nextMatch_none _ _ _).1 hnm t (by omega) htn
                simp only [htok] at this; cases this
              | some p1 =>
                refine ⟨p1, rfl, ?_⟩
                obtain ⟨_, h2, _, h4⟩ := (nextMatch_some _ _ _ _).1 hnm
                by_cases hlt : t < p1
                · have := h4 t (by omega) hlt
                  simp only [htok] at this; cases this
                · omega)
            (by
              intro p1 hnm
              obtain ⟨h1, h2, h3, _⟩ := (nextMatch_some _ _ _ _).1 hnm
              exact ⟨by omega, h1, h3, by omega⟩)
          rcases key with ⟨k1, k2, k3, k4⟩ | ⟨k1, p, kc, kmin, k2, k3⟩
          · left
            refine ⟨k1, k2, ?_, fun p => hnot p (k4 p)⟩
            rw [List.filter_append, hpassEv, k3]; rfl
          · right
            refine ⟨k1, p, hdrop p kc, fun p' hp' => hnot p' (kmin p' hp'), k2, ?_⟩
            rw [List.filter_append, hpassEv, k3]; rfl

/-- every predicate call made by `processIfFrom` is for a queued event filed under a prototype
    the predicate is callable with -/
theorem processIfFrom_pred_mem (fuel : Nat) (op : Option Nat) (q : List HEvent)
    (hop : ∀ p0, op = some p0 → sg.predOk pkind p0 = true) (ev : HEv)
    (h : ev ∈ (processIfFrom sg w pkind m r fuel op q).2.1) (hp : ev.isPred = true) :
    ∃ e ∈ q, sg.predOk pkind e.tag = true ∧ ev = HEv.pred pkind e.kind e.val := by
  induction fuel generalizing op q with
  | zero => rw [processIfFrom_zero] at h; cases h
  | succ fuel ih =>
    cases op with
    | none => rw [processIfFrom_none] at h; cases h
    | some p0 =>
      have hok := hop p0 rfl
      rw [processIfFrom_some] at h
      by_cases hq : q.isEmpty = true
      · rw [if_pos hq] at h; cases h
      · rw [if_neg hq] at h
        have hpass : ev ∈ (ifPass sg w pkind m r p0 q).2.1 →
            ∃ e ∈ q, sg.predOk pkind e.tag = true ∧ ev = HEv.pred pkind e.kind e.val := by
          intro h
          obtain ⟨e, he, ht, hev⟩ := ifPass_pred_mem _ _ _ _ _ _ _ _ h hp
          exact ⟨e, he, by rw [ht]; exact hok, hev⟩
        by_cases hany : (ifPass sg w pkind m r p0 q).2.2 = true
        · rw [if_pos hany] at h
          exact hpass h
        · rw [if_neg hany] at h
          rcases List.mem_append.1 h with h | h
          · exact hpass h
          · obtain ⟨e, he, hr⟩ := ih _ _ (by
              intro p1 hnm
              exact ((nextMatch_some _ _ _ _).1 hnm).2.2.1) h
            refine ⟨e, ?_, hr⟩
            rw [ifPass_kept] at he
            exact (List.mem_filter.1 he).1

end pif

/-! ### unfolding `step` -/

section stepEq
variable (sg : Sig) (w : HW)

theorem step_listen_some (key kind : Nat) (cb : Cb) (p : Nat)
    (h : firstMatch sg.nproto (fun p => sg.cbOk kind p) = some p) :
    step sg w (.listen key kind cb) =
      ({ w with lists := upd w.lists (slot key p) ((w.lists (slot key p)).append w.nextId cb),
                nextId := w.nextId + 1 }, [.res s!"h{w.nextId}"]) := by
  simp only [step, h]

theorem step_listen_none (key kind : Nat) (cb : Cb)
    (h : firstMatch sg.nproto (fun p => sg.cbOk kind p) = none) :
    step sg w (.listen key kind cb) = (w, [.res "nomatch"]) := by
  simp only [step, h]

theorem step_remove (key : Nat) (hd : Hd) (p : Nat) :
    step sg w (.remove key hd p) =
      ({ w with lists := upd w.lists (slot key p) ((w.lists (slot key p)).remove hd).1 },
        [.res (if ((w.lists (slot key p)).remove hd).2 then "true" else "false")]) := rfl

theorem step_dispatch (key kind val : Nat) :
    step sg w (.dispatch key kind val) = (w, dispatchEv sg w key kind val ++ [.res "unit"]) := rfl

theorem step_enqueue_some (key kind val p : Nat)
    (h : firstMatch sg.nproto (fun p => sg.argOk p kind) = some p) :
    step sg w (.enqueue key kind val) =
      ({ w with queue := w.queue ++ [⟨w.nextSeq, key, p, kind, val⟩], nextSeq := w.nextSeq + 1 },
        [.res "unit"]) := by
  simp only [step, h]

theorem step_enqueue_none (key kind val : Nat)
    (h : firstMatch sg.nproto (fun p => sg.argOk p kind) = none) :
    step sg w (.enqueue key kind val) = (w, [.res "nomatch"]) := by
  simp only [step, h]

theorem step_process_nil (h : w.queue = []) : step sg w .process = (w, [.res "false"]) := by
  simp [step, h]

theorem step_process_ne (h : w.queue ≠ []) :
    step sg w .process =
      ({ w with queue := [] },
        w.queue.flatMap (fun e => dispatchEv sg w e.key e.kind e.val) ++ [.res "true"]) := by
  simp [step, h]

theorem step_processOne_nil (h : w.queue = []) : step sg w .processOne = (w, [.res "false"]) := by
  simp only [step, h]

theorem step_processOne_cons (e : HEvent) (rest : List HEvent) (h : w.queue = e :: rest) :
    step sg w .processOne =
      ({ w with queue := rest }, dispatchEv sg w e.key e.kind e.val ++ [.res "true"]) := by
  simp only [step, h]

end stepEq

/-! ### the `processIf` step -/

section stepIf
variable (sg : Sig) (w : HW) (pkind m r : Nat)

theorem processIfFrom_sublist (fuel : Nat) (op : Option Nat) (q : List HEvent) :
    ((processIfFrom sg w pkind m r fuel op q).1).Sublist q := by
  induction fuel generalizing op q with
  | zero => rw [processIfFrom_zero]; exact List.Sublist.refl _
  | succ fuel ih =>
    cases op with
    | none => rw [processIfFrom_none]; exact List.Sublist.refl _
    | some p0 =>
      rw [processIfFrom_some]
      have hk : ((ifPass sg w pkind m r p0 q).1).Sublist q := by
        rw [ifPass_kept]; exact List.filter_sublist
      split
      · exact List.Sublist.refl _
      · split
        · exact hk
        · exact (ih _ _).trans hk

theorem step_processIf_eq :
    step sg w (.processIf pkind m r) =
      if w.queue.isEmpty then (w, [.res "false"]) else
      ({ w with queue := (processIfFrom sg w pkind m r (sg.nproto + 1)
            (firstMatch sg.nproto (fun i => sg.predOk pkind i)) w.queue).1 },
        (processIfFrom sg w pkind m r (sg.nproto + 1)
            (firstMatch sg.nproto (fun i => sg.predOk pkind i)) w.queue).2.1 ++
          [.res (if (processIfFrom sg w pkind m r (sg.nproto + 1)
            (firstMatch sg.nproto (fun i => sg.predOk pkind i)) w.queue).2.2 then "true" else "false")]) :=
  rfl

theorem step_processIf_queue_sublist :
    ((step sg w (.processIf pkind m r)).1.queue).Sublist w.queue := by
  rw [step_processIf_eq]
  split
  · exact List.Sublist.refl _
  · exact processIfFrom_sublist ..

/-- Full description of the `processIf` step: either nothing is accepted (no prototype the
    predicate is callable with has a queued event the predicate accepts) and the world is unchanged,
    or exactly the accepted events of the least such prototype are removed and dispatched. -/
theorem step_processIf_spec :
    ((step sg w (.processIf pkind m r)).1 = w ∧
      (step sg w (.processIf pkind m r)).2.filter (fun ev => !ev.isPred) = [.res "false"] ∧
      ∀ p, ¬ Cand sg pkind m r w.queue 0 p) ∨
    (∃ p, Cand sg pkind m r w.queue 0 p ∧ (∀ p', p' < p → ¬ Cand sg pkind m r w.queue 0 p') ∧
      (step sg w (.processIf pkind m r)).1 =
        { w with queue := w.queue.filter (fun e => !removedBy m r p e) } ∧
      (step sg w (.processIf pkind m r)).2.filter (fun ev => !ev.isPred) =
        (w.queue.filter (removedBy m r p)).flatMap (fun e => dispatchEv sg w e.key e.kind e.val)
          ++ [.res "true"]) := by
  rw [step_processIf_eq]
  by_cases hq : w.queue.isEmpty = true
  · rw [if_pos hq]
    left
    refine ⟨rfl, rfl, ?_⟩
    rintro p ⟨_, _, _, e, he, _⟩
    rw [List.isEmpty_iff] at hq
    rw [hq] at he; cases he
  · rw [if_neg hq]
    have key := processIfFrom_spec sg w pkind m r (sg.nproto + 1)
      (firstMatch sg.nproto (fun i => sg.predOk pkind i)) 0 w.queue
      (by
        intro t _ htn htok
        cases hfm : firstMatch sg.nproto (fun i => sg.predOk pkind i) with
        | none =>
          have := (firstMatch_none _ _).1 hfm t htn
          simp only [htok] at this; cases this
        | some p0 =>
          refine ⟨p0, rfl, ?_⟩
          obtain ⟨_, _, h3⟩ := (firstMatch_some _ _ _).1 hfm
          by_cases hlt : t < p0
          · have := h3 t hlt
            simp only [htok] at this; cases this
          · omega)
      (by
        intro p0 hfm
        obtain ⟨h1, h2, _⟩ := (firstMatch_some _ _ _).1 hfm
        exact ⟨by omega, h1, h2, by omega⟩)
    rcases key with ⟨k1, k2, k3, k4⟩ | ⟨k1, p, kc, kmin, k2, k3⟩
    · left
      refine ⟨?_, ?_, k4⟩
      · show ({ w with queue := _ } : HW) = w
        rw [k2]
      · show List.filter _ (_ ++ _) = _
        rw [List.filter_append, k3, k1]; rfl
    · right
      refine ⟨p, kc, kmin, ?_, ?_⟩
      · show ({ w with queue := _ } : HW) = _
        rw [k2]
      · show List.filter _ (_ ++ _) = _
        rw [List.filter_append, k3, k1]; rfl

theorem step_processIf_pred (ev : HEv) (h : ev ∈ (step sg w (.processIf pkind m r)).2)
    (hp : ev.isPred = true) :
    ∃ e ∈ w.queue, sg.predOk pkind e.tag = true ∧ ev = HEv.pred pkind e.kind e.val := by
  rw [step_processIf_eq] at h
  by_cases hq : w.queue.isEmpty = true
  · rw [if_pos hq] at h
    rcases List.mem_singleton.1 h with rfl
    cases hp
  · rw [if_neg hq] at h
    rcases List.mem_append.1 h with h | h
    · exact processIfFrom_pred_mem sg w pkind m r _ _ _
        (fun p0 hfm => ((firstMatch_some _ _ _).1 hfm).2.1) ev h hp
    · rcases List.mem_singleton.1 h with rfl
      cases hp

end stepIf

/-! ### the global invariant -/

/-- what holds in every reachable world -/
structure WF (sg : Sig) (w : HW) : Prop where
  /-- FIFO: the queue is in enqueue order -/
  fifo : (w.queue.map (·.seq)).Pairwise (· < ·)
  fresh : ∀ e ∈ w.queue, e.seq < w.nextSeq
  /-- every queued event is filed under the first prototype callable with its argument kind -/
  tagged : ∀ e ∈ w.queue, firstMatch sg.nproto (fun p => sg.argOk p e.kind) = some e.tag
  /-- the handles of every listener list are increasing (hence distinct) and issued -/
  idsInc : ∀ s, ((w.lists s).map (·.id)).Pairwise (· < ·)
  idsFresh : ∀ s, ∀ e ∈ w.lists s, e.id < w.nextId
  unconfused : w.confused = false

theorem WF_init (sg : Sig) : WF sg {} := by
  refine ⟨List.Pairwise.nil, ?_, ?_, ?_, ?_, rfl⟩
  · intro e he; cases he
  · intro e he; cases he
  · intro s
    show (List.map _ (({} : Store SList) s)).Pairwise _
    rw [Store.empty_get]; exact List.Pairwise.nil
  · intro s e he
    have : (({} : HW).lists s) = [] := Store.empty_get s
    rw [this] at he; cases he

theorem WF_of_sublist {sg : Sig} {w : HW} (h : WF sg w) (q : List HEvent)
    (hs : q.Sublist w.queue) : WF sg { w with queue := q } :=
  ⟨(h.fifo).sublist (hs.map _), fun e he => h.fresh e (hs.subset he),
    fun e he => h.tagged e (hs.subset he), h.idsInc, h.idsFresh, h.unconfused⟩

theorem remove_sublist (L : SList) (h : Hd) : (L.remove h).1.Sublist L := by
  unfold SList.remove
  split
  · exact List.filter_sublist
  · exact List.Sublist.refl _

theorem WF_step {sg : Sig} {w : HW} (h : WF sg w) (op : HOp) : WF sg (step sg w op).1 := by
  cases op with
  | listen key kind cb =>
    cases hfm : firstMatch sg.nproto (fun p => sg.cbOk kind p) with
    | none => rw [step_listen_none _ _ _ _ _ hfm]; exact h
    | some p =>
      rw [step_listen_some _ _ _ _ _ _ hfm]
      refine ⟨h.fifo, h.fresh, h.tagged, ?_, ?_, h.unconfused⟩
      · intro s
        show (List.map _ ((upd w.lists (slot key p) _) s)).Pairwise _
        rw [upd_get]
        split
        · show (List.map _ (w.lists (slot key p) ++ [_])).Pairwise _
          rw [List.map_append, List.pairwise_append]
          refine ⟨h.idsInc _, List.pairwise_singleton _ _, ?_⟩
          intro a ha b hb
          rw [List.mem_map] at ha
          obtain ⟨e, he, rfl⟩ := ha
          rcases List.mem_singleton.1 hb with rfl
          exact h.idsFresh _ e he
        · exact h.idsInc s
      · intro s e he
        show e.id < w.nextId + 1
        change e ∈ (upd w.lists (slot key p) _) s at he
        rw [upd_get] at he
        split at he
        · rcases List.mem_append.1 he with he | he
          · exact Nat.lt_succ_of_lt (h.idsFresh _ e he)
          · rcases List.mem_singleton.1 he with rfl
            exact Nat.lt_succ_self _
        · exact Nat.lt_succ_of_lt (h.idsFresh _ e he)
  | remove key hd p =>
    rw [step_remove]
    refine ⟨h.fifo, h.fresh, h.tagged, ?_, ?_, h.unconfused⟩
    · intro s
      show (List.map _ ((upd w.lists (slot key p) _) s)).Pairwise _
      rw [upd_get]
      split
      · exact (h.idsInc _).sublist ((remove_sublist _ _).map _)
      · exact h.idsInc s
    · intro s e he
      change e ∈ (upd w.lists (slot key p) _) s at he
      rw [upd_get] at he
      split at he
      · exact h.idsFresh _ e ((remove_sublist _ _).subset he)
      · exact h.idsFresh _ e he
  | dispatch key kind val => exact h
  | enqueue key kind val =>
    cases hfm : firstMatch sg.nproto (fun p => sg.argOk p kind) with
    | none => rw [step_enqueue_none _ _ _ _ _ hfm]; exact h
    | some p =>
      rw [step_enqueue_some _ _ _ _ _ _ hfm]
      refine ⟨?_, ?_, ?_, h.idsInc, h.idsFresh, h.unconfused⟩
      · show (List.map _ (w.queue ++ [_])).Pairwise _
        rw [List.map_append, List.pairwise_append]
        refine ⟨h.fifo, List.pairwise_singleton _ _, ?_⟩
        intro a ha b hb
        rw [List.mem_map] at ha
        obtain ⟨e, he, rfl⟩ := ha
        rcases List.mem_singleton.1 hb with rfl
        exact h.fresh e he
      · intro e he
        show e.seq < w.nextSeq + 1
        change e ∈ w.queue ++ [_] at he
        rcases List.mem_append.1 he with he | he
        · have := h.fresh e he; omega
        · rcases List.mem_singleton.1 he with rfl
          exact Nat.lt_succ_self _
      · intro e he
        change e ∈ w.queue ++ [_] at he
        rcases List.mem_append.1 he with he | he
        · exact h.tagged e he
        · rcases List.mem_singleton.1 he with rfl
          exact hfm
  | process =>
    by_cases hq : w.queue = []
    · rw [step_process_nil _ _ hq]; exact h
    · rw [step_process_ne _ _ hq]; exact WF_of_sublist h [] (List.nil_sublist _)
  | processOne =>
    cases hq : w.queue with
    | nil => rw [step_processOne_nil _ _ hq]; exact h
    | cons e rest =>
      rw [step_processOne_cons _ _ e rest hq]
      exact WF_of_sublist h rest (by rw [hq]; exact List.sublist_cons_self _ _)
  | processIf pkind m r =>
    have hs := step_processIf_queue_sublist sg w pkind m r
    rw [step_processIf_eq] at hs ⊢
    split
    · exact h
    · rw [if_neg (by assumption)] at hs
      exact WF_of_sublist h _ hs

theorem run_nil (sg : Sig) (w : HW) : run sg w [] = (w, []) := rfl

theorem run_cons (sg : Sig) (w : HW) (op : HOp) (ops : List HOp) :
    run sg w (op :: ops) =
      ((run sg (step sg w op).1 ops).1, (step sg w op).2 ++ (run sg (step sg w op).1 ops).2) := rfl

theorem WF_run {sg : Sig} {w : HW} (h : WF sg w) (ops : List HOp) : WF sg (run sg w ops).1 := by
  induction ops generalizing w with
  | nil => exact h
  | cons op ops ih =>
    rw [run_cons]
    exact ih (WF_step h op)

end Evp.Heter
