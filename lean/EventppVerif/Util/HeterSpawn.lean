import EventppVerif.Util.Heter
/-
  Heterogeneous queue with listeners that enqueue while they run.

  `step` (Util/Heter.lean) describes non-re-entrant histories.  The only re-entrant effect the
  queue part of property C14 speaks about is an `enqueue` performed by a listener while a
  processing call runs: the processing call has swapped / spliced the pending events out, so the
  new event is linked into the (then empty, or not-yet-examined) `queueList`, and whatever the
  processing call puts back (`processIf`: the events it did not consume) goes IN FRONT of it.
  Listeners do not change listener lists here, so the calls of one operation are those of `step`;
  the events they enqueue are appended, in call order, behind everything the operation leaves.

  `Spawn` is the listeners' enqueue behaviour: called with (key, cb, val) a listener may enqueue
  one event (key', kind', val').
-/
namespace Evp.Heter
open Evp

abbrev Spawn := Nat → Cb → Nat → Option (Nat × Nat × Nat)

/-- the events enqueued by the listener calls of one operation, in call order -/
def spawnedOf (sp : Spawn) (evs : List HEv) : List (Nat × Nat × Nat) :=
  evs.filterMap (fun e => match e with
    | .call key _ _ cb _ val => sp key cb val
    | _ => none)

/-- `enqueue` without a reported result (performed inside a listener) -/
def enqueueQuiet (sg : Sig) (w : HW) (x : Nat × Nat × Nat) : HW :=
  (step sg w (.enqueue x.1 x.2.1 x.2.2)).1

def enqueueAll (sg : Sig) (w : HW) (xs : List (Nat × Nat × Nat)) : HW :=
  xs.foldl (enqueueQuiet sg) w

/-- one top-level operation with spawning listeners -/
def stepS (sg : Sig) (sp : Spawn) (w : HW) (op : HOp) : HW × List HEv :=
  let r := step sg w op
  (enqueueAll sg r.1 (spawnedOf sp r.2), r.2)

def runS (sg : Sig) (sp : Spawn) : HW → List HOp → HW × List HEv
  | w, [] => (w, [])
  | w, op :: r =>
    let (w', e) := stepS sg sp w op
    let (w'', es) := runS sg sp w' r
    (w'', e ++ es)

/-- the event `enqueue` files for an argument kind, if a prototype is callable with it -/
def filed (sg : Sig) (seq : Nat) (x : Nat × Nat × Nat) : Option HEvent :=
  match firstMatch sg.nproto (fun p => sg.argOk p x.2.1) with
  | some p => some ⟨seq, x.1, p, x.2.1, x.2.2⟩
  | none => none

theorem enqueueQuiet_queue (sg : Sig) (w : HW) (x : Nat × Nat × Nat) :
    (enqueueQuiet sg w x).queue = w.queue ++ (filed sg w.nextSeq x).toList ∧
    (enqueueQuiet sg w x).lists = w.lists ∧ (enqueueQuiet sg w x).nextId = w.nextId ∧
    (enqueueQuiet sg w x).confused = w.confused := by
  unfold enqueueQuiet filed step
  cases h : firstMatch sg.nproto (fun p => sg.argOk p x.2.1) <;> simp [h]

/-- spawned enqueues only append: the queue the operation left is a prefix of the result, in
    place and intact -/
theorem enqueueAll_prefix (sg : Sig) (xs : List (Nat × Nat × Nat)) (w : HW) :
    ∃ added, (enqueueAll sg w xs).queue = w.queue ++ added ∧
      (enqueueAll sg w xs).lists = w.lists ∧ (enqueueAll sg w xs).nextId = w.nextId ∧
      added.length ≤ xs.length ∧
      ∀ e ∈ added, ∃ x ∈ xs, e.key = x.1 ∧ e.kind = x.2.1 ∧ e.val = x.2.2 ∧
        firstMatch sg.nproto (fun p => sg.argOk p x.2.1) = some e.tag := by
  induction xs generalizing w with
  | nil => exact ⟨[], by simp [enqueueAll]⟩
  | cons x xs ih =>
    obtain ⟨hq, hl, hn, _⟩ := enqueueQuiet_queue sg w x
    obtain ⟨added, h1, h2, h3, h4, h5⟩ := ih (enqueueQuiet sg w x)
    refine ⟨(filed sg w.nextSeq x).toList ++ added, ?_, ?_, ?_, ?_, ?_⟩
    · simp only [enqueueAll, List.foldl_cons] at h1 ⊢
      rw [h1, hq, List.append_assoc]
    · simp only [enqueueAll, List.foldl_cons] at h2 ⊢; rw [h2, hl]
    · simp only [enqueueAll, List.foldl_cons] at h3 ⊢; rw [h3, hn]
    · have : (filed sg w.nextSeq x).toList.length ≤ 1 := by cases filed sg w.nextSeq x <;> simp
      simp only [List.length_append, List.length_cons]; omega
    · intro e he
      rcases List.mem_append.mp he with he | he
      · refine ⟨x, by simp, ?_⟩
        unfold filed at he
        cases hm : firstMatch sg.nproto (fun p => sg.argOk p x.2.1) with
        | none => simp [hm] at he
        | some p => simp [hm] at he; subst he; simp
      · obtain ⟨y, hy, rest⟩ := h5 e he
        exact ⟨y, by simp [hy], rest⟩

/-- listeners that enqueue nothing: `stepS` is `step` -/
theorem stepS_none (sg : Sig) (w : HW) (op : HOp) :
    stepS sg (fun _ _ _ => none) w op = step sg w op := by
  have h : ∀ evs : List HEv, spawnedOf (fun _ _ _ => none) evs = [] := by
    intro evs
    induction evs with
    | nil => rfl
    | cons e es ih =>
      unfold spawnedOf at ih ⊢
      cases e <;> simp [ih]
  simp [stepS, h, enqueueAll]

end Evp.Heter

/-! ### a listener that empties its own heterogeneous list while it runs

`list = HeterCallbackList()` from inside a callback of `list` (the "remove everything" idiom of the
heterogeneous API).  The invocation in flight holds the per-prototype list it selected
(`doGetCallbackList` hands out an owning pointer), so it goes on over the callbacks it started on - the
calls of the operation are those of `step` - and the container is empty afterwards. -/
namespace Evp.Heter
open Evp

/-- does the listener `cb` of event `key` empty the lists of `key` when it is called? -/
abbrev Clear := Nat → Cb → Bool

def clearedKeys (cl : Clear) (evs : List HEv) : List Nat :=
  evs.filterMap (fun e => match e with
    | .call key _ _ cb _ _ => if cl key cb then some key else none
    | _ => none)

/-- every per-prototype list of `key` becomes empty -/
def clearKey (n : Nat) (w : HW) (key : Nat) : HW :=
  { w with lists := (List.range n).foldl (fun ls p => upd ls (slot key p) default) w.lists }

/-- one top-level operation with listeners that enqueue and listeners that empty their list -/
def stepC (sg : Sig) (sp : Spawn) (cl : Clear) (w : HW) (op : HOp) : HW × List HEv :=
  let r := stepS sg sp w op
  ((clearedKeys cl r.2).foldl (clearKey sg.nproto) r.1, r.2)

/-- the invocation in flight is not disturbed: the calls are those of `step`, once each, in order -/
theorem stepC_calls (sg : Sig) (sp : Spawn) (cl : Clear) (w : HW) (op : HOp) :
    (stepC sg sp cl w op).2 = (step sg w op).2 := rfl

theorem clearKeys_queue (n : Nat) (ks : List Nat) (w : HW) :
    (ks.foldl (clearKey n) w).queue = w.queue ∧ (ks.foldl (clearKey n) w).nextId = w.nextId ∧
    (ks.foldl (clearKey n) w).confused = w.confused := by
  induction ks generalizing w with
  | nil => simp
  | cons k ks ih =>
    obtain ⟨h1, h2, h3⟩ := ih (clearKey n w k)
    simp only [List.foldl_cons]
    exact ⟨h1, h2, h3⟩

/-- emptying listener lists never touches the pending events -/
theorem stepC_queue (sg : Sig) (sp : Spawn) (cl : Clear) (w : HW) (op : HOp) :
    (stepC sg sp cl w op).1.queue = (stepS sg sp w op).1.queue :=
  (clearKeys_queue sg.nproto _ _).1

private theorem foldl_upd_get (key : Nat) (ps : List Nat) (ls : Store SList) (j : Nat) :
    (ps.foldl (fun ls p => upd ls (slot key p) default) ls) j =
      if ps.any (fun p => j == slot key p) then default else ls j := by
  induction ps generalizing ls with
  | nil => simp
  | cons p ps ih =>
    simp only [List.foldl_cons, List.any_cons]
    rw [ih, upd_get]
    by_cases h1 : ps.any (fun p => j == slot key p) <;> by_cases h2 : j = slot key p <;> simp [h1, h2]

/-- after the clearing, every per-prototype list of that key is empty and the other keys' lists are as before -/
theorem clearKey_lists (n : Nat) (w : HW) (key : Nat) (k p : Nat) (hp : p < 16) (hn : n ≤ 16) :
    (clearKey n w key).lists (slot k p) = if k = key ∧ p < n then default else w.lists (slot k p) := by
  unfold clearKey
  simp only
  rw [foldl_upd_get]
  by_cases hk : k = key
  · subst hk
    by_cases hpn : p < n
    · have : (List.range n).any (fun q => slot k p == slot k q) = true := by
        simp only [List.any_eq_true, List.mem_range]
        exact ⟨p, hpn, by simp⟩
      simp [this, hpn]
    · have : (List.range n).any (fun q => slot k p == slot k q) = false := by
        simp only [List.any_eq_false, List.mem_range]
        intro q hq
        simp only [slot, beq_iff_eq]
        omega
      simp [this, hpn]
  · have : (List.range n).any (fun q => slot k p == slot key q) = false := by
      simp only [List.any_eq_false, List.mem_range]
      intro q hq
      simp only [slot, beq_iff_eq]
      omega
    simp [this, hk]

/-- no clearing listener: `stepC` is `stepS` -/
theorem stepC_none (sg : Sig) (sp : Spawn) (w : HW) (op : HOp) :
    stepC sg sp (fun _ _ => false) w op = stepS sg sp w op := by
  have h : ∀ evs : List HEv, clearedKeys (fun _ _ => false) evs = [] := by
    intro evs
    unfold clearedKeys
    rw [List.filterMap_eq_nil_iff]
    intro e _
    cases e <;> simp
  simp [stepC, h]

end Evp.Heter
