import EventppVerif.Util.Heter
/-
  Heterogeneous queue with listeners that enqueue while they run.

  `step` (Util/Heter.lean) describes non-re-entrant histories.  The only re-entrant effect the
  queue part of property C14 speaks about is an `enqueue` performed by a listener while a
  processing call runs: the processing call has swapped / spliced the pending events out, so the
  new event is linked into the (then empty, or not-yet-examined) `queueList`, and whatever the
  processing call puts back (`processIf`: the events it did not consume) goes IN FRONT of it.
  Listeners do not change listener lists here, so the calls of one operation are those of `step`;
  the events they enqueue are appended, in call order, behind everything the operation leaves.

  `Spawn` is the listeners' enqueue behaviour: called with (key, cb, val) a listener may enqueue
  one event (key', kind', val').
-/
namespace Evp.Heter
open Evp

abbrev Spawn := Nat → Cb → Nat → Option (Nat × Nat × Nat)

/-- the events enqueued by the listener calls of one operation, in call order -/
def spawnedOf (sp : Spawn) (evs : List HEv) : List (Nat × Nat × Nat) :=
  evs.filterMap (fun e => match e with
    | .call key _ _ cb _ val => sp key cb val
    | _ => none)

/-- `enqueue` without a reported result (performed inside a listener) -/
def enqueueQuiet (sg : Sig) (w : HW) (x : Nat × Nat × Nat) : HW :=
  (step sg w (.enqueue x.1 x.2.1 x.2.2)).1

def enqueueAll (sg : Sig) (w : HW) (xs : List (Nat × Nat × Nat)) : HW :=
  xs.foldl (enqueueQuiet sg) w

/-- one top-level operation with spawning listeners -/
def stepS (sg : Sig) (sp : Spawn) (w : HW) (op : HOp) : HW × List HEv :=
  let r := step sg w op
  (enqueueAll sg r.1 (spawnedOf sp r.2), r.2)

def runS (sg : Sig) (sp : Spawn) : HW → List HOp → HW × List HEv
  | w, [] => (w, [])
  | w, op :: r =>
    let (w', e) := stepS sg sp w op
    let (w'', es) := runS sg sp w' r
    (w'', e ++ es)

/-- the event `enqueue` files for an argument kind, if a prototype is callable with it -/
def filed (sg : Sig) (seq : Nat) (x : Nat × Nat × Nat) : Option HEvent :=
  match firstMatch sg.nproto (fun p => sg.argOk p x.2.1) with
  | some p => some ⟨seq, x.1, p, x.2.1, x.2.2⟩
  | none => none

theorem enqueueQuiet_queue (sg : Sig) (w : HW) (x : Nat × Nat × Nat) :
    (enqueueQuiet sg w x).queue = w.queue ++ (filed sg w.nextSeq x).toList ∧
    (enqueueQuiet sg w x).lists = w.lists ∧ (enqueueQuiet sg w x).nextId = w.nextId ∧
    (enqueueQuiet sg w x).confused = w.confused := by
  unfold enqueueQuiet filed step
  cases h : firstMatch sg.nproto (fun p => sg.argOk p x.2.1) <;> simp [h]

/-- spawned enqueues only append: the queue the operation left is a prefix of the result, in
    place and intact -/
theorem enqueueAll_prefix (sg : Sig) (xs : List (Nat × Nat × Nat)) (w : HW) :
    ∃ added, (enqueueAll sg w xs).queue = w.queue ++ added ∧
      (enqueueAll sg w xs).lists = w.lists ∧ (enqueueAll sg w xs).nextId = w.nextId ∧
      added.length ≤ xs.length ∧
      ∀ e ∈ added, ∃ x ∈ xs, e.key = x.1 ∧ e.kind = x.2.1 ∧ e.val = x.2.2 ∧
        firstMatch sg.nproto (fun p => sg.argOk p x.2.1) = some e.tag := by
  induction xs generalizing w with
  | nil => exact ⟨[], by simp [enqueueAll]⟩
  | cons x xs ih =>
    obtain ⟨hq, hl, hn, _⟩ := enqueueQuiet_queue sg w x
    obtain ⟨added, h1, h2, h3, h4, h5⟩ := ih (enqueueQuiet sg w x)
    refine ⟨(filed sg w.nextSeq x).toList ++ added, ?_, ?_, ?_, ?_, ?_⟩
    · simp only [enqueueAll, List.foldl_cons] at h1 ⊢
      rw [h1, hq, List.append_assoc]
    · simp only [enqueueAll, List.foldl_cons] at h2 ⊢; rw [h2, hl]
    · simp only [enqueueAll, List.foldl_cons] at h3 ⊢; rw [h3, hn]
    · have : (filed sg w.nextSeq x).toList.length ≤ 1 := by cases filed sg w.nextSeq x <;> simp
      simp only [List.length_append, List.length_cons]; omega
    · intro e he
      rcases List.mem_append.mp he with he | he
      · refine ⟨x, by simp, ?_⟩
        unfold filed at he
        cases hm : firstMatch sg.nproto (fun p => sg.argOk p x.2.1) with
        | none => simp [hm] at he
        | some p => simp [hm] at he; subst he; simp
      · obtain ⟨y, hy, rest⟩ := h5 e he
        exact ⟨y, by simp [hy], rest⟩

/-- listeners that enqueue nothing: `stepS` is `step` -/
theorem stepS_none (sg : Sig) (w : HW) (op : HOp) :
    stepS sg (fun _ _ _ => none) w op = step sg w op := by
  have h : ∀ evs : List HEv, spawnedOf (fun _ _ _ => none) evs = [] := by
    intro evs
    induction evs with
    | nil => rfl
    | cons e es ih =>
      unfold spawnedOf at ih ⊢
      cases e <;> simp [ih]
  simp [stepS, h, enqueueAll]

end Evp.Heter
