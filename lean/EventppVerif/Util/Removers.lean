import EventppVerif.CL.Spec
/-
  Model of `eventpp::ScopedRemover` (utilities/scopedremover.h) over a world of Spec-level
  callback lists (that the real lists behave like `SList` is C01/C02).  A remover is a target
  pointer plus the recorded handles (`itemList`).  `via` is a ghost set: the handles of all
  listeners ever added through some remover.
-/
namespace Evp.Rem
open Evp

structure Remover where
  target : Option Nat
  items : List Hd
deriving DecidableEq, Repr

structure RW where
  lists : Store SList := {}
  /-- the remover objects that are alive, by name -/
  rems : List (Nat × Remover) := []
  nextId : Nat := 0
  via : List Hd := []

inductive ROp
  | rnew (r l : Nat)
  | rappend (r : Nat) (cb : Cb)
  | rprepend (r : Nat) (cb : Cb)
  | rinsert (r : Nat) (cb : Cb) (before : Hd)
  | rremove (r : Nat) (h : Hd)
  | rreset (r : Nat)
  | rtarget (r l : Nat)
  | rmovector (dst src : Nat)
  | rmoveassign (dst src : Nat)
  | rswap (a b : Nat)
  | rdestroy (r : Nat)
  /-- operations on the lists that do not go through a remover -/
  | append (l : Nat) (cb : Cb)
  | remove (l : Nat) (h : Hd)
deriving DecidableEq, Repr

inductive ROut | skip | unit | bool (b : Bool) | handle (h : Hd)
deriving DecidableEq, Repr

def getRem (w : RW) (r : Nat) : Option Remover := (w.rems.find? (fun p => p.1 == r)).map (·.2)

def setRem (w : RW) (r : Nat) (v : Remover) : RW :=
  { w with rems := (r, v) :: w.rems.filter (fun p => p.1 != r) }

def delRem (w : RW) (r : Nat) : RW := { w with rems := w.rems.filter (fun p => p.1 != r) }

/-- `reset()`: remove every recorded handle from the target, forget the records -/
def resetLists (lists : Store SList) (v : Remover) : Store SList :=
  match v.target with
  | none => lists
  | some l => upd lists l (v.items.foldl (fun L h => (L.remove h).1) (lists l))

def addVia (w : RW) (r : Nat) (v : Remover) (l : Nat) (L' : SList) : RW × ROut :=
  ({ setRem w r { v with items := v.items ++ [w.nextId] } with
      lists := upd w.lists l L', nextId := w.nextId + 1, via := w.nextId :: w.via }, .handle w.nextId)

def step (w : RW) : ROp → RW × ROut
  | .rnew r l =>
    match getRem w r with
    | some _ => (w, .skip)
    | none => (setRem w r ⟨some l, []⟩, .unit)
  | .rappend r cb =>
    match getRem w r with
    | some v => (match v.target with
      | some l => addVia w r v l ((w.lists l).append w.nextId cb)
      | none => (w, .skip))
    | none => (w, .skip)
  | .rprepend r cb =>
    match getRem w r with
    | some v => (match v.target with
      | some l => addVia w r v l ((w.lists l).prepend w.nextId cb)
      | none => (w, .skip))
    | none => (w, .skip)
  | .rinsert r cb before =>
    match getRem w r with
    | some v => (match v.target with
      | some l => addVia w r v l ((w.lists l).insert w.nextId cb before)
      | none => (w, .skip))
    | none => (w, .skip)
  | .rremove r h =>
    match getRem w r with
    | some v => (match v.target with
      | some l =>
        -- the record is erased only if the handle has not expired; then the target's `remove` runs
        if v.items.contains h && (w.lists l).present h then
          ({ setRem w r { v with items := v.items.erase h } with lists := upd w.lists l ((w.lists l).remove h).1 }, .bool true)
        else (w, .bool false)
      | none => (w, .skip))
    | none => (w, .skip)
  | .rreset r =>
    match getRem w r with
    | some v => ({ setRem w r { v with items := [] } with lists := resetLists w.lists v }, .unit)
    | none => (w, .skip)
  | .rtarget r l =>
    match getRem w r with
    | some v =>
      if v.target = some l then (w, .unit)
      else ({ setRem w r ⟨some l, []⟩ with lists := resetLists w.lists v }, .unit)
    | none => (w, .skip)
  | .rmovector dst src =>
    match getRem w dst, getRem w src with
    | none, some v => (setRem (setRem w src { v with items := [] }) dst v, .unit)
    | _, _ => (w, .skip)
  | .rmoveassign dst src =>
    match getRem w dst, getRem w src with
    | some d, some v =>
      if dst = src then (w, .unit)
      else
        -- the destination gives up what it was responsible for, then takes over
        let w1 := { w with lists := resetLists w.lists d }
        (setRem (setRem w1 src { v with items := [] }) dst v, .unit)
    | _, _ => (w, .skip)
  | .rswap a b =>
    match getRem w a, getRem w b with
    | some x, some y => (setRem (setRem w a y) b x, .unit)
    | _, _ => (w, .skip)
  | .rdestroy r =>
    match getRem w r with
    | some v => ({ delRem w r with lists := resetLists w.lists v }, .unit)
    | none => (w, .skip)
  | .append l cb =>
    ({ w with lists := upd w.lists l ((w.lists l).append w.nextId cb), nextId := w.nextId + 1 }, .handle w.nextId)
  | .remove l h =>
    ({ w with lists := upd w.lists l ((w.lists l).remove h).1 }, .bool ((w.lists l).remove h).2)

def run : RW → List ROp → RW × List ROut
  | w, [] => (w, [])
  | w, op :: r =>
    let (w', o) := step w op
    let (w'', os) := run w' r
    (w'', o :: os)

/-- is the listener with handle `h` attached to some list of the world (lists `0 … n-1`)? -/
def attached (w : RW) (n : Nat) (h : Hd) : Bool := (List.range n).any (fun l => (w.lists l).present h)

end Evp.Rem
