import EventppVerif.Util.Removers
import EventppVerif.CL.ListLemmas
/-
  Helper lemmas for property C15 (ScopedRemover): facts about `SList` removal, the association
  list of live removers seen as a partial map, the invariant `Resp` and its preservation by
  every `step`.
-/
namespace Evp

namespace SList

theorem remove_fstR (L : SList) (h : Hd) : (L.remove h).1 = L.erase h := by
  unfold remove
  split
  · rfl
  · rename_i hp
    have hp' : h ∉ L.ids := by rw [← present_iff]; simpa using hp
    symm
    simp only [erase]
    apply List.filter_eq_self.mpr
    intro e he
    have : e.id ≠ h := fun hh => hp' (hh ▸ mem_ids_of_mem he)
    simpa using this

theorem remove_snd (L : SList) (h : Hd) : (L.remove h).2 = L.present h := by
  unfold remove
  split <;> simp_all

theorem ids_insertBefore_perm (L : SList) (e : Entry) (b : Hd) :
    (L.insertBefore e b).ids.Perm (e.id :: L.ids) := by
  induction L with
  | nil => simp [insertBefore]
  | cons x r ih =>
    simp only [insertBefore]
    split
    · exact List.Perm.refl _
    · simp only [ids_cons]
      exact (List.Perm.cons _ ih).trans (List.Perm.swap _ _ _)

theorem ids_insert_perm (L : SList) (id cb b) : (L.insert id cb b).ids.Perm (id :: L.ids) := by
  unfold insert
  split
  · exact ids_insertBefore_perm L ⟨id, cb⟩ b
  · rw [ids_append]; exact List.perm_append_singleton _ _

theorem ids_append_perm (L : SList) (id cb) : (L.append id cb).ids.Perm (id :: L.ids) := by
  rw [ids_append]; exact List.perm_append_singleton _ _

theorem ids_prepend_perm (L : SList) (id cb) : (L.prepend id cb).ids.Perm (id :: L.ids) := by
  rw [ids_prepend]

/-- removing a list of handles one after the other = filtering them all out -/
theorem foldl_remove (hs : List Hd) (L : SList) :
    hs.foldl (fun L h => (L.remove h).1) L = L.filter (fun e => !hs.contains e.id) := by
  induction hs generalizing L with
  | nil => exact (List.filter_eq_self.mpr (by simp)).symm
  | cons h r ih =>
    rw [List.foldl_cons, ih, remove_fstR]
    show List.filter _ (List.filter _ L) = _
    rw [List.filter_filter]
    congr 1
    funext e
    by_cases he : e.id = h <;> simp [he]

theorem ids_filter_id (L : SList) (p : Hd → Bool) :
    ids (L.filter (fun e => p e.id)) = L.ids.filter p := by
  simp [ids, List.filter_map]
  rfl

end SList
end Evp

namespace Evp.Rem
open Evp SList

/-! ### the live removers as a partial map -/

/-- lookup in the association list of live removers (`getRem w r = lk w.rems r`) -/
def lk (R : List (Nat × Remover)) (r : Nat) : Option Remover := (R.find? (fun p => p.1 == r)).map (·.2)
def ins (R : List (Nat × Remover)) (r : Nat) (v : Remover) : List (Nat × Remover) :=
  (r, v) :: R.filter (fun p => p.1 != r)
def del (R : List (Nat × Remover)) (r : Nat) : List (Nat × Remover) := R.filter (fun p => p.1 != r)
/-- remover names are unique -/
def Names (R : List (Nat × Remover)) : Prop := (R.map (·.1)).Nodup

theorem getRem_eq (w : RW) (r : Nat) : getRem w r = lk w.rems r := rfl
theorem setRem_rems (w : RW) (r : Nat) (v : Remover) : (setRem w r v).rems = ins w.rems r v := rfl
theorem delRem_rems (w : RW) (r : Nat) : (delRem w r).rems = del w.rems r := rfl

theorem lk_del (R : List (Nat × Remover)) (r r' : Nat) :
    lk (del R r) r' = if r' = r then none else lk R r' := by
  induction R with
  | nil => simp [lk, del]
  | cons p R ih =>
    unfold del lk at *
    by_cases h1 : p.1 = r <;> by_cases h2 : p.1 = r' <;> by_cases h3 : r' = r <;>
      simp_all <;> omega

theorem lk_ins (R : List (Nat × Remover)) (r r' : Nat) (v : Remover) :
    lk (ins R r v) r' = if r' = r then some v else lk R r' := by
  have := lk_del R r r'
  unfold ins
  unfold del at this
  by_cases h : r' = r
  · subst h; simp [lk]
  · have h' : r ≠ r' := fun e => h e.symm
    simp only [h, if_false] at this ⊢
    rw [← this]
    simp [lk, h']

theorem Names_del {R : List (Nat × Remover)} (h : Names R) (r : Nat) : Names (del R r) := by
  unfold Names del at *
  exact List.Nodup.sublist (List.Sublist.map _ List.filter_sublist) h

theorem Names_ins {R : List (Nat × Remover)} (h : Names R) (r : Nat) (v : Remover) : Names (ins R r v) := by
  have hd := Names_del h r
  unfold Names ins del at *
  simp only [List.map_cons, List.nodup_cons]
  refine ⟨?_, hd⟩
  simp

theorem mem_of_lk {R : List (Nat × Remover)} {r : Nat} {v : Remover} (h : lk R r = some v) : (r, v) ∈ R := by
  unfold lk at h
  cases hf : R.find? (fun p => p.1 == r) with
  | none => simp [hf] at h
  | some p =>
    simp [hf] at h
    have h1 := List.find?_some hf
    have h2 := List.mem_of_find?_eq_some hf
    simp at h1
    subst h h1
    exact h2

theorem lk_of_mem {R : List (Nat × Remover)} (hn : Names R) {r : Nat} {v : Remover} (h : (r, v) ∈ R) :
    lk R r = some v := by
  induction R with
  | nil => simp at h
  | cons p R ih =>
    unfold Names at hn
    simp only [List.map_cons, List.nodup_cons] at hn
    rcases List.mem_cons.mp h with h | h
    · subst h; simp [lk]
    · have hne : p.1 ≠ r := by
        intro e
        apply hn.1
        rw [e]
        exact List.mem_map.mpr ⟨(r, v), h, rfl⟩
      have := ih hn.2 h
      unfold lk at this ⊢
      simp [hne, this]

theorem mem_iff_lk {R : List (Nat × Remover)} (hn : Names R) {r : Nat} {v : Remover} :
    (r, v) ∈ R ↔ lk R r = some v := ⟨lk_of_mem hn, mem_of_lk⟩

theorem lk_nil (r : Nat) : lk [] r = none := rfl

/-! ### the invariant, over the components of a world -/

/-- `Resp` with the live removers seen as a partial map `g` (what the preservation proofs use) -/
structure RespF (lists : Store SList) (g : Nat → Option Remover) (n : Nat) (via : List Hd) : Prop where
  lt : ∀ l h, h ∈ (lists l).ids → h < n
  nodup : ∀ l, (lists l).ids.Nodup
  disj : ∀ l l' h, h ∈ (lists l).ids → h ∈ (lists l').ids → l = l'
  via_lt : ∀ h ∈ via, h < n
  items_via : ∀ r v, g r = some v → ∀ h ∈ v.items, h ∈ via
  items_nodup : ∀ r v, g r = some v → v.items.Nodup
  items_excl : ∀ r v r' v' h, g r = some v → g r' = some v' → h ∈ v.items → h ∈ v'.items → r = r'
  resp : ∀ h ∈ via, ∀ l, h ∈ (lists l).ids → ∃ r v, g r = some v ∧ h ∈ v.items ∧ v.target = some l

/-- lists after `reset()` of remover value `v` -/
theorem ids_resetLists (lists : Store SList) (v : Remover) (l : Nat) :
    (resetLists lists v l).ids =
      if v.target = some l then (lists l).ids.filter (fun x => !v.items.contains x) else (lists l).ids := by
  unfold resetLists
  cases ht : v.target with
  | none => simp
  | some t =>
    by_cases h : l = t
    · subst h
      simp only [upd_same, if_true, foldl_remove]
      exact ids_filter_id _ (fun x => !v.items.contains x)
    · have : t ≠ l := fun e => h e.symm
      simp [h, this]

theorem mem_resetLists {lists : Store SList} {v : Remover} {l : Nat} {x : Hd} :
    x ∈ (resetLists lists v l).ids ↔ x ∈ (lists l).ids ∧ ¬ (v.target = some l ∧ x ∈ v.items) := by
  rw [ids_resetLists]
  split <;> simp_all

theorem sublist_resetLists (lists : Store SList) (v : Remover) (l : Nat) :
    (resetLists lists v l).ids.Sublist (lists l).ids := by
  rw [ids_resetLists]
  split
  · exact List.filter_sublist
  · exact List.Sublist.refl _

theorem RespF.congr {lists g g' n via} (H : RespF lists g n via) (e : ∀ r, g r = g' r) : RespF lists g' n via := by
  have : g = g' := funext e
  subst this; exact H

theorem mem_upd_erase {lists : Store SList} {l l' : Nat} {h x : Hd} :
    x ∈ (upd lists l ((lists l).erase h) l').ids ↔ x ∈ (lists l').ids ∧ ¬ (l' = l ∧ x = h) := by
  rw [upd_get]
  split
  · subst l'; simp [ids_erase]
  · simp_all

theorem sublist_upd_erase (lists : Store SList) (l l' : Nat) (h : Hd) :
    (upd lists l ((lists l).erase h) l').ids.Sublist (lists l').ids := by
  rw [upd_get]
  split
  · subst l'; rw [ids_erase]; exact List.filter_sublist
  · exact List.Sublist.refl _

theorem RespF_reset {lists g n via} (H : RespF lists g n via) {r v} (hr : g r = some v) (t : Option Nat) :
    RespF (resetLists lists v) (fun r' => if r' = r then some ⟨t, []⟩ else g r') n via := by
  obtain ⟨h1, h2, h3, h4, h5, h6, h7, h8⟩ := H
  refine ⟨?_, ?_, ?_, h4, ?_, ?_, ?_, ?_⟩
  · intro l h hm; exact h1 l h (mem_resetLists.mp hm).1
  · intro l; exact (h2 l).sublist (sublist_resetLists _ _ _)
  · intro l l' h hm hm'; exact h3 l l' h (mem_resetLists.mp hm).1 (mem_resetLists.mp hm').1
  · grind
  · grind
  · grind
  · intro h hv l hm
    rw [mem_resetLists] at hm
    grind

theorem RespF_new {lists g n via} (H : RespF lists g n via) {r} (hr : g r = none) (t : Option Nat) :
    RespF lists (fun r' => if r' = r then some ⟨t, []⟩ else g r') n via := by
  obtain ⟨h1, h2, h3, h4, h5, h6, h7, h8⟩ := H
  refine ⟨h1, h2, h3, h4, ?_, ?_, ?_, ?_⟩ <;> grind

theorem RespF_destroy {lists g n via} (H : RespF lists g n via) {r v} (hr : g r = some v) :
    RespF (resetLists lists v) (fun r' => if r' = r then none else g r') n via := by
  obtain ⟨h1, h2, h3, h4, h5, h6, h7, h8⟩ := H
  refine ⟨?_, ?_, ?_, h4, ?_, ?_, ?_, ?_⟩
  · intro l h hm; exact h1 l h (mem_resetLists.mp hm).1
  · intro l; exact (h2 l).sublist (sublist_resetLists _ _ _)
  · intro l l' h hm hm'; exact h3 l l' h (mem_resetLists.mp hm).1 (mem_resetLists.mp hm').1
  · grind
  · grind
  · grind
  · intro h hv l hm
    rw [mem_resetLists] at hm
    grind

theorem RespF_rremove {lists g n via} (H : RespF lists g n via) {r v l} (hr : g r = some v)
    (ht : v.target = some l) (h : Hd) :
    RespF (upd lists l ((lists l).erase h))
      (fun r' => if r' = r then some { v with items := v.items.erase h } else g r') n via := by
  obtain ⟨h1, h2, h3, h4, h5, h6, h7, h8⟩ := H
  refine ⟨?_, ?_, ?_, h4, ?_, ?_, ?_, ?_⟩
  · intro l h hm; exact h1 l h (mem_upd_erase.mp hm).1
  · intro l; exact (h2 l).sublist (sublist_upd_erase _ _ _ _)
  · intro l l' h hm hm'; exact h3 l l' h (mem_upd_erase.mp hm).1 (mem_upd_erase.mp hm').1
  · intro r' v' hv' x hx
    split at hv'
    · cases hv'; exact h5 r v hr x (List.mem_of_mem_erase hx)
    · exact h5 r' v' hv' x hx
  · intro r' v' hv'
    split at hv'
    · cases hv'; exact (h6 r v hr).erase h
    · exact h6 r' v' hv'
  · intro r1 v1 r2 v2 x e1 e2 m1 m2
    have me : ∀ (L : List Hd) (a b : Hd), a ∈ L.erase b → a ∈ L := fun L a b => List.mem_of_mem_erase
    grind
  · intro x hv l' hm
    rw [mem_upd_erase] at hm
    obtain ⟨r0, v0, e0, m0, t0⟩ := h8 x hv l' hm.1
    by_cases hr0 : r0 = r
    · subst hr0
      have : v0 = v := by grind
      subst this
      refine ⟨r0, _, if_pos rfl, ?_, t0⟩
      have hne : x ≠ h := by grind
      exact (List.mem_erase_of_ne hne).mpr m0
    · exact ⟨r0, v0, by simp [hr0, e0], m0, t0⟩

theorem RespF_remove_direct {lists g n via} (H : RespF lists g n via) (l : Nat) (h : Hd) :
    RespF (upd lists l ((lists l).erase h)) g n via := by
  obtain ⟨h1, h2, h3, h4, h5, h6, h7, h8⟩ := H
  refine ⟨?_, ?_, ?_, h4, h5, h6, h7, ?_⟩
  · intro l h hm; exact h1 l h (mem_upd_erase.mp hm).1
  · intro l; exact (h2 l).sublist (sublist_upd_erase _ _ _ _)
  · intro l l' h hm hm'; exact h3 l l' h (mem_upd_erase.mp hm).1 (mem_upd_erase.mp hm').1
  · intro x hv l' hm
    exact h8 x hv l' (mem_upd_erase.mp hm).1

/-- responsibility moves from `src` to a `dst` that is responsible for nothing -/
theorem RespF_move {lists g n via} (H : RespF lists g n via) {src dst v} (hs : g src = some v)
    (hne : dst ≠ src) (hd : g dst = none ∨ ∃ t, g dst = some ⟨t, []⟩) :
    RespF lists (fun r' => if r' = dst then some v else if r' = src then some { v with items := [] } else g r') n via := by
  obtain ⟨h1, h2, h3, h4, h5, h6, h7, h8⟩ := H
  refine ⟨h1, h2, h3, h4, ?_, ?_, ?_, ?_⟩
  · grind
  · grind
  · grind
  · intro x hv l hm
    obtain ⟨r0, v0, e0, m0, t0⟩ := h8 x hv l hm
    by_cases h0 : r0 = src
    · subst h0
      exact ⟨dst, v, by simp, by grind, by grind⟩
    · have : r0 ≠ dst := by grind
      exact ⟨r0, v0, by simp [*], m0, t0⟩

theorem RespF_swap {lists g n via} (H : RespF lists g n via) {a b x y} (ha : g a = some x) (hb : g b = some y) :
    RespF lists (fun r' => if r' = b then some x else if r' = a then some y else g r') n via := by
  obtain ⟨h1, h2, h3, h4, h5, h6, h7, h8⟩ := H
  refine ⟨h1, h2, h3, h4, ?_, ?_, ?_, ?_⟩
  · grind
  · grind
  · grind
  · intro h hv l hm
    obtain ⟨r0, v0, e0, m0, t0⟩ := h8 h hv l hm
    by_cases h0 : r0 = a
    · subst h0
      exact ⟨b, x, by simp, by grind, by grind⟩
    · by_cases h1 : r0 = b
      · subst h1
        exact ⟨a, y, by grind, by grind, by grind⟩
      · exact ⟨r0, v0, by simp [*], m0, t0⟩


theorem mem_upd_add {lists : Store SList} {l l' n : Nat} {L' : SList} (hp : L'.ids.Perm (n :: (lists l).ids)) {x : Hd} :
    x ∈ (upd lists l L' l').ids ↔ x ∈ (lists l').ids ∨ (l' = l ∧ x = n) := by
  rw [upd_get]
  split
  · subst l'; rw [hp.mem_iff]; simp; exact Or.comm
  · simp_all

theorem nodup_upd_add {lists : Store SList} {l n : Nat} {L' : SList} (hp : L'.ids.Perm (n :: (lists l).ids))
    (hnd : ∀ l, (lists l).ids.Nodup) (hn : n ∉ (lists l).ids) (l' : Nat) : (upd lists l L' l').ids.Nodup := by
  rw [upd_get]
  split
  · rw [hp.nodup_iff]; exact List.nodup_cons.mpr ⟨hn, hnd l⟩
  · exact hnd l'

theorem RespF_append_direct {lists g n via} (H : RespF lists g n via) {l : Nat} {L' : SList}
    (hp : L'.ids.Perm (n :: (lists l).ids)) : RespF (upd lists l L') g (n + 1) via := by
  obtain ⟨h1, h2, h3, h4, h5, h6, h7, h8⟩ := H
  have hn : ∀ l, n ∉ (lists l).ids := fun l hm => absurd (h1 l n hm) (Nat.lt_irrefl _)
  refine ⟨?_, nodup_upd_add hp h2 (hn l), ?_, ?_, h5, h6, h7, ?_⟩
  · intro l' h hm
    rw [mem_upd_add hp] at hm
    grind
  · intro l1 l2 h m1 m2
    rw [mem_upd_add hp] at m1 m2
    grind
  · intro h hv; exact Nat.lt_succ_of_lt (h4 h hv)
  · intro h hv l' hm
    rw [mem_upd_add hp] at hm
    grind

theorem RespF_add {lists g n via} (H : RespF lists g n via) {r v} (hr : g r = some v) {l : Nat}
    (ht : v.target = some l) {L' : SList} (hp : L'.ids.Perm (n :: (lists l).ids)) :
    RespF (upd lists l L') (fun r' => if r' = r then some { v with items := v.items ++ [n] } else g r')
      (n + 1) (n :: via) := by
  obtain ⟨h1, h2, h3, h4, h5, h6, h7, h8⟩ := H
  have hn : ∀ l, n ∉ (lists l).ids := fun l hm => absurd (h1 l n hm) (Nat.lt_irrefl _)
  have hnv : n ∉ via := fun hm => absurd (h4 n hm) (Nat.lt_irrefl _)
  refine ⟨?_, nodup_upd_add hp h2 (hn l), ?_, ?_, ?_, ?_, ?_, ?_⟩
  · intro l' h hm
    rw [mem_upd_add hp] at hm
    grind
  · intro l1 l2 h m1 m2
    rw [mem_upd_add hp] at m1 m2
    grind
  · intro h hv
    rcases List.mem_cons.mp hv with e | hv
    · subst e; exact Nat.lt_succ_self _
    · exact Nat.lt_succ_of_lt (h4 h hv)
  · grind
  · intro r' v' hv'
    split at hv'
    · cases hv'
      show (v.items ++ [n]).Nodup
      rw [List.nodup_append]
      refine ⟨h6 r v hr, by simp, ?_⟩
      intro a ha b hb
      simp at hb
      grind
    · exact h6 r' v' hv'
  · grind
  · intro h hv l' hm
    rw [mem_upd_add hp] at hm
    by_cases hh : h = n
    · subst hh
      have : l' = l := by grind
      subst this
      exact ⟨r, _, if_pos rfl, by simp, ht⟩
    · have hv' : h ∈ via := by grind
      have hm' : h ∈ (lists l').ids := by grind
      obtain ⟨r0, v0, e0, m0, t0⟩ := h8 h hv' l' hm'
      by_cases hr0 : r0 = r
      · subst hr0
        have : v0 = v := by grind
        subst this
        exact ⟨r0, _, if_pos rfl, by simp [m0], t0⟩
      · exact ⟨r0, v0, by simp [hr0, e0], m0, t0⟩

/-! ### the invariant on worlds -/

/-- **The C15 invariant.** -/
structure Resp (w : RW) : Prop where
  names : (w.rems.map (·.1)).Nodup
  lt : ∀ l h, (w.lists l).present h = true → h < w.nextId
  nodup : ∀ l, (w.lists l).ids.Nodup
  disj : ∀ l l' h, (w.lists l).present h = true → (w.lists l').present h = true → l = l'
  via_lt : ∀ h ∈ w.via, h < w.nextId
  items_via : ∀ r v, (r, v) ∈ w.rems → ∀ h ∈ v.items, h ∈ w.via
  items_nodup : ∀ r v, (r, v) ∈ w.rems → v.items.Nodup
  items_excl : ∀ r v r' v' h, (r, v) ∈ w.rems → (r', v') ∈ w.rems → h ∈ v.items → h ∈ v'.items → r = r'
  resp : ∀ h ∈ w.via, ∀ l, (w.lists l).present h = true →
    ∃ r v, (r, v) ∈ w.rems ∧ h ∈ v.items ∧ v.target = some l

theorem Resp_iff (w : RW) : Resp w ↔ Names w.rems ∧ RespF w.lists (lk w.rems) w.nextId w.via := by
  constructor
  · intro ⟨h0, h1, h2, h3, h4, h5, h6, h7, h8⟩
    have hn : Names w.rems := h0
    refine ⟨hn, ?_⟩
    simp only [present_iff, mem_iff_lk hn] at *
    exact ⟨h1, h2, h3, h4, h5, h6, h7, h8⟩
  · intro ⟨hn, h1, h2, h3, h4, h5, h6, h7, h8⟩
    refine ⟨hn, ?_, h2, ?_, h4, ?_, ?_, ?_, ?_⟩ <;> simp only [present_iff, mem_iff_lk hn] <;> assumption

theorem Resp_mk {w : RW} (hn : Names w.rems) (hf : RespF w.lists (lk w.rems) w.nextId w.via) : Resp w :=
  (Resp_iff w).mpr ⟨hn, hf⟩

theorem Resp_init : Resp {} := by
  apply Resp_mk
  · exact List.nodup_nil
  · have e : ∀ l, (({} : RW).lists l) = ([] : SList) := fun l => Store.empty_get l
    refine ⟨?_, ?_, ?_, ?_, ?_, ?_, ?_, ?_⟩ <;> simp [lk_nil, e]

theorem Resp_addVia {w : RW} (H : Resp w) {r v l} (hr : getRem w r = some v) (ht : v.target = some l)
    {L' : SList} (hp : L'.ids.Perm (w.nextId :: (w.lists l).ids)) : Resp (addVia w r v l L').1 := by
  obtain ⟨hn, hf⟩ := (Resp_iff w).mp H
  apply Resp_mk
  · exact Names_ins hn _ _
  · refine (RespF_add hf (r := r) hr ht hp).congr ?_
    intro r'; simp only [addVia, setRem_rems, lk_ins]

theorem Resp_step {w : RW} (H : Resp w) (op : ROp) : Resp (step w op).1 := by
  obtain ⟨hn, hf⟩ := (Resp_iff w).mp H
  cases op with
  | rnew r l =>
    simp only [step]
    split
    · exact H
    · rename_i hr
      apply Resp_mk
      · exact Names_ins hn _ _
      · refine (RespF_new hf (r := r) hr (some l)).congr ?_
        intro r'; simp only [setRem_rems, lk_ins]
  | rappend r cb =>
    simp only [step]
    split
    · rename_i v hr
      split
      · rename_i l ht
        exact Resp_addVia H hr ht (ids_append_perm _ _ _)
      · exact H
    · exact H
  | rprepend r cb =>
    simp only [step]
    split
    · rename_i v hr
      split
      · rename_i l ht
        exact Resp_addVia H hr ht (ids_prepend_perm _ _ _)
      · exact H
    · exact H
  | rinsert r cb b =>
    simp only [step]
    split
    · rename_i v hr
      split
      · rename_i l ht
        exact Resp_addVia H hr ht (ids_insert_perm _ _ _ _)
      · exact H
    · exact H
  | rremove r h =>
    simp only [step]
    split
    · rename_i v hr
      split
      · rename_i l ht
        split
        · apply Resp_mk
          · exact Names_ins hn _ _
          · rw [remove_fstR]
            refine (RespF_rremove hf (r := r) hr ht h).congr ?_
            intro r'; simp only [setRem_rems, lk_ins]
        · exact H
      · exact H
    · exact H
  | rreset r =>
    simp only [step]
    split
    · rename_i v hr
      apply Resp_mk
      · exact Names_ins hn _ _
      · refine (RespF_reset hf (r := r) hr v.target).congr ?_
        intro r'; simp only [setRem_rems, lk_ins]
    · exact H
  | rtarget r l =>
    simp only [step]
    split
    · rename_i v hr
      split
      · exact H
      · apply Resp_mk
        · exact Names_ins hn _ _
        · refine (RespF_reset hf (r := r) hr (some l)).congr ?_
          intro r'; simp only [setRem_rems, lk_ins]
    · exact H
  | rmovector dst src =>
    simp only [step]
    split
    · rename_i v hd hs
      have hne : dst ≠ src := by intro e; subst e; rw [hd] at hs; cases hs
      apply Resp_mk
      · exact Names_ins (Names_ins hn _ _) _ _
      · refine (RespF_move hf (src := src) (dst := dst) hs hne (Or.inl hd)).congr ?_
        intro r'; simp only [setRem_rems, lk_ins]
    · exact H
  | rmoveassign dst src =>
    simp only [step]
    split
    · rename_i d v hd hs
      split
      · exact H
      · rename_i hne
        apply Resp_mk
        · exact Names_ins (Names_ins hn _ _) _ _
        · have h1 := RespF_reset hf (r := dst) hd d.target
          have hs' : (fun r' => if r' = dst then some (⟨d.target, []⟩ : Remover) else lk w.rems r') src = some v := by
            have : src ≠ dst := fun e => hne e.symm
            simp only [this, if_false]; exact hs
          refine (RespF_move h1 (src := src) (dst := dst) hs' hne (Or.inr ⟨d.target, by simp⟩)).congr ?_
          intro r'; simp only [setRem_rems, lk_ins]
          split <;> rfl
    · exact H
  | rswap a b =>
    simp only [step]
    split
    · rename_i x y ha hb
      apply Resp_mk
      · exact Names_ins (Names_ins hn _ _) _ _
      · refine (RespF_swap hf ha hb).congr ?_
        intro r'; simp only [setRem_rems, lk_ins]
    · exact H
  | rdestroy r =>
    simp only [step]
    split
    · rename_i v hr
      apply Resp_mk
      · exact Names_del hn _
      · refine (RespF_destroy hf (r := r) hr).congr ?_
        intro r'; simp only [delRem_rems, lk_del]
    · exact H
  | append l cb =>
    simp only [step]
    apply Resp_mk
    · exact hn
    · exact RespF_append_direct hf (ids_append_perm _ _ _)
  | remove l h =>
    simp only [step]
    apply Resp_mk
    · exact hn
    · rw [remove_fstR]
      exact RespF_remove_direct hf l h

theorem Resp_run {w : RW} (H : Resp w) (ops : List ROp) : Resp (run w ops).1 := by
  induction ops generalizing w with
  | nil => exact H
  | cons op r ih => simp only [run]; exact ih (Resp_step H op)

/-! ### consequences (the statements of Properties/C15.lean) -/

theorem present_eq_iff {L L' : SList} {h h' : Hd} : L.present h = L'.present h' ↔ (h ∈ L.ids ↔ h' ∈ L'.ids) := by
  rw [Bool.eq_iff_iff, present_iff, present_iff]

theorem gone_of_no_removers {w : RW} (H : Resp w) (he : w.rems = []) :
    ∀ h ∈ w.via, ∀ l, (w.lists l).present h = false := by
  intro h hv l
  cases hp : (w.lists l).present h with
  | false => rfl
  | true =>
    obtain ⟨r, v, hm, _⟩ := H.resp h hv l hp
    rw [he] at hm; cases hm

/-- under `Resp`, an item of a live remover is present at most in that remover's target -/
theorem item_only_in_target {w : RW} (H : Resp w) {r v} (hr : getRem w r = some v) {h} (hi : h ∈ v.items)
    {l} (hp : (w.lists l).present h = true) : v.target = some l := by
  obtain ⟨hn, hf⟩ := (Resp_iff w).mp H
  have hv := hf.items_via r v hr h hi
  obtain ⟨r', v', e', m', t'⟩ := hf.resp h hv l (present_iff.mp hp)
  have := hf.items_excl r v r' v' h hr e' hi m'
  subst this
  rw [getRem_eq] at hr
  rw [hr] at e'; cases e'; exact t'

theorem present_resetLists (lists : Store SList) (v : Remover) (l : Nat) (x : Hd) :
    (resetLists lists v l).present x = ((lists l).present x && !(decide (v.target = some l) && v.items.contains x)) := by
  rw [Bool.eq_iff_iff]
  simp only [present_iff, mem_resetLists, Bool.and_eq_true, Bool.not_eq_true', Bool.and_eq_false_iff, present_iff]
  simp
  grind


/-- the three ways a remover's responsibility ends without being passed on -/
inductive EndsOp (r : Nat) (l : Nat) : ROp → Prop
  | destroy : EndsOp r l (.rdestroy r)
  | reset : EndsOp r l (.rreset r)
  | retarget (l' : Nat) (h : l' ≠ l) : EndsOp r l (.rtarget r l')

theorem detach_on_end {w : RW} (H : Resp w) {r v l} (hr : getRem w r = some v) (ht : v.target = some l)
    {op : ROp} (hop : EndsOp r l op) :
    ∀ h ∈ v.items, ∀ l', ((step w op).1.lists l').present h = false := by
  intro h hi l'
  have key : (resetLists w.lists v l').present h = false := by
    rw [present_resetLists]
    cases hp : (w.lists l').present h with
    | false => rfl
    | true =>
      have := item_only_in_target H hr hi hp
      simp [this, hi]
  cases hop with
  | destroy => simp only [step, hr]; exact key
  | reset => simp only [step, hr]; exact key
  | retarget l2 hne =>
    have : ¬ v.target = some l2 := by rw [ht]; intro e; cases e; exact hne rfl
    simp only [step, hr, this, if_false]; exact key

theorem after_end {w : RW} {r v l} (hr : getRem w r = some v) (ht : v.target = some l) :
    getRem (step w (.rdestroy r)).1 r = none ∧
    getRem (step w (.rreset r)).1 r = some ⟨some l, []⟩ ∧
    ∀ l', l' ≠ l → getRem (step w (.rtarget r l')).1 r = some ⟨some l', []⟩ := by
  refine ⟨?_, ?_, ?_⟩
  · simp only [step, hr, getRem_eq, delRem_rems, lk_del, if_true]
  · simp only [step, hr, getRem_eq, setRem_rems, lk_ins, if_true, ht]
  · intro l' hne
    have : ¬ v.target = some l' := by rw [ht]; intro e; cases e; exact hne rfl
    simp only [step, hr, this, if_false, getRem_eq, setRem_rems, lk_ins, if_true]

theorem move_assign {w : RW} (H : Resp w) {dst src d v} (hne : dst ≠ src)
    (hd : getRem w dst = some d) (hs : getRem w src = some v) :
    let w' := (step w (.rmoveassign dst src)).1
    (∀ h ∈ d.items, ∀ l, (w'.lists l).present h = false) ∧
    (∀ h, h ∉ d.items → ∀ l, (w'.lists l).present h = (w.lists l).present h) ∧
    (∀ h ∈ v.items, h ∉ d.items) ∧
    getRem w' dst = some v ∧ getRem w' src = some ⟨v.target, []⟩ := by
  have hne' : src ≠ dst := fun e => hne e.symm
  simp only [step, hd, hs, hne, if_false]
  refine ⟨?_, ?_, ?_, ?_, ?_⟩
  · intro h hi l
    show (resetLists w.lists d l).present h = false
    rw [present_resetLists]
    cases hp : (w.lists l).present h with
    | false => rfl
    | true =>
      have := item_only_in_target H hd hi hp
      simp [this, hi]
  · intro h hi l
    show (resetLists w.lists d l).present h = _
    rw [present_resetLists]
    simp [hi]
  · intro h hv hdi
    obtain ⟨hn, hf⟩ := (Resp_iff w).mp H
    exact hne (hf.items_excl dst d src v h hd hs hdi hv)
  · simp only [getRem_eq, setRem_rems, lk_ins, if_true]
  · simp only [getRem_eq, setRem_rems, lk_ins, if_true, hne', if_false]

theorem transfer {w : RW} {dst src v} (hs : getRem w src = some v) :
    (getRem w dst = none →
      let w' := (step w (.rmovector dst src)).1
      w'.lists = w.lists ∧ getRem w' dst = some v ∧ getRem w' src = some ⟨v.target, []⟩) ∧
    (∀ d, getRem w dst = some d →
      let w' := (step w (.rswap dst src)).1
      w'.lists = w.lists ∧ getRem w' dst = some v ∧ getRem w' src = some d) := by
  constructor
  · intro hd
    have hne : src ≠ dst := by intro e; subst e; rw [hd] at hs; cases hs
    simp only [step, hd, hs]
    refine ⟨rfl, ?_, ?_⟩
    · simp only [getRem_eq, setRem_rems, lk_ins, if_true]
    · simp only [getRem_eq, setRem_rems, lk_ins, if_true, hne, if_false]
  · intro d hd
    simp only [step, hd, hs]
    refine ⟨rfl, ?_, ?_⟩
    · simp only [getRem_eq, setRem_rems, lk_ins, if_true]
      split
      · rename_i e; subst e; rw [getRem_eq] at hd hs; rw [hd] at hs; exact hs
      · rfl
    · simp only [getRem_eq, setRem_rems, lk_ins, if_true]


theorem present_upd (lists : Store SList) (l l' : Nat) (L' : SList) (x : Hd) :
    (upd lists l L' l').present x = if l' = l then L'.present x else (lists l').present x := by
  rw [upd_get]; split <;> rfl

theorem present_remove (L : SList) (h x : Hd) : ((L.remove h).1).present x = (L.present x && x != h) := by
  rw [remove_fstR, present_erase]

theorem present_insert (L : SList) (id cb b) (x : Hd) : (L.insert id cb b).present x = (L.present x || x == id) := by
  rw [Bool.eq_iff_iff]
  simp only [present_iff, (ids_insert_perm L id cb b).mem_iff, Bool.or_eq_true, beq_iff_eq, List.mem_cons]
  exact Or.comm

theorem others {w : RW} (H : Resp w) {h : Hd} (hv : h ∉ w.via) (hlt : h < w.nextId) (op : ROp)
    (hop : ∀ l, op ≠ .remove l h) : ∀ l, ((step w op).1.lists l).present h = (w.lists l).present h := by
  obtain ⟨hn, hf⟩ := (Resp_iff w).mp H
  have hni : ∀ r v, getRem w r = some v → h ∉ v.items := fun r v hr hi => hv (hf.items_via r v hr h hi)
  have hne : h ≠ w.nextId := Nat.ne_of_lt hlt
  have hreset : ∀ r v, getRem w r = some v → ∀ l, (resetLists w.lists v l).present h = (w.lists l).present h := by
    intro r v hr l
    rw [present_resetLists]
    simp [hni r v hr]
  intro l
  cases op with
  | rnew r l' => simp only [step]; split <;> rfl
  | rappend r cb =>
    simp only [step]
    split
    · split
      · simp only [addVia, present_upd, present_append]
        split <;> first | rfl | (rename_i e; subst e; simp [hne])
      · rfl
    · rfl
  | rprepend r cb =>
    simp only [step]
    split
    · split
      · simp only [addVia, present_upd, present_prepend]
        split <;> first | rfl | (rename_i e; subst e; simp [hne])
      · rfl
    · rfl
  | rinsert r cb b =>
    simp only [step]
    split
    · split
      · simp only [addVia, present_upd, present_insert]
        split <;> first | rfl | (rename_i e; subst e; simp [hne])
      · rfl
    · rfl
  | rremove r h' =>
    simp only [step]
    split
    · rename_i v hr
      split
      · split
        · rename_i hc
          simp only [present_upd, present_remove]
          have : h ≠ h' := by
            intro e; subst e
            simp only [Bool.and_eq_true, List.contains_iff_mem] at hc
            exact hni r v hr (by simpa using hc.1)
          split <;> first | rfl | (rename_i e; subst e; simp [this])
        · rfl
      · rfl
    · rfl
  | rreset r =>
    simp only [step]
    split
    · rename_i v hr; exact hreset r v hr l
    · rfl
  | rtarget r l' =>
    simp only [step]
    split
    · rename_i v hr
      split
      · rfl
      · exact hreset r v hr l
    · rfl
  | rmovector dst src => simp only [step]; split <;> rfl
  | rmoveassign dst src =>
    simp only [step]
    split
    · rename_i d v hd hs
      split
      · rfl
      · exact hreset dst d hd l
    · rfl
  | rswap a b => simp only [step]; split <;> rfl
  | rdestroy r =>
    simp only [step]
    split
    · rename_i v hr; exact hreset r v hr l
    · rfl
  | append l' cb =>
    simp only [step, present_upd, present_append]
    split <;> first | rfl | (rename_i e; subst e; simp [hne])
  | remove l' h' =>
    have : h ≠ h' := by intro e; subst e; exact hop l' rfl
    simp only [step, present_upd, present_remove]
    split <;> first | rfl | (rename_i e; subst e; simp [this])

theorem rremove_true_iff (w : RW) (r : Nat) (h : Hd) :
    (step w (.rremove r h)).2 = .bool true ↔
      ∃ v l, getRem w r = some v ∧ v.target = some l ∧ h ∈ v.items ∧ (w.lists l).present h = true := by
  cases hr : getRem w r with
  | none => simp [step, hr]
  | some v =>
    cases ht : v.target with
    | none => simp [step, hr, ht]
    | some l =>
      by_cases hc : (v.items.contains h && (w.lists l).present h) = true
      · simp only [step, hr, ht, hc, if_true, true_iff]
        simp only [Bool.and_eq_true, List.contains_iff_mem] at hc
        exact ⟨v, l, rfl, ht, by simpa using hc.1, hc.2⟩
      · simp only [step, hr, ht, hc]
        simp only [Bool.and_eq_true, List.contains_iff_mem] at hc
        constructor
        · intro e; cases e
        · rintro ⟨v', l', e1, e2, e3, e4⟩
          cases e1
          rw [ht] at e2; cases e2
          exact absurd ⟨by simpa using e3, e4⟩ hc

theorem rremove_false (w : RW) (r : Nat) (h : Hd) (hne : (step w (.rremove r h)).2 ≠ .bool true) :
    (step w (.rremove r h)).1 = w := by
  cases hr : getRem w r with
  | none => simp [step, hr]
  | some v =>
    cases ht : v.target with
    | none => simp [step, hr, ht]
    | some l =>
      by_cases hc : (v.items.contains h && (w.lists l).present h) = true
      · simp only [step, hr, ht, hc, if_true] at hne; exact absurd rfl hne
      · simp only [step, hr, ht, hc]; rfl

theorem rremove_true {w : RW} (H : Resp w) {r : Nat} {h : Hd} (ht : (step w (.rremove r h)).2 = .bool true) :
    let w' := (step w (.rremove r h)).1
    (∀ l, (w'.lists l).present h = false) ∧
    (∀ x, x ≠ h → ∀ l, (w'.lists l).present x = (w.lists l).present x) ∧
    (∃ v, getRem w r = some v ∧ getRem w' r = some ⟨v.target, v.items.erase h⟩ ∧ h ∉ v.items.erase h) := by
  obtain ⟨v, l, hr, htg, hi, hp⟩ := (rremove_true_iff w r h).mp ht
  obtain ⟨hn, hf⟩ := (Resp_iff w).mp H
  have hc : (v.items.contains h && (w.lists l).present h) = true := by simp [hi, hp]
  simp only [step, hr, htg, hc, if_true]
  refine ⟨?_, ?_, v, rfl, ?_, ?_⟩
  · intro l'
    simp only [present_upd, present_remove]
    split
    · simp
    · rename_i hne
      cases hp' : (w.lists l').present h with
      | false => rfl
      | true => exact absurd (H.disj l' l h hp' hp) hne
  · intro x hx l'
    simp only [present_upd, present_remove]
    split
    · rename_i e; subst e; simp [hx]
    · rfl
  · simp only [getRem_eq, setRem_rems, lk_ins, if_true, htg]
  · exact fun hm => (List.Nodup.mem_erase_iff (hf.items_nodup r v hr)).mp hm |>.1 rfl


/-- the operations that end the responsibility of remover `r` (target `l`) for handle `h`, or
    remove `h` directly from the list -/
def MayDetach (r l : Nat) (h : Hd) : ROp → Prop
  | .rdestroy r' => r' = r
  | .rreset r' => r' = r
  | .rtarget r' l' => r' = r ∧ l' ≠ l
  | .rmoveassign dst src => dst = r ∧ src ≠ r
  | .rremove r' h' => r' = r ∧ h' = h
  | .remove l' h' => l' = l ∧ h' = h
  | _ => False

theorem stays {w : RW} (H : Resp w) {r v l h} (hr : getRem w r = some v) (hi : h ∈ v.items)
    (ht : v.target = some l) (hp : (w.lists l).present h = true) (op : ROp) (hop : ¬ MayDetach r l h op) :
    ((step w op).1.lists l).present h = true := by
  obtain ⟨hn, hf⟩ := (Resp_iff w).mp H
  have hlt : h < w.nextId := H.lt l h hp
  have hne : h ≠ w.nextId := Nat.ne_of_lt hlt
  have hni : ∀ r' v', getRem w r' = some v' → r' ≠ r → h ∉ v'.items :=
    fun r' v' hr' hne hi' => hne (hf.items_excl r' v' r v h hr' hr hi' hi)
  have hreset : ∀ r' v', getRem w r' = some v' → r' ≠ r → (resetLists w.lists v' l).present h = true := by
    intro r' v' hr' hne
    rw [present_resetLists]
    simp [hni r' v' hr' hne, hp]
  cases op with
  | rnew r l' => simp only [step]; split <;> exact hp
  | rappend r cb =>
    simp only [step]
    split
    · split
      · simp only [addVia, present_upd, present_append]
        split <;> first | exact hp | (rename_i e; subst e; simp [hp])
      · exact hp
    · exact hp
  | rprepend r cb =>
    simp only [step]
    split
    · split
      · simp only [addVia, present_upd, present_prepend]
        split <;> first | exact hp | (rename_i e; subst e; simp [hp])
      · exact hp
    · exact hp
  | rinsert r cb b =>
    simp only [step]
    split
    · split
      · simp only [addVia, present_upd, present_insert]
        split <;> first | exact hp | (rename_i e; subst e; simp [hp])
      · exact hp
    · exact hp
  | rremove r' h' =>
    simp only [step]
    split
    · rename_i v' hr'
      split
      · split
        · rename_i hc
          simp only [present_upd, present_remove]
          have : h ≠ h' := by
            intro e; subst e
            simp only [Bool.and_eq_true, List.contains_iff_mem] at hc
            by_cases e : r' = r
            · exact hop ⟨e, rfl⟩
            · exact hni r' v' hr' e (by simpa using hc.1)
          split <;> first | exact hp | (rename_i e; subst e; simp [this, hp])
        · exact hp
      · exact hp
    · exact hp
  | rreset r' =>
    simp only [step]
    split
    · rename_i v' hr'; exact hreset r' v' hr' hop
    · exact hp
  | rtarget r' l' =>
    simp only [step]
    split
    · rename_i v' hr'
      split
      · exact hp
      · rename_i hne'
        by_cases e : r' = r
        · subst e
          rw [hr] at hr'; cases hr'
          exact absurd ⟨rfl, fun e => hne' (by rw [ht, e])⟩ hop
        · exact hreset r' v' hr' e
    · exact hp
  | rmovector dst src => simp only [step]; split <;> exact hp
  | rmoveassign dst src =>
    simp only [step]
    split
    · rename_i d v' hd hs
      split
      · exact hp
      · rename_i hne'
        by_cases e : dst = r
        · subst e
          exact absurd ⟨rfl, fun e => hne' e.symm⟩ hop
        · exact hreset dst d hd e
    · exact hp
  | rswap a b => simp only [step]; split <;> exact hp
  | rdestroy r' =>
    simp only [step]
    split
    · rename_i v' hr'; exact hreset r' v' hr' hop
    · exact hp
  | append l' cb =>
    simp only [step, present_upd, present_append]
    split <;> first | exact hp | (rename_i e; subst e; simp [hp])
  | remove l' h' =>
    simp only [step, present_upd, present_remove]
    split
    · rename_i e; subst e
      have : h ≠ h' := fun e => hop ⟨rfl, e.symm⟩
      simp [this, hp]
    · exact hp

end Evp.Rem
