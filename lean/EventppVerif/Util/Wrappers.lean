import EventppVerif.CL.Machine
import EventppVerif.Generated.RemoverFrag
/-
  Models of the `CounterRemover` / `ConditionalRemover` wrappers (utilities/counterremover.h,
  conditionalremover.h) as *behaviour transformers* on the callback-list machines: the wrapper is
  a callback whose program is "test; remove my own handle when due; then run the wrapped
  listener's program".  The test (`--triggerCount <= 0`, pre- or post-decrement, comparison and
  threshold) is regenerated from the source (Generated/RemoverFrag.lean); the trigger count is a
  32-bit `int`, so the decrement wraps at `INT_MIN` (the real code has undefined behaviour there).
-/
namespace Evp.Wrap
open Evp Evp.Gen.Remover

def intMin : Int := -2147483648
def intMax : Int := 2147483647

/-- `--x` on a 32-bit int -/
def dec32 (x : Int) : Int := if x = intMin then intMax else x - 1

def decN : Nat → Int → Int
  | 0, x => x
  | k + 1, x => decN k (dec32 x)

/-- is the wrapper's `k`-th call (0-based) the one that finds the test true? -/
def counterDue (n : Int) (k : Nat) : Bool :=
  if testsAfterDecrement then due (decN (k + 1) n) else due (decN k n)

/-- the wrapper around callback id `w` with trigger count `n`; `inner` is what the wrapped
    listener (and every other callback) does.  Applies to invocations, not to `forEach`
    enumerations (those hand the callable to the visitor without calling it). -/
def counterBeh (w : Cb) (n : Int) (inner : Beh) : Beh := fun call nth =>
  if call.cb = w ∧ call.enum = false ∧ counterDue n nth then
    .op (.remove call.list call.h) (fun _ => inner call nth)
  else inner call nth

/-- ConditionalRemover: the condition is a function of the trigger's argument -/
def condBeh (w : Cb) (cond : Nat → Bool) (inner : Beh) : Beh := fun call nth =>
  if call.cb = w ∧ call.enum = false ∧ cond call.arg then
    .op (.remove call.list call.h) (fun _ => inner call nth)
  else inner call nth

end Evp.Wrap
