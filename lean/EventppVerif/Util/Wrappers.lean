import EventppVerif.CL.Machine
import EventppVerif.Generated.RemoverFrag
/-
  Models of the `CounterRemover` / `ConditionalRemover` wrappers (utilities/counterremover.h,
  conditionalremover.h) as *behaviour transformers* on the callback-list machines: the wrapper is
  a callback whose program is "test; remove my own handle when due; then run the wrapped
  listener's program".  What one call of the wrapper does to the stored trigger count and whether it
  finds the removal due is regenerated from the source (`Gen.Remover.call`, Generated/RemoverFrag.lean);
  the trigger count is a 32-bit `int` (`dec32`).
-/
namespace Evp.Wrap
open Evp Evp.Gen.Remover

def intMin : Int := -2147483648
def intMax : Int := 2147483647

/-- the stored trigger count after `k` calls of the wrapper (`Gen.Remover.call` is one call) -/
def countAfter : Nat → Int → Int
  | 0, c => c
  | k + 1, c => countAfter k (call c).2

/-- is the wrapper's `k`-th call (0-based) one that finds the removal due? -/
def counterDue (n : Int) (k : Nat) : Bool := (call (countAfter k n)).1

/-- the wrapper around callback id `w` with trigger count `n`; `inner` is what the wrapped
    listener (and every other callback) does.  Applies to invocations, not to `forEach`
    enumerations (those hand the callable to the visitor without calling it). -/
def counterBeh (w : Cb) (n : Int) (inner : Beh) : Beh := fun call nth =>
  if call.cb = w ∧ call.enum = false ∧ counterDue n nth then
    .op (.remove call.list call.h) (fun _ => inner call nth)
  else inner call nth

/-- ConditionalRemover: the condition is a function of the trigger's argument -/
def condBeh (w : Cb) (cond : Nat → Bool) (inner : Beh) : Beh := fun call nth =>
  if call.cb = w ∧ call.enum = false ∧ cond call.arg then
    .op (.remove call.list call.h) (fun _ => inner call nth)
  else inner call nth

end Evp.Wrap
