import EventppVerif.Util.Wrappers
import EventppVerif.CL.ListLemmas
import EventppVerif.CL.Sim
/-
  Helper lemmas for property C16 (CounterRemover / ConditionalRemover): the arithmetic of the
  32-bit trigger count, the generic "remove yourself when due" wrapper, and the invariant of the
  Spec machine that bounds the calls of the wrapped listener.
-/
namespace Evp.Wrap
open Evp Evp.Gen.Remover SList

/-! ### arithmetic of the trigger count -/

theorem dec32_of_ne {x : Int} (h : x ≠ intMin) : dec32 x = x - 1 := by
  unfold dec32; unfold intMin at h; simp [h]

/-- one call of the wrapper (the regenerated `Gen.Remover.call`, unfolded): the removal is due iff
    the stored count is `≤ 1`; otherwise the count is decremented, and the decrement is applied to
    a value `> 1`, so it is the true subtraction (no wrap at `INT_MIN`) -/
theorem call_eq (c : Int) : call c = if c ≤ 1 then (true, c) else (false, c - 1) := by
  unfold call
  split
  · rfl
  · rw [dec32_of_ne (by unfold intMin; omega)]

theorem call_fst (c : Int) : (call c).1 = decide (c ≤ 1) := by
  rw [call_eq]; split <;> simp [*]

theorem call_snd (c : Int) : (call c).2 = if c ≤ 1 then c else c - 1 := by
  rw [call_eq]; split <;> rfl

/-- a call that does not find the removal due has a stored count `> 1` (in particular not
    `INT_MIN`), and its `dec32` is the true subtraction -/
theorem call_not_due {c : Int} (h : (call c).1 = false) :
    c > 1 ∧ c ≠ intMin ∧ (call c).2 = dec32 c ∧ dec32 c = c - 1 := by
  unfold call at h ⊢
  split at h
  · cases h
  · rename_i hc
    rw [if_neg hc]
    have hne : c ≠ intMin := by unfold intMin; omega
    exact ⟨by omega, hne, rfl, dec32_of_ne hne⟩

/-- `countAfter` peels calls at the front; the same with the last call peeled -/
theorem countAfter_succ : ∀ (k : Nat) (n : Int), countAfter (k + 1) n = (call (countAfter k n)).2
  | 0, _ => rfl
  | k + 1, n => by
    rw [countAfter, countAfter_succ k]
    rfl

/-- the stored count after `k` calls: a count `≤ 1` is never changed; a count `n > 1` is `n - k`
    while that is `> 1` and stays `1` afterwards -/
theorem countAfter_eq : ∀ (k : Nat) (n : Int),
    countAfter k n = if n ≤ 1 then n else max (n - k) 1
  | 0, n => by
    simp only [countAfter]
    split <;> omega
  | k + 1, n => by
    rw [countAfter, countAfter_eq k, call_snd]
    by_cases h : n ≤ 1
    · simp only [h, if_true]
    · simp only [h, if_false]
      split <;> omega

/-- the stored count stays a 32-bit `int` -/
theorem countAfter_range {n : Int} (k : Nat) (h : intMin ≤ n ∧ n ≤ intMax) :
    intMin ≤ countAfter k n ∧ countAfter k n ≤ intMax := by
  have hm : intMin = -2147483648 := rfl
  have hM : intMax = 2147483647 := rfl
  rw [countAfter_eq]
  split <;> omega

/-- the test of call `k` (0-based) is true iff `k + 1 ≥ max n 1` - for every `n` and every `k` -/
theorem counterDue_iff (n : Int) (k : Nat) :
    counterDue n k = true ↔ (k + 1 : Int) ≥ max n 1 := by
  simp only [counterDue, call_fst, countAfter_eq, decide_eq_true_eq]
  split <;> omega

theorem counterDue_first (n : Int) (k : Nat) :
    (k + 1 < (max n 1).toNat → counterDue n k = false) ∧
    (k + 1 = (max n 1).toNat → counterDue n k = true) := by
  constructor
  · intro h
    have := counterDue_iff n k
    cases hc : counterDue n k with
    | false => rfl
    | true => have := this.mp hc; omega
  · intro h
    exact (counterDue_iff n k).mpr (by omega)

/-- a call that does not find the removal due decrements a count `> 1`: `dec32` is never applied
    to `INT_MIN` -/
theorem counter_no_overflow (n : Int) (k : Nat) (h : (call (countAfter k n)).1 = false) :
    countAfter k n > 1 ∧ countAfter k n ≠ intMin ∧
    countAfter (k + 1) n = countAfter k n - 1 := by
  obtain ⟨h1, h2, h3, h4⟩ := call_not_due h
  refine ⟨h1, h2, ?_⟩
  rw [← h4, ← h3]
  exact countAfter_succ k n

/-! ### the generic wrapper -/

/-- "remove my own handle when `due`, then run the wrapped listener" -/
def wrapBeh (w : Cb) (due : Call → Nat → Bool) (inner : Beh) : Beh := fun call nth =>
  if call.cb = w ∧ call.enum = false ∧ due call nth = true then
    .op (.remove call.list call.h) (fun _ => inner call nth)
  else inner call nth

theorem counterBeh_eq (w : Cb) (n : Int) (inner : Beh) :
    counterBeh w n inner = wrapBeh w (fun _ nth => counterDue n nth) inner := rfl

theorem condBeh_eq (w : Cb) (cond : Nat → Bool) (inner : Beh) :
    condBeh w cond inner = wrapBeh w (fun call _ => cond call.arg) inner := rfl

theorem wrapBeh_due {w due inner} {call : Call} {nth : Nat}
    (h : call.cb = w ∧ call.enum = false ∧ due call nth = true) :
    wrapBeh w due inner call nth = .op (.remove call.list call.h) (fun _ => inner call nth) := by
  unfold wrapBeh; rw [if_pos h]

theorem wrapBeh_not_due {w due inner} {call : Call} {nth : Nat}
    (h : ¬ (call.cb = w ∧ call.enum = false ∧ due call nth = true)) :
    wrapBeh w due inner call nth = inner call nth := by
  unfold wrapBeh; rw [if_neg h]

theorem counter_program {w : Cb} (n : Int) (inner : Beh) (call : Call) (nth : Nat)
    (hcb : call.cb = w) (hen : call.enum = false) :
    (nth + 1 < (max n 1).toNat → counterBeh w n inner call nth = inner call nth) ∧
    (nth + 1 = (max n 1).toNat →
      counterBeh w n inner call nth = .op (.remove call.list call.h) (fun _ => inner call nth)) := by
  rw [counterBeh_eq]
  exact ⟨fun h => wrapBeh_not_due (by simp [(counterDue_first n nth).1 h]),
         fun h => wrapBeh_due ⟨hcb, hen, (counterDue_first n nth).2 h⟩⟩

theorem cond_program {w : Cb} (cond : Nat → Bool) (inner : Beh) (call : Call) (nth : Nat)
    (hcb : call.cb = w) (hen : call.enum = false) :
    (cond call.arg = false → condBeh w cond inner call nth = inner call nth) ∧
    (cond call.arg = true →
      condBeh w cond inner call nth = .op (.remove call.list call.h) (fun _ => inner call nth)) := by
  rw [condBeh_eq]
  exact ⟨fun h => wrapBeh_not_due (by simp [h]), fun h => wrapBeh_due ⟨hcb, hen, h⟩⟩

/-! ### programs that leave the wrapped listener's registration alone -/

/-- commands that never register callback `w` again, never enumerate list `lw` (an enumeration
    visit is counted as a call by the machines but does not run the wrapper) and never copy,
    move or swap list `lw` -/
def CmdOK (w lw : Nat) : Cmd → Prop
  | .append _ cb => cb ≠ w
  | .prepend _ cb => cb ≠ w
  | .insert _ cb _ => cb ≠ w
  | .enum l _ => l ≠ lw
  | .copyAssign dst src => dst ≠ lw ∧ src ≠ lw
  | .moveAssign dst src => dst ≠ lw ∧ src ≠ lw
  | .swap a b => a ≠ lw ∧ b ≠ lw
  | _ => True

/-- every command of the interaction tree, whatever results the earlier ones returned, is `CmdOK` -/
inductive Clean (w lw : Nat) : Prog → Prop
  | ret (v : Bool) : Clean w lw (.ret v)
  | op (c : Cmd) (k : Res → Prog) : CmdOK w lw c → (∀ r, Clean w lw (k r)) → Clean w lw (.op c k)

theorem Clean.inv {w lw c k} (h : Clean w lw (.op c k)) : CmdOK w lw c ∧ ∀ r, Clean w lw (k r) := by
  cases h with
  | op _ _ h1 h2 => exact ⟨h1, h2⟩

theorem wrapBeh_clean {w lw due inner} (hin : ∀ call nth, Clean w lw (inner call nth)) (call : Call) (nth : Nat) :
    Clean w lw (wrapBeh w due inner call nth) := by
  unfold wrapBeh
  split
  · exact Clean.op _ _ trivial (fun _ => hin call nth)
  · exact hin call nth

/-! ### traces -/

/-- has some recorded call of `w` found its test true? (`nth` = number of earlier calls of `w`) -/
def fired (w : Cb) (due : Call → Nat → Bool) : List Ev → Bool
  | [] => false
  | .call cl :: tr => (cl.cb == w && due cl (countCalls tr w)) || fired w due tr
  | .res _ :: tr => fired w due tr

/-- every recorded call of `w` is an invocation of entry `⟨hw, w⟩` of list `lw` made while no
    earlier call had found its test true -/
def TraceOK (w lw hw : Nat) (due : Call → Nat → Bool) : List Ev → Prop
  | [] => True
  | .call cl :: tr =>
    (cl.cb = w → cl.enum = false ∧ cl.list = lw ∧ cl.h = hw ∧ fired w due tr = false) ∧ TraceOK w lw hw due tr
  | .res _ :: tr => TraceOK w lw hw due tr

theorem countCalls_call (cl : Call) (tr : List Ev) (w : Cb) :
    countCalls (.call cl :: tr) w = countCalls tr w + (if cl.cb = w then 1 else 0) := by
  unfold countCalls
  by_cases h : cl.cb = w <;> simp [Ev.isCallOf, h]

theorem countCalls_res (r : Res) (tr : List Ev) (w : Cb) : countCalls (.res r :: tr) w = countCalls tr w := by
  unfold countCalls
  simp [Ev.isCallOf]

theorem traceOK_of_count_zero {w lw hw due} : ∀ (tr : List Ev), countCalls tr w = 0 →
    TraceOK w lw hw due tr ∧ fired w due tr = false
  | [], _ => ⟨trivial, rfl⟩
  | .res r :: tr, h => by
    rw [countCalls_res] at h
    exact traceOK_of_count_zero tr h
  | .call cl :: tr, h => by
    rw [countCalls_call] at h
    have hne : cl.cb ≠ w := by intro e; simp [e] at h
    have h0 : countCalls tr w = 0 := by omega
    have ih := traceOK_of_count_zero (lw := lw) (hw := hw) (due := due) tr h0
    refine ⟨⟨fun e => absurd e hne, ih.1⟩, ?_⟩
    show ((cl.cb == w && due cl (countCalls tr w)) || fired w due tr) = false
    simp [hne, ih.2]


/-! ### the list-level part of the invariant -/

/-- callback `w` is registered at most as entry `⟨hw, w⟩` of list `lw`, handle `hw` is used by
    no other entry, and `hw` has been issued -/
structure LInv (w lw hw : Nat) (lists : Store SList) (nextId : Nat) : Prop where
  fresh : hw < nextId
  ent : ∀ l e, e ∈ lists l → (e.cb = w ∨ e.id = hw) → e.cb = w ∧ e.id = hw ∧ l = lw

theorem remove_fst' (L : SList) (h : Hd) : (L.remove h).1 = L.erase h := by
  unfold SList.remove
  split
  · rfl
  · rename_i hp
    have hp' : h ∉ L.ids := by rw [← present_iff]; simpa using hp
    symm
    simp only [SList.erase]
    apply List.filter_eq_self.mpr
    intro e he
    have : e.id ≠ h := fun hh => hp' (hh ▸ mem_ids_of_mem he)
    simpa using this

theorem mem_insert {L : SList} {id cb b} {x : Entry} : x ∈ L.insert id cb b ↔ x = ⟨id, cb⟩ ∨ x ∈ L := by
  unfold SList.insert
  split
  · exact mem_insertBefore
  · simp [SList.append]; exact Or.comm

theorem mem_cloneWith : ∀ {L : SList} {id : Nat} {e : Entry}, e ∈ L.cloneWith id → id ≤ e.id ∧ ∃ e' ∈ L, e'.cb = e.cb
  | [], _, _, h => by simp [cloneWith] at h
  | x :: r, id, e, h => by
    simp only [cloneWith, List.mem_cons] at h
    rcases h with h | h
    · subst h; exact ⟨Nat.le_refl _, x, by simp, rfl⟩
    · obtain ⟨h1, e', h2, h3⟩ := mem_cloneWith h
      exact ⟨by omega, e', by simp [h2], h3⟩

theorem LInv.not_foreign {w lw hw lists n} (H : LInv w lw hw lists n) (c : SCfg) (hl : c.lists = lists) :
    c.foreign lw hw = false := by
  unfold SCfg.foreign
  rw [List.any_eq_false]
  intro l' _
  simp only [Bool.and_eq_true, bne_iff_ne, ne_eq, not_and, Bool.not_eq_true]
  intro hne
  rw [present_false_iff]
  intro hm
  simp only [ids, List.mem_map] at hm
  obtain ⟨e, he, hid⟩ := hm
  rw [hl] at he
  exact hne (H.ent l' e he (Or.inr hid)).2.2

theorem apply_trace (c : SCfg) (busy : Nat → Bool) (cmd : Cmd) : (c.apply busy cmd).1.trace = c.trace := by
  cases cmd <;> simp only [SCfg.apply] <;> (repeat' split) <;> rfl

theorem apply_stack (c : SCfg) (busy : Nat → Bool) (cmd : Cmd) : (c.apply busy cmd).1.stack = c.stack := by
  cases cmd <;> simp only [SCfg.apply] <;> (repeat' split) <;> rfl

theorem present_of_mem {L : SList} {e : Entry} (h : e ∈ L) : L.present e.id = true :=
  present_iff.mpr (mem_ids_of_mem h)

theorem exists_of_present {L : SList} {h : Hd} (hp : L.present h = true) : ∃ e ∈ L, e.id = h := by
  have := present_iff.mp hp
  simpa [ids] using this

theorem apply_linv {w lw hw : Nat} (c : SCfg) (busy : Nat → Bool) (cmd : Cmd)
    (H : LInv w lw hw c.lists c.nextId) (hok : CmdOK w lw cmd) :
    LInv w lw hw (c.apply busy cmd).1.lists (c.apply busy cmd).1.nextId ∧
    ((c.lists lw).present hw = false → ((c.apply busy cmd).1.lists lw).present hw = false) := by
  obtain ⟨hf, he⟩ := H
  have hne : hw ≠ c.nextId := Nat.ne_of_lt hf
  cases cmd with
  | append l cb =>
    simp only [SCfg.apply, CmdOK] at hok ⊢
    refine ⟨⟨by omega, ?_⟩, ?_⟩
    · intro l' e hm hor
      rw [upd_get] at hm
      split at hm
      · simp only [SList.append, List.mem_append, List.mem_singleton] at hm
        rcases hm with hm | hm
        · rename_i e'; subst e'; exact he _ e hm hor
        · subst hm; rcases hor with hor | hor
          · exact absurd hor hok
          · exact absurd hor.symm hne
      · exact he l' e hm hor
    · intro hp
      rw [upd_get]; split
      · rename_i e; subst e; rw [present_append, hp]; simp [hne]
      · exact hp
  | prepend l cb =>
    simp only [SCfg.apply, CmdOK] at hok ⊢
    refine ⟨⟨by omega, ?_⟩, ?_⟩
    · intro l' e hm hor
      rw [upd_get] at hm
      split at hm
      · simp only [SList.prepend, List.mem_cons] at hm
        rcases hm with hm | hm
        · subst hm; rcases hor with hor | hor
          · exact absurd hor hok
          · exact absurd hor.symm hne
        · rename_i e'; subst e'; exact he _ e hm hor
      · exact he l' e hm hor
    · intro hp
      rw [upd_get]; split
      · rename_i e; subst e; rw [present_prepend, hp]; simp [hne]
      · exact hp
  | insert l cb b =>
    simp only [SCfg.apply, CmdOK] at hok ⊢
    split
    · exact ⟨⟨hf, he⟩, id⟩
    · refine ⟨⟨by simp; omega, ?_⟩, ?_⟩
      · intro l' e hm hor
        simp only at hm
        rw [upd_get] at hm
        split at hm
        · rw [mem_insert] at hm
          rcases hm with hm | hm
          · subst hm; rcases hor with hor | hor
            · exact absurd hor hok
            · exact absurd hor.symm hne
          · rename_i e'; subst e'; exact he _ e hm hor
        · exact he l' e hm hor
      · intro hp
        simp only
        rw [upd_get]; split
        · rename_i e; subst e
          cases hq : ((c.lists lw).insert c.nextId cb b).present hw with
          | false => rfl
          | true =>
            obtain ⟨e, hm, hid⟩ := exists_of_present hq
            rw [mem_insert] at hm
            rcases hm with hm | hm
            · subst hm; exact absurd hid.symm hne
            · have := present_of_mem hm; rw [hid, hp] at this; cases this
        · exact hp
  | remove l h =>
    simp only [SCfg.apply]
    split
    · exact ⟨⟨hf, he⟩, id⟩
    · refine ⟨⟨hf, ?_⟩, ?_⟩
      · intro l' e hm hor
        simp only at hm
        rw [upd_get] at hm
        split at hm
        · rw [remove_fst'] at hm
          rename_i e'; subst e'; exact he _ e (mem_erase.mp hm).1 hor
        · exact he l' e hm hor
      · intro hp
        simp only
        rw [upd_get]; split
        · rename_i e; subst e; rw [remove_fst', present_erase, hp]; rfl
        · exact hp
  | owns l h => simp only [SCfg.apply]; split <;> exact ⟨⟨hf, he⟩, id⟩
  | empty l => exact ⟨⟨hf, he⟩, id⟩
  | invoke l a => exact ⟨⟨hf, he⟩, id⟩
  | enum l a => exact ⟨⟨hf, he⟩, id⟩
  | setCounter l k => exact ⟨⟨hf, he⟩, id⟩
  | copyAssign dst src =>
    simp only [SCfg.apply, CmdOK] at hok ⊢
    split
    · exact ⟨⟨hf, he⟩, id⟩
    · refine ⟨⟨by simp; omega, ?_⟩, ?_⟩
      · intro l' e hm hor
        simp only at hm
        rw [upd_get] at hm
        split at hm
        · obtain ⟨h1, e', h2, h3⟩ := mem_cloneWith hm
          rcases hor with hor | hor
          · have := (he src e' h2 (Or.inl (h3.trans hor))).2.2
            exact absurd this hok.2
          · rw [hor] at h1; exact absurd h1 (Nat.not_le.mpr hf)
        · exact he l' e hm hor
      · intro hp
        simp only
        rw [upd_get]; split
        · rename_i e; exact absurd e.symm hok.1
        · exact hp
  | moveAssign dst src =>
    simp only [SCfg.apply, CmdOK] at hok ⊢
    split
    · exact ⟨⟨hf, he⟩, id⟩
    · refine ⟨⟨hf, ?_⟩, ?_⟩
      · intro l' e hm hor
        simp only at hm
        rw [upd_get] at hm
        split at hm
        · cases hm
        · rw [upd_get] at hm
          split at hm
          · exact absurd (he src e hm hor).2.2 hok.2
          · exact he l' e hm hor
      · intro hp
        simp only
        rw [upd_get]; split
        · rename_i e; exact absurd e.symm hok.2
        · rw [upd_get]; split
          · rename_i e; exact absurd e.symm hok.1
          · exact hp
  | swap a b =>
    simp only [SCfg.apply, CmdOK] at hok ⊢
    split
    · exact ⟨⟨hf, he⟩, id⟩
    · refine ⟨⟨hf, ?_⟩, ?_⟩
      · intro l' e hm hor
        simp only at hm
        rw [upd_get] at hm
        split at hm
        · exact absurd (he a e hm hor).2.2 hok.1
        · rw [upd_get] at hm
          split at hm
          · exact absurd (he b e hm hor).2.2 hok.2
          · exact he l' e hm hor
      · intro hp
        simp only
        rw [upd_get]; split
        · rename_i e; exact absurd e.symm hok.2
        · rw [upd_get]; split
          · rename_i e; exact absurd e.symm hok.1
          · exact hp

/-! ### the machine invariant -/

def WFrameOK (w lw hw : Nat) : SFrame → Prop
  | .prog p => Clean w lw p
  | .wait k => ∀ r, Clean w lw (k r)
  | .iter l rest _ honour => ∀ e ∈ rest, e.cb = w → e.id = hw ∧ l = lw ∧ honour = false

/-- the top frame is a program whose next command is `remove lw hw` -/
def AboutToRemove (lw hw : Nat) (st : List SFrame) : Prop :=
  ∃ k rest, st = .prog (.op (.remove lw hw) k) :: rest

structure WInv (w lw hw : Nat) (due : Call → Nat → Bool) (c : SCfg) : Prop where
  linv : LInv w lw hw c.lists c.nextId
  frames : ∀ f ∈ c.stack, WFrameOK w lw hw f
  trace : TraceOK w lw hw due c.trace
  fired : fired w due c.trace = true →
    (c.lists lw).present hw = false ∨ AboutToRemove lw hw c.stack

variable {w lw hw : Nat} {due : Call → Nat → Bool}

theorem deliver_winv {c : SCfg} (H : WInv w lw hw due c) {below : List SFrame}
    (hb : ∀ f ∈ below, WFrameOK w lw hw f) (hna : ¬ AboutToRemove lw hw c.stack) (r : Res) :
    WInv w lw hw due (c.deliver r below) := by
  have hnp : fired w due c.trace = true → (c.lists lw).present hw = false := fun hf =>
    (H.fired hf).resolve_right hna
  unfold SCfg.deliver
  split
  · rename_i k rest
    refine ⟨H.linv, ?_, H.trace, fun hf => Or.inl (hnp hf)⟩
    intro f hf
    rcases List.mem_cons.mp hf with e | hf
    · subst e; exact hb (.wait k) (by simp) r
    · exact hb f (by simp [hf])
  · exact ⟨H.linv, hb, H.trace, fun hf => Or.inl (hnp hf)⟩

theorem seekCall_winv {inner : Beh} (hin : ∀ call nth, Clean w lw (inner call nth))
    {c : SCfg} (H : WInv w lw hw due c) {below : List SFrame}
    (hb : ∀ f ∈ below, WFrameOK w lw hw f) (hna : ¬ AboutToRemove lw hw c.stack)
    {l : Nat} {snap : List Entry} {honour : Bool}
    (hsnap : ∀ e ∈ snap, e.cb = w → e.id = hw ∧ l = lw ∧ honour = false) (arg : Nat) :
    WInv w lw hw due (SCfg.seekCall (wrapBeh w due inner) c l snap arg honour below) := by
  have hnp : fired w due c.trace = true → (c.lists lw).present hw = false := fun hf =>
    (H.fired hf).resolve_right hna
  unfold SCfg.seekCall
  split
  · exact deliver_winv H hb hna _
  · rename_i e es hd
    have hsuf : (e :: es) <:+ snap := hd ▸ List.dropWhile_suffix _
    have hmem : ∀ x ∈ e :: es, x ∈ snap := fun x hx => hsuf.subset hx
    have hpres : (c.lists l).present e.id = true := by
      have := List.head?_dropWhile_not (fun e : Entry => !(c.lists l).present e.id) snap
      rw [hd] at this
      simpa using this
    have he := hsnap e (hmem e (by simp))
    refine ⟨H.linv, ?_, ⟨?_, H.trace⟩, ?_⟩
    · intro f hf
      simp only [List.mem_cons] at hf
      rcases hf with rfl | rfl | hf
      · exact wrapBeh_clean hin _ _
      · intro x hx; exact hsnap x (hmem x (by simp [hx]))
      · exact hb f hf
    · intro hcb
      obtain ⟨h1, h2, h3⟩ := he hcb
      refine ⟨h3, h2, h1, ?_⟩
      cases hf : fired w due c.trace with
      | false => rfl
      | true =>
        have := hnp hf
        rw [← h2, ← h1, hpres] at this; cases this
    · intro hf
      show _ ∨ AboutToRemove lw hw (_ :: _ :: below)
      simp only [fired, Bool.or_eq_true, Bool.and_eq_true, beq_iff_eq] at hf
      rcases hf with ⟨hcb, hdue⟩ | hf
      · obtain ⟨h1, h2, h3⟩ := he hcb
        right
        refine ⟨fun _ => inner ⟨l, e.id, e.cb, arg, honour⟩ (countCalls c.trace e.cb),
          .iter l es arg honour :: below, ?_⟩
        have hcnt : countCalls c.trace e.cb = countCalls c.trace w := by rw [hcb]
        have hdue' : due ⟨l, e.id, e.cb, arg, honour⟩ (countCalls c.trace e.cb) = true := by
          rw [hcnt]; exact hdue
        rw [wrapBeh_due ⟨hcb, h3, hdue'⟩]
        simp only [h1, h2]
      · exact Or.inl (hnp hf)


theorem pop_winv {c : SCfg} (H : WInv w lw hw due c) {st : List SFrame}
    (hsub : ∀ f ∈ st, f ∈ c.stack) (hna : ¬ AboutToRemove lw hw c.stack) :
    WInv w lw hw due { c with stack := st } :=
  ⟨H.linv, fun f hf => H.frames f (hsub f hf), H.trace, fun hf => Or.inl ((H.fired hf).resolve_right hna)⟩

theorem applyStep_winv {c : SCfg} (H : WInv w lw hw due c) {cmd : Cmd} {k : Res → Prog} {rest : List SFrame}
    (hst : c.stack = .prog (.op cmd k) :: rest) (hok : CmdOK w lw cmd) (hk : ∀ r, Clean w lw (k r)) :
    WInv w lw hw due (c.applyStep cmd k rest) := by
  have hl := apply_linv c (busyOn SFrame.isIterOn rest) cmd H.linv hok
  refine ⟨hl.1, ?_, ?_, ?_⟩
  · intro f hf
    rcases List.mem_cons.mp hf with e | hf
    · subst e; exact hk _
    · exact H.frames f (by rw [hst]; simp [hf])
  · show TraceOK w lw hw due (.res _ :: (c.apply (busyOn SFrame.isIterOn rest) cmd).1.trace)
    rw [apply_trace]; exact H.trace
  · intro hf
    left
    have hf' : fired w due c.trace = true := by
      have : fired w due (.res (c.apply (busyOn SFrame.isIterOn rest) cmd).2 ::
        (c.apply (busyOn SFrame.isIterOn rest) cmd).1.trace) = true := hf
      rw [apply_trace] at this; exact this
    show ((c.apply (busyOn SFrame.isIterOn rest) cmd).1.lists lw).present hw = false
    rcases H.fired hf' with hp | ⟨k', rest', e⟩
    · exact hl.2 hp
    · rw [hst] at e
      injection e with e1 _
      injection e1 with e1
      injection e1 with e1 _
      subst e1
      have hnf := H.linv.not_foreign c rfl
      simp only [SCfg.apply, hnf]
      simp [remove_fst', present_erase]

theorem winv_step {inner : Beh} (hin : ∀ call nth, Clean w lw (inner call nth))
    {c c' : SCfg} (H : WInv w lw hw due c) (hs : SCfg.step (wrapBeh w due inner) c = some c') :
    WInv w lw hw due c' := by
  cases hst : c.stack with
  | nil => rw [SCfg.step_nil hst] at hs; cases hs
  | cons f rest =>
    have hfr := H.frames
    rw [hst] at hfr
    cases f with
    | wait k => rw [SCfg.step_wait hst] at hs; cases hs
    | iter l sn arg ho => rw [SCfg.step_iter hst] at hs; cases hs
    | prog p =>
      cases p with
      | ret v =>
        have hna : ¬ AboutToRemove lw hw c.stack := by
          rw [hst]; rintro ⟨k, r, e⟩; cases e
        cases rest with
        | nil =>
          rw [SCfg.step_ret_nil hst] at hs; cases hs
          exact pop_winv H (by simp) hna
        | cons g rest' =>
          cases g with
          | prog q =>
            rw [SCfg.step_ret_prog hst] at hs; cases hs
            exact pop_winv H (by intro f hf; rw [hst]; simp [List.mem_cons.mp hf]) hna
          | wait k =>
            rw [SCfg.step_ret_wait hst] at hs; cases hs
            exact pop_winv H (by intro f hf; rw [hst]; simp [List.mem_cons.mp hf]) hna
          | iter l snap arg honour =>
            rw [SCfg.step_ret_iter hst] at hs
            have hb : ∀ f ∈ rest', WFrameOK w lw hw f := fun f hf => hfr f (by simp [hf])
            have hsnap := hfr (.iter l snap arg honour) (by simp)
            split at hs
            · cases hs; exact deliver_winv H hb hna _
            · cases hs; exact seekCall_winv hin H hb hna hsnap arg
      | op cmd k =>
        obtain ⟨hok, hk⟩ := (hfr (.prog (.op cmd k)) (by simp)).inv
        have hb : ∀ f ∈ SFrame.wait k :: rest, WFrameOK w lw hw f := by
          intro f hf
          rcases List.mem_cons.mp hf with e | hf
          · subst e; exact hk
          · exact hfr f (by simp [hf])
        by_cases h1 : ∃ l a, cmd = .invoke l a
        · obtain ⟨l, a, rfl⟩ := h1
          have hna : ¬ AboutToRemove lw hw c.stack := by
            rw [hst]; rintro ⟨k, r, e⟩; cases e
          rw [SCfg.step_invoke hst] at hs; cases hs
          refine seekCall_winv hin H hb hna ?_ a
          intro e he hcb
          have := H.linv.ent l e he (Or.inl hcb)
          exact ⟨this.2.1, this.2.2, rfl⟩
        · by_cases h2 : ∃ l a, cmd = .enum l a
          · obtain ⟨l, a, rfl⟩ := h2
            have hna : ¬ AboutToRemove lw hw c.stack := by
              rw [hst]; rintro ⟨k, r, e⟩; cases e
            rw [SCfg.step_enum hst] at hs; cases hs
            refine seekCall_winv hin H hb hna ?_ a
            intro e he hcb
            have := H.linv.ent l e he (Or.inl hcb)
            exact absurd this.2.2 hok
          · rw [SCfg.step_op hst (fun l a e => h1 ⟨l, a, e⟩) (fun l a e => h2 ⟨l, a, e⟩)] at hs
            cases hs
            exact applyStep_winv H hst hok hk

theorem winv_runN {inner : Beh} (hin : ∀ call nth, Clean w lw (inner call nth)) :
    ∀ (k : Nat) {c : SCfg}, WInv w lw hw due c → WInv w lw hw due (SCfg.runN (wrapBeh w due inner) k c).1
  | 0, _, H => H
  | k + 1, c, H => by
    unfold SCfg.runN
    cases hs : SCfg.step (wrapBeh w due inner) c with
    | none => exact H
    | some c' => exact winv_runN hin k (winv_step hin H hs)

/-! ### consequences -/

theorem winv_init {c0 : SCfg} {p : Prog} (hstack : c0.stack = [.prog p]) (hp : Clean w lw p)
    (hfresh : hw < c0.nextId)
    (hent : ∀ l e, e ∈ c0.lists l → (e.cb = w ∨ e.id = hw) → e.cb = w ∧ e.id = hw ∧ l = lw)
    (hcount : countCalls c0.trace w = 0) : WInv w lw hw due c0 := by
  have ht := traceOK_of_count_zero (lw := lw) (hw := hw) (due := due) c0.trace hcount
  refine ⟨⟨hfresh, hent⟩, ?_, ht.1, ?_⟩
  · intro f hf
    rw [hstack] at hf
    simp only [List.mem_singleton] at hf
    subst hf; exact hp
  · intro hf; rw [ht.2] at hf; cases hf

theorem apply_remove_absent {c : SCfg} (H : LInv w lw hw c.lists c.nextId) (busy : Nat → Bool) :
    ((c.apply busy (.remove lw hw)).1.lists lw).present hw = false := by
  have hnf := H.not_foreign c rfl
  simp only [SCfg.apply, hnf]
  simp [remove_fst', present_erase]

/-- the trace invariant for the counter test: at most `max(n,1)` calls, and the test has been
    true exactly when that many calls have been made -/
theorem counter_trace (n : Int) : ∀ (tr : List Ev),
    TraceOK w lw hw (fun _ k => counterDue n k) tr →
    countCalls tr w ≤ (max n 1).toNat ∧
    (fired w (fun _ k => counterDue n k) tr = true ↔ countCalls tr w = (max n 1).toNat)
  | [], _ => by
    have : (max n 1).toNat ≥ 1 := by omega
    refine ⟨Nat.zero_le _, ?_⟩
    simp only [fired, countCalls, List.filter_nil, List.length_nil]
    constructor
    · intro h; cases h
    · intro h; omega
  | .res r :: tr, h => by
    rw [countCalls_res]
    exact counter_trace n tr h
  | .call cl :: tr, h => by
    obtain ⟨h1, h2⟩ := h
    have ih := counter_trace n tr h2
    rw [countCalls_call]
    by_cases hcb : cl.cb = w
    · obtain ⟨_, _, _, hnf⟩ := h1 hcb
      have hlt : countCalls tr w < (max n 1).toNat := by
        rcases Nat.lt_or_ge (countCalls tr w) (max n 1).toNat with h | h
        · exact h
        · have := ih.2.mpr (Nat.le_antisymm ih.1 h); rw [hnf] at this; cases this
      have hd := counterDue_first n (countCalls tr w)
      refine ⟨by simp [hcb]; omega, ?_⟩
      simp only [fired, hcb, beq_self_eq_true, Bool.true_and, hnf, Bool.or_false, if_true]
      constructor
      · intro hdue
        rcases Nat.lt_or_ge (countCalls tr w + 1) (max n 1).toNat with h | h
        · rw [hd.1 h] at hdue; cases hdue
        · omega
      · intro h; exact hd.2 h
    · have hb : (cl.cb == w) = false := by simp [hcb]
      simp only [hcb, if_false, Nat.add_zero, fired, hb, Bool.false_and, Bool.false_or]
      exact ih

theorem fired_cond_iff (cond : Nat → Bool) : ∀ (tr : List Ev),
    fired w (fun cl _ => cond cl.arg) tr = true ↔ ∃ cl, Ev.call cl ∈ tr ∧ cl.cb = w ∧ cond cl.arg = true
  | [] => by simp [fired]
  | .res r :: tr => by
    have ih := fired_cond_iff cond tr
    simp only [fired, ih, List.mem_cons]
    constructor
    · rintro ⟨cl, h⟩; exact ⟨cl, Or.inr h.1, h.2⟩
    · rintro ⟨cl, h | h, h2⟩
      · cases h
      · exact ⟨cl, h, h2⟩
  | .call c0 :: tr => by
    have ih := fired_cond_iff cond tr
    simp only [fired, Bool.or_eq_true, Bool.and_eq_true, beq_iff_eq, ih, List.mem_cons]
    constructor
    · rintro (h | ⟨cl, h⟩)
      · exact ⟨c0, Or.inl rfl, h⟩
      · exact ⟨cl, Or.inr h.1, h.2⟩
    · rintro ⟨cl, h | h, h2⟩
      · cases h; exact Or.inl h2
      · exact Or.inr ⟨cl, h, h2⟩

theorem traceOK_split : ∀ (tr1 : List Ev) {cl : Call} {tr2 : List Ev},
    TraceOK w lw hw due (tr1 ++ .call cl :: tr2) → cl.cb = w →
    cl.enum = false ∧ cl.list = lw ∧ cl.h = hw ∧ fired w due tr2 = false
  | [], _, _, h, hcb => h.1 hcb
  | .res _ :: tr1, _, _, h, hcb => traceOK_split tr1 (by exact h) hcb
  | .call _ :: tr1, _, _, h, hcb => traceOK_split tr1 h.2 hcb

theorem dropWhile_nil {α} {p : α → Bool} : ∀ {l : List α}, l.dropWhile p = [] → ∀ x ∈ l, p x = true
  | [], _, x, hx => by cases hx
  | a :: l, h, x, hx => by
    rw [List.dropWhile_cons] at h
    split at h
    · rename_i hp
      rcases List.mem_cons.mp hx with e | hx
      · subst e; exact hp
      · exact dropWhile_nil h x hx
    · cases h

/-- what `seekCall` does: call an entry of the snapshot that is present in the list now, or finish
    because none of the remaining entries is -/
theorem seekCall_cases (beh : Beh) (c : SCfg) (l : Nat) (snap : List Entry) (arg : Nat) (honour : Bool)
    (below : List SFrame) :
    (∃ e es, e ∈ snap ∧ (c.lists l).present e.id = true ∧
      SCfg.seekCall beh c l snap arg honour below =
        { c with
          trace := .call ⟨l, e.id, e.cb, arg, honour⟩ :: c.trace
          stack := .prog (beh ⟨l, e.id, e.cb, arg, honour⟩ (countCalls c.trace e.cb)) ::
            .iter l es arg honour :: below }) ∨
    ((∀ e ∈ snap, (c.lists l).present e.id = false) ∧
      SCfg.seekCall beh c l snap arg honour below = c.deliver (MCfg.finishRes honour true) below) := by
  unfold SCfg.seekCall
  split
  · rename_i hd
    right
    refine ⟨?_, rfl⟩
    intro e he
    have := dropWhile_nil hd e he
    simpa using this
  · rename_i e es hd
    left
    have hsuf : (e :: es) <:+ snap := hd ▸ List.dropWhile_suffix _
    have hpres : (c.lists l).present e.id = true := by
      have := List.head?_dropWhile_not (fun e : Entry => !(c.lists l).present e.id) snap
      rw [hd] at this
      simpa using this
    exact ⟨e, es, hsuf.subset (by simp), hpres, rfl⟩

theorem deliver_trace (c : SCfg) (r : Res) (below : List SFrame) :
    (c.deliver r below).trace = c.trace ∨ (c.deliver r below).trace = .res r :: c.trace := by
  unfold SCfg.deliver
  split
  · right; rfl
  · left; rfl

/-- every step records at most one event; a recorded call is a call of an entry that is present
    in its list at that moment, and the program started is `beh` of that call -/
theorem step_call_present {beh : Beh} {c c' : SCfg} (hs : SCfg.step beh c = some c') :
    c'.trace = c.trace ∨ (∃ r, c'.trace = .res r :: c.trace) ∨
    (∃ cl, c'.trace = .call cl :: c.trace ∧ (c.lists cl.list).present cl.h = true ∧ c'.lists = c.lists ∧
      ∃ rest, c'.stack = .prog (beh cl (countCalls c.trace cl.cb)) :: rest) := by
  have hseek : ∀ l snap arg honour below, c' = SCfg.seekCall beh c l snap arg honour below →
      c'.trace = c.trace ∨ (∃ r, c'.trace = .res r :: c.trace) ∨
      (∃ cl, c'.trace = .call cl :: c.trace ∧ (c.lists cl.list).present cl.h = true ∧ c'.lists = c.lists ∧
        ∃ rest, c'.stack = .prog (beh cl (countCalls c.trace cl.cb)) :: rest) := by
    intro l snap arg honour below e
    rcases seekCall_cases beh c l snap arg honour below with ⟨e', es, _, hp, he⟩ | ⟨_, he⟩
    · right; right
      rw [e, he]
      exact ⟨⟨l, e'.id, e'.cb, arg, honour⟩, rfl, hp, rfl, _, rfl⟩
    · rw [e, he]
      rcases deliver_trace c (MCfg.finishRes honour true) below with h | h
      · exact Or.inl h
      · exact Or.inr (Or.inl ⟨_, h⟩)
  have hdel : ∀ r below, c' = c.deliver r below →
      c'.trace = c.trace ∨ (∃ r, c'.trace = .res r :: c.trace) ∨
      (∃ cl, c'.trace = .call cl :: c.trace ∧ (c.lists cl.list).present cl.h = true ∧ c'.lists = c.lists ∧
        ∃ rest, c'.stack = .prog (beh cl (countCalls c.trace cl.cb)) :: rest) := by
    intro r below e
    rw [e]
    rcases deliver_trace c r below with h | h
    · exact Or.inl h
    · exact Or.inr (Or.inl ⟨_, h⟩)
  cases hst : c.stack with
  | nil => rw [SCfg.step_nil hst] at hs; cases hs
  | cons f rest =>
    cases f with
    | wait k => rw [SCfg.step_wait hst] at hs; cases hs
    | iter l sn arg ho => rw [SCfg.step_iter hst] at hs; cases hs
    | prog p =>
      cases p with
      | ret v =>
        cases rest with
        | nil => rw [SCfg.step_ret_nil hst] at hs; cases hs; exact Or.inl rfl
        | cons g rest' =>
          cases g with
          | prog q => rw [SCfg.step_ret_prog hst] at hs; cases hs; exact Or.inl rfl
          | wait k => rw [SCfg.step_ret_wait hst] at hs; cases hs; exact Or.inl rfl
          | iter l snap arg honour =>
            rw [SCfg.step_ret_iter hst] at hs
            split at hs
            · cases hs; exact hdel _ _ rfl
            · cases hs; exact hseek _ _ _ _ _ rfl
      | op cmd k =>
        by_cases h1 : ∃ l a, cmd = .invoke l a
        · obtain ⟨l, a, rfl⟩ := h1
          rw [SCfg.step_invoke hst] at hs; cases hs; exact hseek _ _ _ _ _ rfl
        · by_cases h2 : ∃ l a, cmd = .enum l a
          · obtain ⟨l, a, rfl⟩ := h2
            rw [SCfg.step_enum hst] at hs; cases hs; exact hseek _ _ _ _ _ rfl
          · rw [SCfg.step_op hst (fun l a e => h1 ⟨l, a, e⟩) (fun l a e => h2 ⟨l, a, e⟩)] at hs
            cases hs
            right; left
            refine ⟨(c.apply (busyOn SFrame.isIterOn rest) cmd).2, ?_⟩
            show Ev.res _ :: (c.apply _ _).1.trace = _
            rw [apply_trace]

theorem counter_bound (n : Int) {inner : Beh}
    (hin : ∀ call nth, Clean w lw (inner call nth)) {c0 : SCfg} {p : Prog}
    (hstack : c0.stack = [.prog p]) (hp : Clean w lw p) (hfresh : hw < c0.nextId)
    (hent : ∀ l e, e ∈ c0.lists l → (e.cb = w ∨ e.id = hw) → e.cb = w ∧ e.id = hw ∧ l = lw)
    (hcount : countCalls c0.trace w = 0) (k : Nat) :
    countCalls (SCfg.runN (counterBeh w n inner) k c0).1.trace w ≤ (max n 1).toNat ∧
    (countCalls (SCfg.runN (counterBeh w n inner) k c0).1.trace w = (max n 1).toNat →
      ((SCfg.runN (counterBeh w n inner) k c0).1.lists lw).present hw = false ∨
      AboutToRemove lw hw (SCfg.runN (counterBeh w n inner) k c0).1.stack) := by
  rw [counterBeh_eq]
  have H := winv_runN hin k (winv_init (due := fun _ nth => counterDue n nth) hstack hp hfresh hent hcount)
  have ht := counter_trace n _ H.trace
  exact ⟨ht.1, fun he => H.fired (ht.2.mpr he)⟩

theorem cond_bound (cond : Nat → Bool) {inner : Beh}
    (hin : ∀ call nth, Clean w lw (inner call nth)) {c0 : SCfg} {p : Prog}
    (hstack : c0.stack = [.prog p]) (hp : Clean w lw p) (hfresh : hw < c0.nextId)
    (hent : ∀ l e, e ∈ c0.lists l → (e.cb = w ∨ e.id = hw) → e.cb = w ∧ e.id = hw ∧ l = lw)
    (hcount : countCalls c0.trace w = 0) (k : Nat) :
    (∀ tr1 cl tr2, (SCfg.runN (condBeh w cond inner) k c0).1.trace = tr1 ++ .call cl :: tr2 → cl.cb = w →
      cl.enum = false ∧ cl.list = lw ∧ cl.h = hw ∧
      ∀ cl', Ev.call cl' ∈ tr2 → cl'.cb = w → cond cl'.arg = false) ∧
    ((∃ cl, Ev.call cl ∈ (SCfg.runN (condBeh w cond inner) k c0).1.trace ∧ cl.cb = w ∧ cond cl.arg = true) →
      ((SCfg.runN (condBeh w cond inner) k c0).1.lists lw).present hw = false ∨
      AboutToRemove lw hw (SCfg.runN (condBeh w cond inner) k c0).1.stack) := by
  rw [condBeh_eq]
  have H := winv_runN hin k (winv_init (due := fun call _ => cond call.arg) hstack hp hfresh hent hcount)
  refine ⟨?_, fun he => H.fired ((fired_cond_iff cond _).mpr he)⟩
  intro tr1 cl tr2 e hcb
  have ht := H.trace
  rw [e] at ht
  obtain ⟨h1, h2, h3, h4⟩ := traceOK_split tr1 ht hcb
  refine ⟨h1, h2, h3, ?_⟩
  intro cl' hm hcb'
  cases hc : cond cl'.arg with
  | false => rfl
  | true =>
    have := (fired_cond_iff (w := w) cond tr2).mpr ⟨cl', hm, hcb', hc⟩
    rw [h4] at this; cases this

/-- the bound carries over to the pointer-level Model through the C02 simulation -/
theorem counter_bound_model (n : Int) {inner : Beh}
    (hin : ∀ call nth, Clean w lw (inner call nth)) {c0 : SCfg} {p : Prog}
    (hstack : c0.stack = [.prog p]) (hp : Clean w lw p) (hfresh : hw < c0.nextId)
    (hent : ∀ l e, e ∈ c0.lists l → (e.cb = w ∨ e.id = hw) → e.cb = w ∧ e.id = hw ∧ l = lw)
    (hcount : countCalls c0.trace w = 0) (k : Nat) {m0 : MCfg} (hsim : Sim m0 c0)
    (nowrap : (MCfg.runN (counterBeh w n inner) k m0).1.wraps = m0.wraps) :
    countCalls (MCfg.runN (counterBeh w n inner) k m0).1.trace w ≤ (max n 1).toNat := by
  have := (sim_runN (counterBeh w n inner) k hsim nowrap).1.trace
  rw [this]
  exact (counter_bound n hin hstack hp hfresh hent hcount k).1

/-! ### example programs (non-vacuity examples of Properties/C16.lean) -/

/-- the calls of a trace, oldest first, as (callback id, argument) -/
def calls (tr : List Ev) : List (Cb × Nat) :=
  tr.reverse.filterMap (fun | .call c => some (c.cb, c.arg) | .res _ => none)

/-- every callback just returns -/
def innerPlain : Beh := fun _ _ => .ret true

/-- callback 1 re-invokes list 0 from inside, every other callback just returns -/
def innerNested : Beh := fun call _ =>
  if call.cb = 1 then .op (.invoke 0 0) (fun _ => .ret true) else .ret true

/-- register callbacks 1 and 2 on list 0 (handles 0 and 1), then run `body` -/
def withTwo (body : Prog) : Prog := .op (.append 0 1) fun _ => .op (.append 0 2) fun _ => body

/-- invoke list 0 once for each argument -/
def invokes : List Nat → Prog
  | [] => .ret true
  | a :: r => .op (.invoke 0 a) fun _ => invokes r

theorem invokes_clean (w lw : Nat) : ∀ args, Clean w lw (invokes args)
  | [] => Clean.ret true
  | _ :: r => Clean.op _ _ trivial (fun _ => invokes_clean w lw r)

theorem innerNested_clean (call : Call) (nth : Nat) : Clean 1 0 (innerNested call nth) := by
  unfold innerNested
  split
  · exact Clean.op _ _ trivial (fun _ => Clean.ret true)
  · exact Clean.ret true

/-- list 0 holds `⟨0, 1⟩` (the wrapped listener) and `⟨1, 2⟩`; the program invokes it for `args` -/
def twoCfg (args : List Nat) : SCfg :=
  { lists := upd {} 0 [⟨0, 1⟩, ⟨1, 2⟩], nextId := 2, stack := [.prog (invokes args)] }

theorem twoCfg_ent (args : List Nat) : ∀ l e, e ∈ (twoCfg args).lists l → (e.cb = 1 ∨ e.id = 0) →
    e.cb = 1 ∧ e.id = 0 ∧ l = 0 := by
  intro l e he hor
  simp only [twoCfg, upd_get] at he
  split at he
  · rename_i hl
    simp only [List.mem_cons, List.mem_nil_iff, or_false] at he
    rcases he with rfl | rfl
    · exact ⟨rfl, rfl, hl⟩
    · simp at hor
  · rw [Store.empty_get] at he; cases he

end Evp.Wrap

