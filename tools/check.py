#!/usr/bin/env python3
"""./check <Cxx> [--tier quick|thorough] [--replay <file>]

Decides one property of /verif/properties.jsonl for the current working tree of /repo:

 1. regenerate the Lean fragments that are translated from the source (tie B);
 2. build the Lean library (all models, helper proofs and property theorems) and the driver;
 3. audit: every theorem registered for the property exists and depends on no axiom outside
    {propext, Classical.choice, Quot.sound}; no sorry/admit/native_decide/... in the library;
 4. build the C++ harnesses from /repo/include and run the correspondence suites (tie A);
 5. any broken obligation or disagreement -> search for a concrete failing input with the Spec as
    oracle, shrink it, write the replay, print `VIOLATION property=<id> replay=<path>`.
"""
import argparse
import importlib
import json
import os
import sys
import time

sys.path.insert(0, os.path.dirname(os.path.abspath(__file__)))
import vlib  # noqa: E402
import props  # noqa: E402


def main():
    ap = argparse.ArgumentParser()
    ap.add_argument("prop")
    ap.add_argument("--tier", default=os.environ.get("VERIF_TIER", "quick"))
    ap.add_argument("--replay")
    a = ap.parse_args()
    seed = int(os.environ.get("VERIF_SEED", "1"))
    tier = a.tier if a.tier in ("quick", "thorough") else "quick"
    prop = a.prop.upper()
    if prop not in props.REGISTRY:
        print("unknown property", prop)
        return 2
    t0 = time.time()
    ctx = props.Ctx(prop, tier, seed, replay=a.replay)
    rc = props.run_property(ctx)
    vlib.log("[%s] done in %.1fs rc=%d" % (prop, time.time() - t0, rc))
    return rc


if __name__ == "__main__":
    sys.exit(main())
