#!/usr/bin/env python3
"""tools/harmless_round.py <dir with R*/out/refactor*.diff> — runs every check against each behaviour-preserving refactoring
(apply to /repo, ./check all, revert) and lists the checks that alarm: these are false alarms (or the refactoring is not as
harmless as claimed) and are looked at one by one."""
import glob
import os
import subprocess
import sys

ROOT = os.path.dirname(os.path.dirname(os.path.abspath(__file__)))


def main():
    base = sys.argv[1]
    only = sys.argv[2:] 
    for patch in sorted(glob.glob(os.path.join(base, "R*", "out", "refactor*.diff"))):
        name = patch.split(os.sep)[-3] + "_" + os.path.basename(patch).replace(".diff", "")
        if only and name not in only:
            continue
        if os.path.getsize(patch) == 0:
            print(name, "empty patch", flush=True)
            continue
        p = subprocess.run([sys.executable, os.path.join(ROOT, "tools", "try_seeded.py"), patch], capture_output=True, text=True, timeout=7200)
        lines = [l for l in p.stdout.splitlines() if l.startswith("C") and "rc=" in l and "rc=0" not in l]
        print(name, "ALARMS:" if lines else "quiet", " | ".join(lines), p.stdout[-200:] if p.returncode else "", flush=True)


if __name__ == "__main__":
    main()
