"""level_claimed texts for MANIFEST.json (fallback for registrations that do not carry their own)"""
LEVELS = {
    "C01": ("Lean theorems: the pointer Model of CallbackList refines the list Spec for every history (C01_refines, instance of the C02 simulation); exact call sequence of an invocation / forEachIf "
            "(each entry once, in list order, with the arguments; stop at the first false) on Spec and Model; laws of append / prepend / insert / remove / ownsHandle / empty; bridge: the bodies of doAppend / doInsert / "
            "doFreeNode, the traversal guard and the remove / insert tests are re-read from the source as programs on every run and proved equal to the Model's operations on every well-formed state. "
            "Correspondence: flat and re-entrant generated histories on the real list vs Spec and Model, structural invariant evaluated on raw pointer dumps (wfCheck_sound), ledger.",
            "the hand-written Model outside the regenerated fragments is tied to the code by the correspondence runs only", "5.1"),
    "C02": ("Lean theorem C02_simulation: for every behaviour table (callbacks that add, remove, insert, re-invoke, enumerate to any depth), every step count and every pair of related states the pointer "
            "Model and the list Spec stay in lock-step (same calls with list / handle / callback / argument, same results, same halting) and remain related, as long as no generation counter wraps (wraps: C19); "
            "no null dereference; inert operations on stale handles. Bridge theorems over the regenerated pointer statements (ClFrag). Correspondence: re-entrant programs on the real list and through a dispatcher "
            "with a mutex whose use after destruction or re-lock is reported.",
            "destroying a list from inside its own invocation and foreign handles are outside the property", "5.2"),
    "C04": ("Lean theorems on the dispatcher / queue machine: dispatch of a key calls exactly the entries of that key's list in order with the argument unchanged, other keys untouched (flat closed form and, for arbitrary "
            "re-entrant behaviours, every call is of a handle currently in the dispatched key's list); every listener-management operation is the list operation on that key; evaluation order of the call sites "
            "(C20_order) and the getEvent selection probe of all eight call sites (C04_bridge_getevent_probe) over fragments regenerated from the source. Correspondence: generated histories over int and std::string keys, "
            "both passing forms, user getEvent policy with by-value parameters, hashed and ordered maps, g++ and clang++.",
            "callback lists inside the machine are Spec lists (layering justified by C02)", "5.4"),
    "C05": ("Lean theorems for every reachable configuration of the queue machine and every behaviour: pending ++ in-flight ++ consumed is a permutation of all enqueued events (exactly once), FIFO across frames, kept and queue, "
            "arguments intact, results of process / processOne / processIf / processUntil / peek / take, events enqueued during a processing call stay queued. Correspondence: generated queue histories incl. nested processing, "
            "put-back, slot recycling, on several threading / key / passing / policy variants.", "", "5.5"),
    "C06": ("Lean theorems on the concurrent micro-step model of EventQueue (any number of threads, every schedule; process, processOne, processIf, processUntil, takeEvent, peekEvent, clearEvents): conservation "
            "(no event lost or duplicated), drained queue = all consumed, per-thread order for single-producer / single-consumer programs (with processUntil: single consumer), mutual exclusion, progress (no call blocks for ever). "
            "Correspondence: baton-scheduled runs of the real queue - both enqueue overloads and HeterEventQueue - replayed step by step on the model; conservation and order oracles on the implementation.",
            "sequential consistency assumed; std::mutex / std::condition_variable replaced by their specifications; freeList not in the concurrent model (sequential machine)", "5.6"),
    "C07": ("Lean theorem C07_no_lost_wakeup: for well-formed programs (every wait followed by a processing call, DisableQueueNotify balanced) no reachable terminal state has all remaining threads parked while an event is pending "
            "and notification is enabled - including processIf / processUntil put-back; wait returns only with notification enabled; waitFor false only after a time-out with nothing available; model counter-examples for the two repaired defects; "
            "the counter is the number of live DisableQueueNotify objects after any history of constructions, copies and destructions (C07_dqn_counts_live; counter-example for the shared copy the class had); "
            "bridge over the regenerated destructor / special members / read-order fragment. Correspondence: baton-scheduled runs with scheduler-chosen spurious wake-ups and time-outs, copies of and assignments to DisableQueueNotify objects, "
            "replayed on the model; terminal-state oracle that counts live objects from the calls made.",
            "condition variable replaced by its specification (wake-ups may be spurious, notify_one wakes one parked waiter chosen by the scheduler)", "5.7"),
    "C10": ("Lean theorems: copy / move / swap / assignment of callback lists (independent node sets, order preserved, handles of the source stay with the source, moved-from is empty and usable) on the pointer Model; queue copies "
            "take listeners and filters, not pending events; every scalar member of every constructor is initialised and with the literal 0 (tables regenerated from the source). Correspondence: copy / move / swap histories; queue "
            "copies constructed by placement new over pre-filled storage with live DisableQueueNotify objects on the source.", "", "5.10"),
    "C11": ("Lean theorems on the concurrent model: an emptyQueue() that returns true implies every event enqueued before the call began has been consumed (programs without processIf / processUntil, as the property says), "
            "emptyQueue is false while a dispatch of a taken event is in progress, listeners see the queue non-empty; bridge: the read order of emptyQueue() and doCanProcess() regenerated from the source; sequential counterpart on the queue machine. "
            "Correspondence: the claim is evaluated along the implementation's own step order by the model driver, and once more on the implementation's trace alone (call begin / end marks).", "sequential consistency assumed", "5.11"),
    "C12": ("Lean theorems on the dispatcher / queue machine: a dispatch is the pure function dispatchCalls (filters in order on lvalue arguments, rewrites seen by later filters and all listeners, first false stops that dispatch only), "
            "identical for direct and queued dispatch; removed filters never run; canContinueInvoking is part of the machine (consulted after every listener on the current arguments; a stopped queued dispatch still consumes its event) and of the "
            "pointer Model of the list (operator() = forEachIf with the policy's verdict); conditionalFunctor / argumentAdapter as small algebraic models. Correspondence: variants with the policy (by-value parameters), two mixins, wrapped listeners.",
            "MixinHeterFilter (filters of the heterogeneous dispatcher) is not modelled", "5.12"),
    "C13": ("Lean theorems: with OrderedQueueList the queue is sorted by the comparator after every operation (stable: equal keys keep enqueue order), dispatch order is the sorted order, events put back by processIf / processUntil "
            "are merged in position, the multiset of events is preserved. Correspondence: ascending and descending comparators, many duplicate keys, put-back and enqueue during processing.", "", "5.13"),
    "C15": ("Lean theorems on the remover model: responsibility invariant (every listener added through a remover is recorded by exactly one live remover until removed), nothing attached through removers once all are gone, "
            "move construction / move assignment / swap pass responsibility, listeners not added through the remover are never touched, remove through the remover detaches at once and reports whether it was attached. "
            "Correspondence: generated remover histories incl. listeners detached directly while their node is held, removal through an equivalent key of a custom Map policy and for another event; "
            "the property's clauses are also evaluated on the implementation's output (responsibility tracked through moves and swaps).",
            "sequential histories (the property's quantifier); concurrent use of one remover is not modelled", "5.15"),
    "C16": ("Lean theorems over the wrapper bodies regenerated from the source: a CounterRemover listener with count n is removed exactly when its k-th trigger has k = max(n,1) (all n incl. INT_MIN, all k, no overflow), "
            "is never called after removal; ConditionalRemover removes exactly at the first trigger whose condition holds; nested triggers. Correspondence: generated histories with both wrappers under UBSan.", "", "5.16"),
    "C19": ("Lean theorems with no wrap hypothesis: the Model invariant holds along every run incl. generation-counter wraps (C19_inv); after any history, with no traversal running, the simulation of C02 applies again; for traversals in "
            "progress at a wrap every snapshot survivor is still called exactly once, in order, and the only extra calls are callbacks added during the invocation (C19_during_once, C19_trace_once stated on the trace); the wrap branch of "
            "getNextCounter is regenerated from the source and proved equal to the Model's. Correspondence: setcounter (next to the wrap, and half way round the circle) placed anywhere in re-entrant programs.",
            "counter wrap is outside the concurrent model", "5.19"),
}
