#!/usr/bin/env python3
"""Regenerates /verif/MANIFEST.json from the registry in tools/props.py (run after changing registrations)."""
import json
import os
import sys

sys.path.insert(0, os.path.dirname(os.path.abspath(__file__)))
import props  # noqa: E402
import vlib  # noqa: E402
import levels  # noqa: E402

ALL = ["C%02d" % i for i in range(1, 21)]


def main():
    checks = []
    for pid in ALL:
        spec = props.REGISTRY.get(pid)
        if not spec or not spec.get("claimed", True):
            continue
        checks.append({
            "property_id": pid,
            "quick_cmd": "./check %s --tier quick" % pid,
            "thorough_cmd": "./check %s --tier thorough" % pid,
            "evidence_file": "/verif/evidence/%s.json" % pid,
            "replay_cmd_template": "./check %s --replay {path}" % pid,
            "engine": "lean-proof+correspondence",
            "level_claimed": {
                "category": "proof",
                "text": spec.get("level_text") or levels.LEVELS.get(pid, ("", "", ""))[0],
                "design_ref": spec.get("design_ref") or levels.LEVELS.get(pid, ("", "", ""))[2],
            },
            "level_note": spec.get("level_note") or levels.LEVELS.get(pid, ("", "", ""))[1],
            "technique": spec.get("technique", "Lean 4 theorems about an executable model + differential correspondence check of the model against /repo"),
        })
    na = []
    for pid in ALL:
        spec = props.REGISTRY.get(pid)
        if not spec or not spec.get("claimed", True):
            na.append({"property_id": pid, "reason": (spec or {}).get("na_reason", "check not built yet in this revision of /verif (work in progress; see DESIGN.md section 8)")})
    hooks_commits = []
    hp = os.path.join(vlib.ROOT, "hooks_commits.txt")
    if os.path.exists(hp):
        hooks_commits = [l.strip() for l in open(hp) if l.strip()]
    m = {
        "version": 1,
        "setup_cmd": "cd /verif/lean && lake build EventppVerif driver",
        "hooks": {
            "guard": "EVENTPP_VERIF",
            "enable": "checks compile their harnesses from /repo/include with -DEVENTPP_VERIF (tools/vlib.py build_harness)",
            "baseline_off_cmd": "cmake --install /repo/_build --prefix /repo/_prefix && cmake --build /repo/_build_tests -j16 && ctest --test-dir /repo/_build_tests -j8 --timeout 900",
            "source_commits": hooks_commits,
            "add_only": True,
        },
        "engines": [
            {"name": "lean-proof+correspondence", "path": "/verif/lean, /verif/tools, /verif/harness",
             "serves_properties": [c["property_id"] for c in checks],
             "kind_free_text": "Lean 4 model + theorems (lake build, #print axioms audit), C++ harnesses built from /repo on every run, compiled Lean driver executing the same scripts, regenerated source fragments"}
        ],
        "checks": checks,
        "notes": "See DESIGN.md. Every check rebuilds its harnesses from /repo's working tree; Lean build is incremental after setup_cmd.",
        "not_applicable": na,
    }
    with open(os.path.join(vlib.ROOT, "MANIFEST.json"), "w") as f:
        json.dump(m, f, indent=1)
    print("checks:", [c["property_id"] for c in checks], "not_applicable:", [n["property_id"] for n in na])


if __name__ == "__main__":
    main()
