#!/usr/bin/env python3
"""Confirm and try the seeded changes delivered under /tmp/mut/Cxx/out: for each patch
 (1) in a scratch worktree of /repo: the patch applies, the unit-test suite still passes, the demonstration
     passes on the pristine tree and fails on the changed tree;
 (2) apply it to /repo, run the checks, undo it.
Keeps confirmed changes as /verif/seeded/<name>/{patch.diff,demo.cpp,meta.json}."""
import json
import os
import shutil
import subprocess
import sys
import time

ROOT = os.path.dirname(os.path.dirname(os.path.abspath(__file__)))
SCR = "/tmp/mutv"


def sh(cmd, **kw):
    p = subprocess.run(cmd, shell=isinstance(cmd, str), capture_output=True, text=True, **kw)
    return p.returncode, p.stdout + p.stderr


def confirm(name, patch, demo):
    wt = os.path.join(SCR, name)
    sh("git -C /repo worktree remove --force %s" % wt)
    rc, o = sh("git -C /repo worktree add -f %s HEAD" % wt)
    res = {"applies": False, "unit_tests_pass": False, "demo_pristine": None, "demo_changed": None}
    try:
        rc, o = sh("g++ -std=c++17 -O1 -I%s/include %s -o %s/demo_pristine -pthread" % (wt, demo, wt), timeout=600)
        if rc == 0:
            rc2, o2 = sh("%s/demo_pristine" % wt, timeout=300)
            res["demo_pristine"] = "PASS" if rc2 == 0 else "FAIL rc=%d %s" % (rc2, o2[-200:])
        else:
            res["demo_pristine"] = "BUILD-FAILED " + o[-300:]
        rc, o = sh("git -C %s apply %s" % (wt, patch))
        res["applies"] = rc == 0
        if rc != 0:
            res["apply_error"] = o[-300:]
            return res
        rc, o = sh("/tmp/mut/run_tests.sh %s" % wt, timeout=1800)
        res["unit_tests_pass"] = "All tests passed" in o
        res["unit_tests_tail"] = o[-200:]
        rc, o = sh("g++ -std=c++17 -O1 -I%s/include %s -o %s/demo_changed -pthread" % (wt, demo, wt), timeout=600)
        if rc == 0:
            try:
                rc2, o2 = sh("%s/demo_changed" % wt, timeout=300)
            except subprocess.TimeoutExpired:
                rc2, o2 = 124, "timeout"
            res["demo_changed"] = "PASS" if rc2 == 0 else "FAIL rc=%d %s" % (rc2, o2[-300:])
        else:
            res["demo_changed"] = "BUILD-FAILED " + o[-300:]
        return res
    finally:
        sh("git -C /repo worktree remove --force %s" % wt)
        shutil.rmtree(wt, ignore_errors=True)


def main():
    os.makedirs(SCR, exist_ok=True)
    only = sys.argv[1:]
    items = []
    for d in sorted(os.listdir("/tmp/mut")):
        out = os.path.join("/tmp/mut", d, "out")
        if not os.path.isdir(out):
            continue
        for suffix in ("", "2"):
            p = os.path.join(out, "patch%s.diff" % suffix)
            dm = os.path.join(out, "demo%s.cpp" % suffix)
            mt = os.path.join(out, "meta%s.txt" % suffix)
            if os.path.exists(p) and os.path.exists(dm) and os.path.getsize(p) > 0:
                items.append((d + ("b" if suffix else "a"), d, p, dm, mt))
    for name, prop, patch, demo, meta in items:
        if only and name not in only and prop not in only:
            continue
        dest = os.path.join(ROOT, "seeded", name)
        if os.path.exists(os.path.join(dest, "meta.json")) and not only:
            continue
        t0 = time.time()
        conf = confirm(name, patch, demo)
        ok = conf["applies"] and conf["unit_tests_pass"] and conf["demo_pristine"] == "PASS" and (conf["demo_changed"] or "").startswith("FAIL")
        result = {"name": name, "breaks_property": prop, "confirmed": ok, "confirmation": conf}
        if ok:
            rc, o = sh([os.path.join(ROOT, "tools", "try_seeded.py"), patch], timeout=7200)
            result["checks_output"] = [l for l in o.splitlines() if l.startswith("C") and "rc=" in l]
            caught = [l for l in o.splitlines() if l.startswith("CAUGHT-BY")]
            result["caught_by"] = caught[0].split(":", 1)[1].strip() if caught else "?"
        os.makedirs(dest, exist_ok=True)
        shutil.copy(patch, os.path.join(dest, "patch.diff"))
        shutil.copy(demo, os.path.join(dest, "demo.cpp"))
        result["what_it_needs"] = open(meta).read()[:3000] if os.path.exists(meta) else ""
        result["ran"] = ["git worktree add; git apply patch.diff; /tmp/mut/run_tests.sh (unit tests)", "g++ demo.cpp on pristine / changed tree",
                         "tools/try_seeded.py patch.diff (git -C /repo apply; ./check C01..C20; git -C /repo checkout -- .)"]
        json.dump(result, open(os.path.join(dest, "meta.json"), "w"), indent=1)
        print("%s confirmed=%s caught_by=%s (%.0fs)" % (name, ok, result.get("caught_by"), time.time() - t0), flush=True)
        if not ok:
            print("   ", json.dumps(conf)[:400], flush=True)


if __name__ == "__main__":
    main()
