#!/usr/bin/env python3
"""Confirm and try the seeded changes delivered under /tmp/mut/Cxx/out: for each patch
 (1) in a scratch worktree of /repo: the patch applies, the unit-test suite still passes, the demonstration
     passes on the pristine tree and fails on the changed tree;
 (2) apply it to /repo, run the checks, undo it.
Keeps confirmed changes as /verif/seeded/<name>/{patch.diff,demo.cpp,meta.json}."""
import json
import os
import shutil
import subprocess
import sys
import time

ROOT = os.path.dirname(os.path.dirname(os.path.abspath(__file__)))
SCR = "/tmp/mutv"


def sh(cmd, **kw):
    p = subprocess.run(cmd, shell=isinstance(cmd, str), capture_output=True, text=True, **kw)
    return p.returncode, p.stdout + p.stderr


def confirm(name, patch, demo):
    wt = os.path.join(SCR, name)
    sh("git -C /repo worktree remove --force %s" % wt)
    rc, o = sh("git -C /repo worktree add -f %s HEAD" % wt)
    res = {"applies": False, "unit_tests_pass": False, "demo_pristine": None, "demo_changed": None}
    try:
        rc, o = sh("g++ -std=c++17 -O1 -I%s/include %s -o %s/demo_pristine -pthread" % (wt, demo, wt), timeout=600)
        if rc == 0:
            rc2, o2 = sh("%s/demo_pristine" % wt, timeout=300)
            res["demo_pristine"] = "PASS" if rc2 == 0 else "FAIL rc=%d %s" % (rc2, o2[-200:])
        else:
            res["demo_pristine"] = "BUILD-FAILED " + o[-300:]
        rc, o = sh("git -C %s apply %s" % (wt, patch))
        res["applies"] = rc == 0
        if rc != 0:
            res["apply_error"] = o[-300:]
            return res
        rc, o = sh("%s/run_tests.sh %s" % (MUT_DIR, wt), timeout=1800)
        res["unit_tests_pass"] = "All tests passed" in o
        res["unit_tests_tail"] = o[-200:]
        rc, o = sh("g++ -std=c++17 -O1 -I%s/include %s -o %s/demo_changed -pthread" % (wt, demo, wt), timeout=600)
        if rc == 0:
            try:
                rc2, o2 = sh("%s/demo_changed" % wt, timeout=300)
            except subprocess.TimeoutExpired:
                rc2, o2 = 124, "timeout"
            res["demo_changed"] = "PASS" if rc2 == 0 else "FAIL rc=%d %s" % (rc2, o2[-300:])
        else:
            res["demo_changed"] = "BUILD-FAILED " + o[-300:]
        return res
    finally:
        sh("git -C /repo worktree remove --force %s" % wt)
        shutil.rmtree(wt, ignore_errors=True)


RELATED = {
    "C01": "C01,C02,C03,C08,C19", "C02": "C02,C01,C03,C08,C16", "C03": "C03,C02,C01,C08", "C04": "C04,C20,C12,C05",
    "C05": "C05,C13,C12,C11,C08", "C06": "C06,C05,C07,C11,C13", "C07": "C07,C06,C11", "C08": "C08,C09,C10,C05,C01",
    "C09": "C09,C08,C10", "C10": "C10,C08,C20,C01,C09", "C11": "C11,C06,C07,C05", "C12": "C12,C04,C05", "C13": "C13,C05",
    "C14": "C14", "C15": "C15", "C16": "C16,C02", "C17": "C17,C08", "C18": "C18,C04", "C19": "C19,C02,C01", "C20": "C20,C04,C05,C10",
}


MUT_DIR = os.environ.get("MUT_DIR", "/tmp/mut4")
LETTERS = os.environ.get("MUT_LETTERS", "ab")


def collect():
    items = []
    for d in sorted(os.listdir(MUT_DIR)):
        out = os.path.join(MUT_DIR, d, "out")
        if not os.path.isdir(out):
            continue
        for si, suffix in enumerate(("", "2", "3")):
            p = os.path.join(out, "patch%s.diff" % suffix)
            dm = os.path.join(out, "demo%s.cpp" % suffix)
            mt = os.path.join(out, "meta%s.txt" % suffix)
            if os.path.exists(p) and os.path.exists(dm) and os.path.getsize(p) > 0:
                if si < len(LETTERS):
                    items.append((d + LETTERS[si], d, p, dm, mt))
    return items


def stage1():
    """confirm every delivered change (scratch worktrees only; /repo is not touched)"""
    from concurrent.futures import ThreadPoolExecutor
    os.makedirs(SCR, exist_ok=True)

    def one(it):
        name, prop, patch, demo, meta = it
        dest = os.path.join(ROOT, "seeded", name)
        os.makedirs(dest, exist_ok=True)
        cj = os.path.join(dest, "confirm.json")
        if os.path.exists(cj):
            return name, json.load(open(cj))
        conf = confirm(name, patch, demo)
        shutil.copy(patch, os.path.join(dest, "patch.diff"))
        shutil.copy(demo, os.path.join(dest, "demo.cpp"))
        json.dump(conf, open(cj, "w"), indent=1)
        print("confirm", name, conf["applies"], conf["unit_tests_pass"], conf["demo_pristine"], (conf["demo_changed"] or "")[:40], flush=True)
        return name, conf
    with ThreadPoolExecutor(max_workers=3) as ex:
        list(ex.map(one, collect()))


def stage2(only):
    for name, prop, patch, demo, meta in collect():
        if only and name not in only and prop not in only:
            continue
        dest = os.path.join(ROOT, "seeded", name)
        cj = os.path.join(dest, "confirm.json")
        if not os.path.exists(cj):
            continue
        conf = json.load(open(cj))
        ok = conf["applies"] and conf["unit_tests_pass"] and conf["demo_pristine"] == "PASS" and (conf["demo_changed"] or "").startswith("FAIL")
        result = {"name": name, "breaks_property": prop, "confirmed": ok, "confirmation": conf}
        t0 = time.time()
        if ok:
            rc, o = sh([os.path.join(ROOT, "tools", "try_seeded.py"), patch, RELATED[prop]], timeout=7200)
            result["checks_output"] = [l for l in o.splitlines() if l.startswith("C") and "rc=" in l]
            caught = [l for l in o.splitlines() if l.startswith("CAUGHT-BY")]
            result["caught_by"] = caught[0].split(":", 1)[1].strip() if caught else "?"
        result["what_it_needs"] = open(meta).read()[:3000] if os.path.exists(meta) else ""
        result["ran"] = ["scratch worktree: git apply patch.diff; unit-test suite built and run; demo.cpp built and run on the pristine and on the changed tree",
                         "tools/try_seeded.py patch.diff %s (git -C /repo apply; ./check ...; git -C /repo checkout -- .)" % RELATED[prop]]
        json.dump(result, open(os.path.join(dest, "meta.json"), "w"), indent=1)
        print("%s confirmed=%s caught_by=%s (%.0fs)" % (name, ok, result.get("caught_by"), time.time() - t0), flush=True)


def retry(names, checks=None):
    """re-run the checks against seeded/<name>/patch.diff and refresh its meta.json"""
    for name in names:
        dest = os.path.join(ROOT, "seeded", name)
        mp = os.path.join(dest, "meta.json")
        meta = json.load(open(mp))
        prop = meta["breaks_property"]
        which = checks or RELATED[prop]
        rc, o = sh([os.path.join(ROOT, "tools", "try_seeded.py"), os.path.join(dest, "patch.diff"), which], timeout=7200)
        lines = [l for l in o.splitlines() if l.startswith("C") and "rc=" in l]
        old = {l.split()[0]: l for l in meta.get("checks_output", [])}
        for l in lines:
            old[l.split()[0]] = l
        meta["checks_output"] = [old[k] for k in sorted(old)]
        meta["caught_by"] = ",".join(k for k in sorted(old) if "rc=0" not in old[k])
        meta.setdefault("retries", []).append("re-run after strengthening: " + which)
        json.dump(meta, open(mp, "w"), indent=1)
        print(name, "caught_by", meta["caught_by"], flush=True)


def main():
    if sys.argv[1:2] == ["retry"]:
        return retry(sys.argv[2].split(","), sys.argv[3] if len(sys.argv) > 3 else None)
    if sys.argv[1:2] == ["stage1"]:
        return stage1()
    if sys.argv[1:2] == ["stage2"]:
        return stage2(sys.argv[2:])
    os.makedirs(SCR, exist_ok=True)
    only = sys.argv[1:]
    items = []
    for d in sorted(os.listdir("/tmp/mut")):
        out = os.path.join("/tmp/mut", d, "out")
        if not os.path.isdir(out):
            continue
        for si, suffix in enumerate(("", "2", "3")):
            p = os.path.join(out, "patch%s.diff" % suffix)
            dm = os.path.join(out, "demo%s.cpp" % suffix)
            mt = os.path.join(out, "meta%s.txt" % suffix)
            if os.path.exists(p) and os.path.exists(dm) and os.path.getsize(p) > 0:
                if si < len(LETTERS):
                    items.append((d + LETTERS[si], d, p, dm, mt))
    for name, prop, patch, demo, meta in items:
        if only and name not in only and prop not in only:
            continue
        dest = os.path.join(ROOT, "seeded", name)
        if os.path.exists(os.path.join(dest, "meta.json")) and not only:
            continue
        t0 = time.time()
        conf = confirm(name, patch, demo)
        ok = conf["applies"] and conf["unit_tests_pass"] and conf["demo_pristine"] == "PASS" and (conf["demo_changed"] or "").startswith("FAIL")
        result = {"name": name, "breaks_property": prop, "confirmed": ok, "confirmation": conf}
        if ok:
            rc, o = sh([os.path.join(ROOT, "tools", "try_seeded.py"), patch], timeout=7200)
            result["checks_output"] = [l for l in o.splitlines() if l.startswith("C") and "rc=" in l]
            caught = [l for l in o.splitlines() if l.startswith("CAUGHT-BY")]
            result["caught_by"] = caught[0].split(":", 1)[1].strip() if caught else "?"
        os.makedirs(dest, exist_ok=True)
        shutil.copy(patch, os.path.join(dest, "patch.diff"))
        shutil.copy(demo, os.path.join(dest, "demo.cpp"))
        result["what_it_needs"] = open(meta).read()[:3000] if os.path.exists(meta) else ""
        result["ran"] = ["git worktree add; git apply patch.diff; run_tests.sh (unit tests)", "g++ demo.cpp on pristine / changed tree",
                         "tools/try_seeded.py patch.diff (git -C /repo apply; ./check C01..C20; git -C /repo checkout -- .)"]
        json.dump(result, open(os.path.join(dest, "meta.json"), "w"), indent=1)
        print("%s confirmed=%s caught_by=%s (%.0fs)" % (name, ok, result.get("caught_by"), time.time() - t0), flush=True)
        if not ok:
            print("   ", json.dumps(conf)[:400], flush=True)


if __name__ == "__main__":
    main()
