"""Property registry and the common check flow (see check.py)."""
import json
import os
import random
import time
import traceback
from collections import Counter

import vlib

TRUSTED_BASE_COMMON = [
    "Lean 4.33.0 kernel; axioms allowed in property theorems: propext, Classical.choice, Quot.sound (audited per theorem on every run)",
    "no sorry/admit/native_decide/bv_decide/implemented_by/unsafe/own axioms in lean/EventppVerif (grep on every run)",
    "the hand-written Lean Model is tied to /repo by the correspondence run of this check (same scripts on the real library, the Model and the Spec) and by the regenerated fragments; its fidelity outside what those exercise is trusted",
    "tools/*.py (generators, comparison, shrinker), harness/*.cpp (script interpreter, -fno-access-control state dumps), lean/Driver/Main.lean (script parser)",
    "C++ library semantics: shared_ptr/weak_ptr, std::function, std::list, std::map, g++ 12.2 / libstdc++ 12; sanitizers report all UB that occurs",
]


class Ctx:
    def __init__(self, prop, tier, seed, replay=None):
        self.prop = prop
        self.tier = tier
        self.seed = seed
        self.replay = replay
        self.t0 = time.time()
        self.obligations = []      # (name, discharged: bool, detail)
        self.failures = []         # dict(kind, reason, script, suite, replay_body)
        self.known_hits = []       # KNOWN-FINDING lines
        self.cov = Counter()
        self.dist = Counter()
        self.samples = []
        self.nontrivial_keys = set()
        self.notes = []
        self.assumptions = []
        self.rule = ""

    def quick(self):
        return self.tier == "quick"

    def oblige(self, name, ok, detail=""):
        self.obligations.append((name, bool(ok), detail))
        if not ok:
            vlib.log("[%s] obligation FAILED: %s %s" % (self.prop, name, detail[:2000]))

    def fail(self, kind, reason, script="", suite="", extra=""):
        self.failures.append(dict(kind=kind, reason=reason, script=script, suite=suite, extra=extra))


REGISTRY = {}


def thms_from(*modules):
    """names of the property theorems (`theorem Cxx_…`) stated in the given property modules, with
    their namespace, so that the audit list cannot drift from the files"""
    import re
    names = []
    for mod in modules:
        path = os.path.join(vlib.LEAN, *mod.split(".")) + ".lean"
        if not os.path.exists(path):
            continue
        src = vlib.strip_lean_comments(open(path).read())
        ns = []
        for line in src.splitlines():
            m = re.match(r"\s*namespace\s+(\S+)", line)
            if m:
                ns.append(m.group(1))
                continue
            m = re.match(r"\s*end\s+(\S+)", line)
            if m and ns and ns[-1].split(".")[-1] == m.group(1).split(".")[-1]:
                ns.pop()
                continue
            m = re.match(r"\s*theorem\s+((?:[A-Za-z_][\w]*\.)*C\d\d_[\w']+)", line)
            if m and len(ns) <= 1:
                names.append(".".join(ns + [m.group(1)]))
    return names


def register(prop, **kw):
    REGISTRY[prop] = kw


# ---------------------------------------------------------------------------------------------

def lean_phase(ctx, spec):
    """build + audit. records obligations. returns True if all discharged."""
    import translate
    # every fragment is regenerated on every run (the driver and other modules import them), the
    # property's own fragments are the ones whose failure is an obligation of this check
    translate.regenerate([f for f in translate.FRAGMENTS if f not in spec.get("fragments", ())])
    frag_ok, frag_log = translate.regenerate(spec.get("fragments", ()))
    ctx.oblige("fragments regenerated from /repo (%s)" % ",".join(spec.get("fragments", ())) if spec.get("fragments") else "no regenerated fragment needed",
               frag_ok, frag_log)
    mods = list(spec.get("lean_modules", ()))
    ok, blog = vlib.lean_build(tuple(mods) + ("driver",))
    ctx.oblige("lake build " + " ".join(mods + ["driver"]), ok, blog[-3000:])
    hits = vlib.lean_forbidden_scan()
    ctx.oblige("no sorry/admit/axiom/native_decide/bv_decide/implemented_by/unsafe/maxHeartbeats 0 in library", not hits, str(hits))
    thms = list(spec.get("theorems", ()))
    if spec.get("auto_theorems", True):
        for t in thms_from(*mods):
            if t not in thms:
                thms.append(t)
    all_ok = ok and not hits and frag_ok
    if ok and thms:
        axs, alog = vlib.lean_axioms(thms, mods)
        for t in thms:
            a = axs.get(t)
            good = a is not None and set(a) <= vlib.ALLOWED_AXIOMS
            ctx.oblige("theorem %s (axioms: %s)" % (t, "missing" if a is None else ",".join(a) or "none"), good,
                       "" if good else alog[-1500:])
            all_ok = all_ok and good
    elif thms:
        for t in thms:
            ctx.oblige("theorem %s" % t, False, "library did not build")
    if ctx.tier == "thorough" and ok:
        for m in mods:
            rc, o, e = vlib.sh(["lake", "env", "leanchecker", m], cwd=vlib.LEAN, timeout=1800)
            ctx.oblige("leanchecker " + m, rc == 0, (o + e)[-1500:])
            all_ok = all_ok and rc == 0
    return all_ok


def finish(ctx, spec):
    """report: known findings, violations, evidence. returns exit code"""
    prop = ctx.prop
    known = vlib.load_known()
    new_fail = []
    for f in ctx.failures:
        matched = None
        for k in known.get("findings", []):
            if k["property"] == prop and k.get("classifier") and k["classifier"] == f.get("classifier"):
                matched = k
        if matched:
            line = "KNOWN-FINDING: property=%s %s" % (prop, matched["what"])
            if line not in ctx.known_hits:
                ctx.known_hits.append(line)
        else:
            new_fail.append(f)
    for l in ctx.known_hits:
        print(l)
    n_obl = len(ctx.obligations)
    n_dis = sum(1 for o in ctx.obligations if o[1])
    broken = [o for o in ctx.obligations if not o[1]]
    rc = 0
    if new_fail or broken:
        rc = 1
        # prefer a failure with a concrete input
        concrete = [f for f in new_fail if f["kind"] == "violation" and f["script"]]
        body = []
        body.append("# property %s  tier=%s seed=%d" % (prop, ctx.tier, ctx.seed))
        if broken:
            body.append("# broken obligations (theorem / bridge / correspondence that no longer checks):")
            for o in broken:
                body.append("#   " + o[0])
                for dl in o[2].splitlines()[-25:]:
                    body.append("#     | " + dl)
        if concrete:
            f = concrete[0]
            body.append("# failing input found by suite %s: %s" % (f["suite"], f["reason"]))
            body.append("# replay: tools/check.py %s --replay <this file>" % prop)
            body.append(f["script"].rstrip())
            if f["extra"]:
                body.append("# ---- expected (Spec) vs observed (implementation) ----")
                for l in f["extra"].splitlines():
                    body.append("# " + l)
            path = vlib.write_replay(prop, ctx.seed, "input", "\n".join(body) + "\n")
            print("VIOLATION property=%s replay=%s" % (prop, path))
        else:
            for f in new_fail:
                body.append("# correspondence failure (%s, suite %s): %s" % (f["kind"], f["suite"], f["reason"]))
                if f["script"]:
                    body.append(f["script"].rstrip())
            path = vlib.write_replay(prop, ctx.seed, "obligation", "\n".join(body) + "\n")
            print("VIOLATION property=%s replay=%s no-failing-input-found" % (prop, path))
    cov = {
        "obligations": n_obl,
        "discharged": n_dis,
        "checker_cmd": "cd /verif/lean && lake build %s && lake env lean <audit file with #print axioms> (tools/props.py lean_phase); thorough adds lake env leanchecker" % " ".join(spec.get("lean_modules", ())),
        "trusted_base": TRUSTED_BASE_COMMON + list(spec.get("trusted", ())),
        "obligation_list": [{"name": o[0], "discharged": o[1]} for o in ctx.obligations],
        "evaluations": int(ctx.cov.get("evaluations", 0)),
        "distinct_nontrivial": len(ctx.nontrivial_keys),
        "rule": ctx.rule,
        "samples": ctx.samples[:4] if ctx.samples else ["(no correspondence case was run)"],
        "traces_validated_against_impl": int(ctx.cov.get("traces_validated", 0)),
        "input_distribution": dict(ctx.dist),
        "counts": {k: int(v) for k, v in ctx.cov.items()},
        "known_findings_hit": ctx.known_hits,
        "notes": ctx.notes,
    }
    vlib.write_evidence(prop, ctx.tier, ctx.seed, cov, time.time() - ctx.t0, len(new_fail) + len(broken),
                        list(spec.get("assumptions", ())) + ctx.assumptions)
    return rc


def run_property(ctx):
    spec = REGISTRY[ctx.prop]
    try:
        lean_ok = lean_phase(ctx, spec)
        ctx.lean_ok = lean_ok
        for suite in spec.get("suites", ()):
            suite(ctx, search=not lean_ok)
    except Exception:
        ctx.oblige("check machinery ran to completion", False, traceback.format_exc())
    return finish(ctx, spec)


# registrations live in their own modules
import reg_cl  # noqa: E402,F401
import reg_q  # noqa: E402,F401
import reg_util  # noqa: E402,F401
import reg_conc  # noqa: E402,F401
import reg_c20  # noqa: E402,F401
import reg_c09  # noqa: E402,F401
