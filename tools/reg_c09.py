"""C09: fault enumeration harness (harness/fault.cpp) checked against the property's own clauses."""
import os
import re

import vlib
from props import register

BASIC_LIST_PARTS = ("L", "O", "Q1", "HL")


def split_state(s):
    parts = {}
    for seg in s.split(" | "):
        seg = seg.strip()
        m = re.match(r"(L|O|pending|hpending|apending):(.*)", seg)
        if m:
            parts[m.group(1)] = m.group(2).split()
        elif seg.startswith("Q1:"):
            parts["Q"] = seg
        elif seg.startswith("ec="):
            kv = dict(x.split("=") for x in seg.split() if "=" in x)
            parts["ec"], parts["nc"], parts["emptyQueue"] = int(kv["ec"]), int(kv["nc"]), kv["emptyQueue"]
            parts["freebad"] = "FREE-SLOT-OCCUPIED" in seg
        elif seg.startswith("HQ:"):
            parts["HQ"] = seg
        elif seg.startswith("hec="):
            kv = dict(x.split("=") for x in seg.split() if "=" in x)
            parts["hec"], parts["hempty"] = int(kv["hec"]), kv["hempty"]
            parts["hfreebad"] = "HFREE-SLOT-OCCUPIED" in seg
        elif seg.startswith("aec="):
            kv = dict(x.split("=") for x in seg.split() if "=" in x)
            parts["aec"], parts["aempty"] = int(kv["aec"]), kv["aempty"]
            parts["afreebad"] = "AFREE-SLOT-OCCUPIED" in seg
        elif seg.startswith("HL="):
            parts["HL"] = seg
        elif seg.startswith("remItems="):
            parts["rem"] = seg
    return parts


def check_section(header, lines):
    """returns list of (what, detail) violations for one (state, operation) section"""
    seed, op, strength = header.split()[0], header.split()[1], header.split()[2]
    before = follow_before = None
    out = []
    cur = None
    for l in lines:
        if l.startswith("before "):
            before = l[7:]
        elif l.startswith("follow-before "):
            follow_before = l[14:]
        elif l.startswith("inject "):
            cur = {"inject": l[7:]}
        elif cur is not None and l.startswith("after "):
            cur["after"] = l[6:]
        elif cur is not None and l.startswith("ledger-delta "):
            t = l.split()
            cur["dcb"], cur["dp"], cur["bad"] = int(t[1]), int(t[2]), int(t[4])
        elif cur is not None and l.startswith("follow-after "):
            cur["follow"] = l[13:]
            out.append(cur)
            cur = None
    viol = []
    B = split_state(before or "")
    for c in out:
        inj = c["inject"]
        point, seen = inj.split(" : ")
        A = split_state(c["after"])
        tag = "state %s, %s, fault %s" % (seed, op, point)
        if c["bad"]:
            viol.append((tag, "an object was destroyed twice or used after destruction"))
        if "FOLLOWUP-THREW" in c["follow"]:
            viol.append((tag, "the object is no longer usable after the fault: " + c["follow"]))
        if seen == "completed":
            viol.append((tag, "the injected exception did not reach the caller"))
            continue
        if strength == "strong":
            if c["after"] != before:
                viol.append((tag, "operation threw but left the object changed: before {%s} after {%s}" % (before, c["after"])))
            elif c["dcb"] != 0 or c["dp"] != 0:
                viol.append((tag, "operation threw and leaked / over-released objects (callbacks %+d, payloads %+d)" % (c["dcb"], c["dp"])))
            elif c["follow"] != follow_before:
                viol.append((tag, "follow-up behaves differently after the fault: %s vs %s" % (c["follow"], follow_before)))
        else:
            for k in ("L", "O", "Q", "HL", "HQ", "rem"):
                if A.get(k) != B.get(k):
                    viol.append((tag, "an exception escaping an invocation/dispatch/processing call changed the listener lists: %s -> %s" % (B.get(k), A.get(k))))
            if A.get("ec") != 0:
                viol.append((tag, "queueEmptyCounter not restored after the exception (ec=%s): emptiness reporting and waiting are wrong" % A.get("ec")))
            if A.get("hec", 0) != 0:
                viol.append((tag, "queueEmptyCounter of the heterogeneous queue not restored after the exception (ec=%s)" % A.get("hec")))
            if A.get("aec", 0) != 0:
                viol.append((tag, "queueEmptyCounter of the AnyData queue not restored after the exception (ec=%s)" % A.get("aec")))
            apa, apb = A.get("apending", []), B.get("apending", [])
            it = iter(apb)
            if not all(any(x == y for y in it) for x in apa):
                viol.append((tag, "pending events of the AnyData queue after the exception are not a subsequence of those before: %s -> %s" % (apb, apa)))
            if "aempty" in A and (A.get("aempty") == "1") != (len(apa) == 0):
                viol.append((tag, "AnyData queue emptyQueue() = %s with pending %s" % (A.get("aempty"), apa)))
            if A.get("freebad") or A.get("hfreebad") or A.get("afreebad"):
                viol.append((tag, "a recycled slot still holds an object"))
            hpa, hpb = A.get("hpending", []), B.get("hpending", [])
            it = iter(hpb)
            if not all(any(x == y for y in it) for x in hpa):
                viol.append((tag, "pending events of the heterogeneous queue after the exception are not a subsequence of those before: %s -> %s" % (hpb, hpa)))
            if "hempty" in A and (A.get("hempty") == "1") != (len(hpa) == 0):
                viol.append((tag, "heterogeneous emptyQueue() = %s with pending %s" % (A.get("hempty"), hpa)))
            pa, pb = A.get("pending", []), B.get("pending", [])
            # the events still pending must be a subsequence of the ones pending before, plus nothing new
            it = iter(pb)
            if not all(any(x == y for y in it) for x in pa):
                viol.append((tag, "pending events after the exception are not a subsequence of those before: %s -> %s" % (pb, pa)))
            if (A.get("emptyQueue") == "1") != (len(pa) == 0):
                viol.append((tag, "emptyQueue() = %s with pending %s" % (A.get("emptyQueue"), pa)))
            dpend = (len(pa) - len(pb)) + (sum(1 for x in hpa if x.startswith("P")) - sum(1 for x in hpb if x.startswith("P"))) + (
                sum(1 for x in apa if x != "<empty-slot>") - sum(1 for x in apb if x != "<empty-slot>"))
            if c["dp"] != dpend:
                viol.append((tag, "payload objects leaked or over-released: live payloads %+d, pending events %+d" % (c["dp"], dpend)))
            if c["dcb"] != 0:
                viol.append((tag, "callback objects leaked or over-released: %+d" % c["dcb"]))
    return viol, len(out)


LEDGER_WORDS = ("destroyed twice", "leaked", "over-released", "recycled slot still holds")


def fault_suite(ctx, search=False, only=None, nq=12, nt=150):
    """only: None = every clause of C09; "ledger" = only the exactly-once-destruction clauses (C08: '... and exceptions')"""
    quick = ctx.quick()
    ok, exe, log = vlib.build_harness(src="fault.cpp", out_name="fault")
    ctx.oblige("harness fault builds from /repo/include", ok, log[-1500:])
    if not ok:
        return
    rule0 = ctx.rule
    ctx.rule = ("for %s generated states x 34 operations (callback-list add/insert/assign/copy/invoke, queue appendListener/prependListener/enqueue/peekEvent/takeEvent/clearEvents/dispatch/process/processOne/processIf/processUntil/copy, "
                "HeterEventQueue appendListener/enqueue/process/processOne/processIf with events of two prototypes, an EventQueue of AnyData<32> (enqueue lvalue / temporary, process), ScopedRemover / CounterRemover / ConditionalRemover add, HeterCallbackList append/assign): the k-th allocation, callback copy, callback call, payload copy, payload move, predicate call, "
                "filter call throws, for EVERY k until the operation completes unfaulted (exhaustive in k per state and operation); distinct = distinct (state, operation, fault point); "
                "non-trivial = the fault fired and the exception reached the caller") % (str(nq) if quick else str(nt))
    if only == "ledger":
        ctx.rule = (rule0 + " | " if rule0 else "") + "fault enumeration of C09 (" + ctx.rule + "), judged here only by the object ledger: nothing destroyed twice, used after destruction, leaked or left in a recycled slot after the exception"
    nstates = (nq if quick else nt) * (2 if search else 1)
    seeds = [ctx.seed * 1000 + i for i in range(nstates)]
    import json
    known = vlib.load_known()
    total = 0
    # one process per state so that a terminate() is attributable
    def run_state(sd):
        e = dict(os.environ)
        e["ASAN_OPTIONS"] = "detect_leaks=1:exitcode=66"
        return sd, vlib.sh([exe], input="state %d\n" % sd, timeout=300, env=e)
    from concurrent.futures import ThreadPoolExecutor
    with ThreadPoolExecutor(max_workers=12) as ex:
        results = list(ex.map(run_state, seeds))
    reported = 0
    for sd, (rc, out, err) in results:
        secs = vlib.split_sections(out)
        last = None
        for header, lines in secs.items():
            last = header
            viol, n = check_section(header, lines)
            total += n
            ctx.cov["evaluations"] += n
            for l in lines:
                if l.startswith("inject ") and "threw" in l:
                    ctx.nontrivial_keys.add(header + l)
            ctx.dist["injections"] += n
            if not viol:
                ctx.cov["traces_validated"] += n
            if only == "ledger":
                viol = [(tag, detail) for tag, detail in viol if any(w in detail for w in LEDGER_WORDS)]
            for tag, detail in viol:
                cls = "%s:%s" % (header.split()[1], "unrecorded-listener" if ("rem.append" in header and "left the object changed" in detail) else "other")
                reported += 1
                if reported <= 40:
                    ctx.fail("violation", tag + ": " + detail, "state %d\n# operation %s ; replay: build/fault %s < this file\n" % (sd, header.split()[1], header.split()[1]), "fault", "")
                    ctx.failures[-1]["classifier"] = cls
        if rc != 0 and only == "ledger" and "Sanitizer" not in err:
            continue        # std::terminate without a memory error is C09's business
        if rc != 0:
            # crash / terminate: the operation being injected when the process died is the last section
            cls = "%s:%s" % ((last or "? ?").split()[1], "terminate")
            ctx.fail("violation", "the process died (rc=%s) while injecting into %s: std::terminate / sanitizer report: %s" % (rc, last, err[-600:]),
                     "state %d\n# operation %s\n" % (sd, (last or "? ?").split()[1]), "fault", "")
            ctx.failures[-1]["classifier"] = cls
        if len(ctx.samples) < 2 and secs:
            h = list(secs)[min(3, len(secs) - 1)]
            ctx.samples.append({"suite": "fault", "section": h, "lines": secs[h][:12]})


register(
    "C09",
    lean_modules=["EventppVerif.Properties.C09"],
    suites=[fault_suite],
    level_text="Lean theorems on the fault model: an operation whose every fault point (allocation, user code) precedes its first mutation of shared structure leaves the state unchanged when "
               "any single fault point throws, for every k, singly and in succession; abandoning a processing call restores the guard counter and discards exactly the events the call had taken. "
               "Partial: which library calls allocate and how often is libstdc++'s; the harness enumerates, for every operation and generated state, EVERY k-th allocation / user-code point with this library build "
               "and checks the property's clauses directly (state unchanged for the strong operations, valid object + discarded events only for invocation/dispatch/processing).",
    level_note="operator new replacement, throwing ledger types, -fno-access-control dumps; the step tables of the fault model are hand-written from the source (Appendix D), tied to the code by the harness only",
    design_ref="5.9",
)
