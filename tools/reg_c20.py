"""C20: configuration matrix — the generated programs of C01, C04, C05, C10 on every configuration, each compared
with the one model trace."""
import random

import reg_cl
import reg_q
import suite_cl
import suite_q
import suiterun
import vlib
from props import register
from suite_q import Variant as V

QUICK = [
    V("single", 0, 0, 0, 0, std="c++11", cxx="g++", opt="-O0", mapk=0),
    V("multi", 1, 1, 1, 0, std="c++14", cxx="g++", opt="-O2", mapk=1),
    V("spin", 1, 1, 0, 0, std="c++17", cxx="clang++-14", opt="-O0", mapk=0),
    V("multi", 0, 0, 1, 0, std="c++20", cxx="clang++-14", opt="-O2", mapk=1),
    V("single", 1, 1, 0, 1, std="c++20", cxx="g++", opt="-O2", mapk=0),
    V("multi", 0, 1, 0, 0, std="c++11", cxx="clang++-14", opt="-O1", mapk=1),
]


def thorough_variants():
    vs = list(QUICK)
    rng = random.Random(20)
    for cxx in ("g++", "clang++-14"):
        for std in ("c++11", "c++14", "c++17", "c++20"):
            for opt in ("-O0", "-O2"):
                vs.append(V(rng.choice(["single", "multi", "spin"]), rng.randrange(2), rng.randrange(2), rng.randrange(2),
                            rng.choice([0, 0, 1, 2]), std=std, cxx=cxx, opt=opt, mapk=rng.randrange(2)))
    return vs


def matrix_suite(ctx, search=False):
    quick = ctx.quick()
    variants = QUICK if quick else thorough_variants()
    builds = vlib.build_many([v.job() for v in variants])
    exes = []
    for v, (ok, path, log) in zip(variants, builds):
        ctx.oblige("configuration %s builds from /repo/include" % v.name, ok, log[-1500:])
        if ok:
            exes.append((v.name, path, v))
    ctx.rule = ("the generated programs of C04 (dispatch), C05 (queue) and C10 (copy/move over pre-filled storage) run on every configuration of the matrix "
                "{g++ 12, clang++ 14} x {-O0,-O1,-O2} x {c++11,14,17,20} x {SingleThreading, std::mutex, SpinLock} x {hashed map, std::map} x {int key, std::string key} x "
                "{event included in the prototype or not} x {by value, const reference} x {std::list, OrderedQueueList}; quick: 6 configurations covering every value of every axis, "
                "thorough: 22; the callback-list and ScopedRemover programs of C01 / C02 / C10 / C15 (removers constructed over pre-filled storage) on {g++ c++11 -O2 single, clang++ c++20 -O0 multi, spin, g++ c++14 -O1 spin}; every run is compared with the one model trace; "
                "distinct = distinct (configuration, canonical output); non-trivial = >=2 listener calls")
    n = (70 if quick else 700) * (3 if search else 1)
    for profile in ("dispatch", "queue", "qcopy"):
        rng = random.Random("%d/C20/%s" % (ctx.seed, profile))
        scripts = suiterun.load_corpus("C04", prefix="q_") + suiterun.load_corpus("C10", prefix="q_") if profile == "qcopy" else []
        for i in range(n):
            name = "C20_%s_%d_%d" % (profile, ctx.seed, i)
            scripts.append((name, suite_q.gen_script(rng, name, profile, 40)))
        suiterun.run_suite(ctx, "matrix/" + profile, exes, scripts, suite_q.run_batch, suite_q.run_one, suite_q.judge, suite_q.classify,
                           lambda f, s, o: f["calls_listener"] >= 2, prep=suite_q.with_cfg)
    # callback lists
    jobs = suite_cl.harness_jobs(("single",), std="c++11", opt="-O2", tag="_c11O2") + \
        suite_cl.harness_jobs(("multi", "spin"), std="c++20", cxx="clang++-14", opt="-O0", tag="_clang20O0") + \
        suite_cl.harness_jobs(("spin",), std="c++14", opt="-O1", tag="_c14O1")
    cb = vlib.build_many(jobs)
    cexes = []
    for j, (ok, path, log) in zip(jobs, cb):
        ctx.oblige("configuration %s builds from /repo/include" % j["out_name"], ok, log[-1500:])
        if ok:
            cexes.append((j["out_name"], path, None))
    rng = random.Random("%d/C20/cl" % ctx.seed)
    # (ScopedRemover scripts run on another model: they are batched separately)
    for profiles, label in ((["flat", "reent", "copy"], "matrix/cl"), (["rem"], "matrix/rem")):
        scripts = []
        for i in range(n if label == "matrix/cl" else n // 2):
            name = "C20_%s_%d_%d" % (label[-2:], ctx.seed, i)
            scripts.append((name, suite_cl.gen_script(rng, name, rng.choice(profiles), 35)))
        suiterun.run_suite(ctx, label, cexes, scripts, lambda exe, t, nm: suite_cl.run_batch(exe, t, nm),
                           suite_cl.run_one, suite_cl.judge, lambda sc, out: suite_cl.classify(sc, suite_cl.strip_impl(out)[0]),
                           lambda f, s, o: f["calls"] >= 2)


register(
    "C20",
    lean_modules=["EventppVerif.Properties.C20"],
    fragments=["DispatchFrag", "CtorFrag"],
    suites=[matrix_suite],
    level_text="Lean theorems: no call expression that reads the event and forwards the same argument depends on the evaluation order (shape of the six call sites regenerated from the source), "
               "no constructor leaves a scalar member to the previous content of memory (initialiser tables regenerated). Partial: 'any conforming compiler / policy' is sampled by the configuration matrix "
               "(two compilers, four standard levels, three optimisation levels, three threading policies, two map kinds, key / passing / queue-list policies), every configuration compared with the one model trace.",
    level_note="the compiler universe is {g++ 12.2, clang++ 14}; the translator's shape recognition of the call sites and constructors is trusted",
    design_ref="5.20",
)
