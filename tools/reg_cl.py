"""Registrations for the properties decided on the CallbackList model: C01 C02 (C08 C10 C19 parts)."""
import hashlib
import os
import random

import suite_cl
import vlib
from props import register
import reg_q as _rq  # noqa: E402
import reg_c09 as _c09  # noqa: E402


def _shrink(exe, script, timeout=8, budget=240):
    """delta-debug the `do` and `beh` lines of a failing script (failure = impl differs from spec)"""
    lines = script.splitlines()
    head = [l for l in lines if not (l.startswith("do ") or l.startswith("beh "))]
    body = [l for l in lines if l.startswith("do ") or l.startswith("beh ")]

    def mk(sub):
        behs = [l for l in sub if l.startswith("beh ")]
        dos = [l for l in sub if l.startswith("do ")]
        return "\n".join(head + behs + dos) + "\n"

    import time as _t
    deadline = _t.time() + budget

    def bad(sub):
        if _t.time() > deadline:
            return False
        r, st = suite_cl.run_one(exe, mk(sub), timeout)
        j = suite_cl.judge(r, st)
        return j is not None and j.startswith("violation")

    if not bad(body):
        return script
    small = vlib.ddmin(body, bad)
    # then try to shorten each beh body
    changed = True
    while changed:
        changed = False
        for i, l in enumerate(small):
            if l.startswith("beh "):
                t = l.split()
                headt, cmds = t[:4], " ".join(t[4:]).split(" ; ")
                if len(cmds) > 1:
                    for k in range(len(cmds)):
                        cand = small[:i] + [" ".join(headt) + " " + " ; ".join(cmds[:k] + cmds[k + 1:])] + small[i + 1:]
                        if bad(cand):
                            small = cand
                            changed = True
                            break
                if changed:
                    break
    return mk(small)


def cl_suite(profile, n_quick, n_thorough, variants_quick=("single", "checked"), variants_thorough=("single", "multi", "spin", "checked"),
             max_ops_quick=40, max_ops_thorough=120, nontrivial=None, rule=""):
    def run(ctx, search=False):
        quick = ctx.quick()
        variants = variants_quick if quick else variants_thorough
        n = n_quick if quick else n_thorough
        if search:
            n = n * 3
        max_ops = max_ops_quick if quick else max_ops_thorough
        builds = vlib.build_many(suite_cl.harness_jobs(variants))
        exes = []
        for v, (ok, path, log) in zip(variants, builds):
            ctx.oblige("harness seq_cl[%s] builds from /repo/include" % v, ok, log[-2000:])
            if ok:
                exes.append((v, path))
        if not exes:
            return
        if rule:
            ctx.rule = (ctx.rule + " | " if ctx.rule else "") + rule
        rng = random.Random("%d/%s/%s" % (ctx.seed, ctx.prop, profile))
        scripts = []
        # corpus first
        cdir = os.path.join(vlib.CORPUS, ctx.prop)
        if os.path.isdir(cdir):
            for f in sorted(os.listdir(cdir)):
                if f.startswith("q_"):
                    continue
                txt = open(os.path.join(cdir, f)).read()
                scripts.append(("corpus_" + f.replace(".", "_"), txt.replace("--- ", "--- corpus_" + f.replace(".", "_") + " #", 1) if False else txt))
        for i in range(n):
            name = "%s_%s_%d_%d" % (ctx.prop, profile, ctx.seed, i)
            scripts.append((name, suite_cl.gen_script(rng, name, profile, max_ops)))
        # corpus scripts carry their own names; normalise
        norm = []
        for name, txt in scripts:
            first = txt.splitlines()[0].split()
            realname = first[1] if len(first) > 1 else name
            norm.append((realname, txt))
        scripts = norm
        B = 100
        nfail = 0
        for v, exe in exes:
            for off in range(0, len(scripts), B):
                batch = scripts[off:off + B]
                names = [b[0] for b in batch]
                texts = [b[1] for b in batch]
                res, ist, mst, sst = suite_cl.run_batch(exe, texts, names)
                crashed = ist[0] != 0
                for r in res:
                    st = ist
                    if crashed:
                        # re-run alone so that one crash does not hide the others
                        r, st = suite_cl.run_one(exe, r["script"])
                    j = suite_cl.judge(r, st if st[0] != 0 else (0, ""))
                    if j is None and st[0] != 0:
                        j = "violation: implementation exited with rc=%s: %s" % (st[0], st[1][-600:])
                    ctx.cov["evaluations"] += 1
                    canon = suite_cl.strip_impl(r["impl"] or [])[0]
                    feat = suite_cl.classify(r["script"], canon)
                    for k, val in feat.items():
                        ctx.dist[profile + "." + k] += val
                    if j is None:
                        ctx.cov["traces_validated"] += 1
                        if nontrivial is None or nontrivial(feat, r["script"], canon):
                            ctx.nontrivial_keys.add(hashlib.sha1("\n".join(canon).encode()).hexdigest())
                        if len(ctx.samples) < 3 and feat["calls"] > 2:
                            ctx.samples.append({"suite": "seq_cl[%s]/%s" % (v, profile), "script": r["script"].splitlines(),
                                                "output_head": canon[:12]})
                    else:
                        nfail += 1
                        if nfail > 3 and crashed:
                            # dying build (crash / hang in most scripts): enough is reported, do not re-run the rest one by one
                            ctx.cov["failures"] += nfail
                            return
                        if nfail <= 3:
                            kind = "violation" if j.startswith("violation") else "correspondence"
                            script = r["script"]
                            if kind == "violation":
                                script = _shrink(exe, script)
                                r2, st2 = suite_cl.run_one(exe, script)
                                canon2 = suite_cl.strip_impl(r2["impl"] or [])[0]
                                extra = "observed (implementation, %s):\n%s\nexpected (Spec):\n%s\nstderr tail:\n%s" % (
                                    v, "\n".join(canon2), "\n".join(r2["spec"] or []), st2[1][-1500:])
                                j = suite_cl.judge(r2, st2) or j
                            else:
                                extra = ""
                            ctx.fail(kind, j, script, "seq_cl[%s]/%s" % (v, profile), extra)
        ctx.cov["failures"] += nfail
    return run


def nt_flat(feat, script, canon):
    return feat["res_false"] >= 1 and "insert" in script and feat["final_nonempty"] == 1


def nt_reent(feat, script, canon):
    # an operation result observed between two calls of one invocation, at least one inert (false) result,
    # and a later invocation observing the list
    inside = False
    seen_inside_false = False
    for l in canon:
        if l.startswith("ev call"):
            inside = True
        elif l.startswith("state"):
            inside = False
        elif inside and l == "ev res false":
            seen_inside_false = True
    return seen_inside_false and feat["calls"] >= 3


register(
    "C01",
    lean_modules=["EventppVerif.Properties.C01", "EventppVerif.Properties.C02bridge"],
    theorems=[],
    fragments=["ClFrag"],
    suites=[cl_suite("flat", 300, 8000, rule="random flat histories (no callback behaviour) over 1-3 lists, <=40 (quick) / <=120 (thorough) operations, "
                     "handles 60% issued / stale / never issued; distinct = distinct canonical output; non-trivial = at least one inert (false) result, "
                     "at least one insert, final list non-empty", nontrivial=nt_flat),
            # the sequence view of C01 also has to hold for the results observed between two calls of a running
            # invocation (a second remove of a callback that is already removed but still being visited, ...)
            cl_suite("reent", 150, 4000, nontrivial=nt_reent),
            # ... and for lists that have handed out many generation numbers: the counter placed near the wrap and
            # half way round the circle from the first callbacks' numbers
            cl_suite("wrap", 120, 3000, nontrivial=lambda feat, script, canon: feat["wrap_cmds"] >= 1 and feat["calls"] >= 2)],
)

register(
    "C02",
    lean_modules=["EventppVerif.Properties.C02", "EventppVerif.Properties.C02bridge", "EventppVerif.CL.WFCheck"],
    theorems=["Evp.sim_step", "Evp.sim_runN", "Evp.minv_runN", "Evp.wfCheck_sound", "Evp.PL.bridge_doFreeNode", "Evp.PL.bridge_doAppend", "Evp.PL.bridge_doInsert"],
    fragments=["ClFrag"],
    suites=[cl_suite("reent", 400, 12000, rule="random re-entrant programs: callbacks remove/insert near themselves (self, self+-1, self+-2), append, prepend, "
                     "re-invoke and enumerate to depth 3, through live / removed / never-issued handles; single, std::mutex and (thorough) SpinLock policies; "
                     "distinct = distinct canonical output; non-trivial = an inert (false) result produced inside a running invocation and >=3 calls",
                     nontrivial=nt_reent),
            # additions from inside callbacks on the call that wraps the generation counter (getNextCounter takes the list
            # mutex there): variant "checked" reports a lock by the thread that already holds it
            cl_suite("wrap", 150, 3000, nontrivial=lambda feat, script, canon: feat["wrap_cmds"] >= 1 and feat["calls"] >= 3 and feat["beh"] >= 1),
            # the same through a dispatcher / queue: listeners that remove themselves or the last listener of the event
            # being dispatched, with a mutex whose use after destruction is a reported memory error (variant "checked")
            _rq.q_suite("dispatch", 150, 3000, [_rq.V("checked", 0, 0, 0, 0)], [_rq.V("checked", 0, 0, 0, 0), _rq.V("checked", 1, 1, 1, 0, mapk=1)],
                        nontrivial=_rq.nt_dispatch)],
)


def nt_counted(feat, script, canon):
    return ("counted" in script or "conditional" in script) and feat["calls"] >= 4


def nt_rem(feat, script, canon):
    return "rmoveassign" in script or "rmovector" in script or "rswap" in script


register(
    "C16",
    lean_modules=["EventppVerif.Properties.C16"],
    fragments=["RemoverFrag"],
    theorems=[],
    suites=[cl_suite("counted", 300, 8000, rule="random histories with listeners added through CounterRemover (trigger counts INT_MIN, -3, -1, 0, 1, 2, 3, 5, INT_MAX) and "
                     "ConditionalRemover (condition on the trigger argument), plain listeners around them, wrapped listeners that re-invoke the list (nested triggers), remove "
                     "others or themselves; UBSan on; distinct = distinct canonical output; non-trivial = a wrapped listener present and >=4 calls", nontrivial=nt_counted),
            # the other specialisation: CounterRemover / ConditionalRemover with a dispatcher / queue as target (the event is
            # handed over in a variable that changes afterwards; the wrappers must keep their own copy)
            _rq.q_suite("dispatch", 150, 3000, [_rq.V("single", 0, 0, 0, 0), _rq.V("checked", 1, 1, 0, 0)],
                        [_rq.V("single", 0, 0, 0, 0), _rq.V("checked", 1, 1, 0, 0), _rq.V("multi", 1, 0, 1, 0, mapk=1)],
                        nontrivial=_rq.nt_dispatch, use_corpus=False)],
)

register(
    "C15",
    lean_modules=["EventppVerif.Properties.C15"],
    theorems=[],
    suites=[cl_suite("rem", 400, 10000, variants_quick=("single", "checked", "remdisp", "remqueue"),
                     variants_thorough=("single", "multi", "spin", "checked", "remdisp", "remqueue", "remqueue_spin"),
                     rule="random ScopedRemover histories over 2 targets and 3 remover names, for BOTH specialisations of the class - CallbackList targets (seq_cl) and EventDispatcher / EventQueue targets "
                     "(seq_rem: list l of the script is event 7 of dispatcher / queue object l): add through remover (append/prepend/insert), remove through "
                     "remover (also of a listener detached directly while its node is held), reset, setCallbackList / setDispatcher, move construction, move assignment (into empty and non-empty removers, self), swap, destruction in any order, "
                     "plus listeners added/removed directly; distinct = distinct canonical output; non-trivial = script moves or swaps removers", nontrivial=nt_rem)],
)


def nt_wrap(feat, script, canon):
    return feat["wrap_cmds"] >= 1 and feat["calls"] >= 3 and feat["beh"] >= 1


def nt_copy(feat, script, canon):
    return feat["copy_cmds"] >= 1 and feat["calls"] >= 2


register(
    "C19",
    lean_modules=["EventppVerif.Properties.C19", "EventppVerif.Properties.C02bridge"],
    theorems=["Evp.minv_runN", "Evp.PL.bridge_wrapReset"],
    fragments=["ClFrag"],
    suites=[cl_suite("wrap", 400, 12000, rule="the re-entrant programs of C02 with `setcounter L k` (currentCounter := 2^32 - k, k in 0..6, through -fno-access-control as the unit "
                     "tests do) placed anywhere, also inside callbacks of a running invocation, so that the wrap happens at any point of the history; distinct = distinct "
                     "canonical output; non-trivial = script places the counter, has callback behaviours and >=3 calls", nontrivial=nt_wrap)],
)



def nt_qcopy(feat, script, out):
    return ("qcopy" in script or "qmove" in script) and feat["calls_listener"] >= 1


register(
    "C10",
    lean_modules=["EventppVerif.Properties.C10", "EventppVerif.Properties.C10q"],
    fragments=["CtorFrag"],
    theorems=[],
    suites=[_rq.q_suite("qcopy", 250, 5000,
                        [_rq.V("single", 0, 0, 0, 0, std="c++11"), _rq.V("multi", 1, 1, 1, 0, std="c++17")],
                        [_rq.V("single", 0, 0, 0, 0, std="c++11"), _rq.V("multi", 1, 1, 1, 0, std="c++17"), _rq.V("multi", 0, 0, 0, 1, std="c++14"),
                         _rq.V("spin", 1, 0, 0, 0, std="c++20"), _rq.V("single", 0, 1, 0, 0, cxx="clang++-14", std="c++11")],
                        rule="queue / dispatcher histories in which the object is repeatedly replaced by a copy or a move of itself constructed by placement new over storage "
                             "pre-filled with 0x00 / 0xFF / 0x5A / 0xA5, then used: listeners and filters must be the same in the same order, no event pending, emptyQueue true until something is "
                             "enqueued, processing works; C++11 and C++17 builds (thorough: 14, 20, clang); non-trivial = a copy/move and >=1 listener call afterwards",
                        nontrivial=nt_qcopy),
            cl_suite("copy", 300, 8000, rule="histories over 2-3 callback lists with copy-assignment, move-assignment, swap (also self) interleaved with listener changes, "
                     "invocations and operations through handles issued before the copy/move/swap; distinct = distinct canonical output; non-trivial = at least one copy/move/swap and >=2 calls",
                     nontrivial=nt_copy)],
)


def nt_c08(feat, script, canon):
    return nt_reent(feat, script, canon)


register(
    "C08",
    lean_modules=["EventppVerif.Properties.C08", "EventppVerif.Properties.C08acyclic", "EventppVerif.Properties.C08q", "EventppVerif.Properties.C17"],
    fragments=["AnyDataFrag"],
    theorems=[],
    suites=[cl_suite("reent", 300, 8000, rule="the re-entrant callback-list programs of C02 (removal during invocation, nested invocations) and copy/move/swap histories with ledger-counted callback "
                     "objects: after every top-level command the number of live callback objects must equal the number of attached callbacks (a removed callback is released as soon as no "
                     "invocation stands on it), no object is destroyed twice, LeakSanitizer finds no shared_ptr cycle at exit; queue histories of C05 with ledger-counted payloads: live payloads = "
                     "pending events after every command (cleared / dispatched / taken events are released), everything released when the queue is destroyed; distinct = distinct canonical output",
                     nontrivial=nt_c08),
            cl_suite("copy", 150, 4000, nontrivial=nt_copy),
            _rq.q_suite("queue", 200, 5000, [_rq.V("single", 0, 0, 0, 0), _rq.V("multi", 1, 1, 1, 0)],
                        [_rq.V("single", 0, 0, 0, 0), _rq.V("multi", 1, 1, 1, 0), _rq.V("spin", 0, 1, 0, 1)], nontrivial=_rq.nt_queue),
            # "... and exceptions": the fault enumeration of C09, judged by the object ledger only
            lambda ctx, search=False: _c09.fault_suite(ctx, search, only="ledger", nq=6, nt=60),
            # objects held by AnyData arguments (C17's correspondence runs, judged here by their ledger: every held object destroyed exactly once)
            lambda ctx, search=False: __import__("reg_util").anydata_suite(ctx, search)],
    level_text="Lean theorems: on the pointer model, with no traversal running exactly the live chain is reachable from head/tail (live nodes point only to live nodes), a removed node is "
               "unreachable, moved-from / cleared objects retain nothing, clones retain exactly their fresh nodes (Properties/C08); the nodes the object does not retain form an acyclic graph under next/previous for every run of every behaviour, so reference counting releases them (Properties/C08acyclic); on the queue model every slot is in exactly one list, "
               "occupied iff it holds an event, set only on empty and cleared only on occupied slots, every event consumed exactly once (C08q, C05); AnyData ledger invariant (C17). "
               "Correspondence: ledger-counted callbacks and payloads compared with the models after every command, ASan/LSan.",
    level_note="shared_ptr reference counting is trusted to release exactly the unreachable acyclic garbage; that removed nodes never form shared_ptr cycles is proved on the Model (C08_garbage_acyclic: edges between removed nodes strictly increase removal time, for every run of every behaviour) and watched by LeakSanitizer on the implementation; the exception clause is exercised by the fault enumeration of C09 judged by the ledger (its theorems are C09's)",
    design_ref="5.8",
)
