"""Registrations for the concurrency properties decided on Conc/Queue.lean: C06 C07 C11."""
import hashlib
import os
import random

import suite_conc
import vlib
from props import register


def gen_flag():
    p = os.path.join(vlib.LEAN, "EventppVerif", "Generated", "QueueFrag.lean")
    try:
        return 1 if "homo_dqnLocked : Bool := true" in open(p).read() else 0
    except OSError:
        return 1


def conc_suite(profile, n_quick, n_thorough, sched_quick, sched_thorough, focus, rule=""):
    """focus: the property whose impl-oracle findings count as violations of THIS check"""
    def run(ctx, search=False):
        quick = ctx.quick()
        ok, exe, log = vlib.build_harness(src="conc_q.cpp", out_name="conc_q")
        ctx.oblige("harness conc_q builds from /repo/include", ok, log[-2000:])
        if not ok:
            return
        ctx.rule = rule
        rng = random.Random("%d/%s/%s" % (ctx.seed, ctx.prop, profile))
        nprog = (n_quick if quick else n_thorough) * (3 if search else 1)
        nsched = sched_quick if quick else sched_thorough
        flag = gen_flag()
        runs = []
        # directed family: the smallest programs around each synchronisation window, many schedules each
        directed = {
            "wait": [[["wait", "proc"], ["dqnb", "enq", "dqne"]], [["wait", "proc"], ["enq"]], [["wait", "proc"], ["wait", "proc"], ["enq", "enq"]],
                     [["waitfor", "proc"], ["dqnb", "dqnb", "enq", "dqne", "dqne"]], [["wait", "proc"], ["dqnb", "enq", "dqne"], ["one"]],
                     [["wait", "proc"], ["dqnb", "dqnc", "dqne", "enq", "dqne"]], [["waitfor", "proc"], ["dqnb", "dqna", "enq", "dqne"]],
                     [["wait", "proc"], ["enq"], ["dqnb", "dqnc", "dqne", "dqne"]],
                     [["wait", "proc"], ["enq"], ["ifE"]], [["wait", "proc"], ["dqnb", "dqne"], ["ifE"], ["enq"]],
                     # processUntil stops at event 0 and puts it back: the same window as processIf's put-back
                     [["wait", "proc"], ["enq"], ["untE"]], [["wait", "proc"], ["dqnb", "dqne"], ["untE"], ["enq"]]],
            "conserve": [[["enq", "enq"], ["proc"], ["one"]], [["enq", "enq", "enq"], ["ifE"], ["take"]], [["enq", "enq"], ["clear"], ["proc"]],
                         [["enq", "enq"], ["ifO"], ["ifE"]],
                         # processUntil: a producer enqueues while the only consumer runs processUntil (an enqueue lands
                         # between the swap-out and the put-back), then the consumer drains with process(): the events
                         # put back must come out before the ones enqueued meanwhile (single-consumer order oracle)
                         [["enq", "enq", "enq", "enq"], ["untO", "proc"]], [["enq", "enq", "enq"], ["untE", "proc"]],
                         [["enq", "enq", "enq", "enq"], ["untO", "untE", "proc"]], [["enq", "enq"], ["enq", "enq"], ["untO", "proc", "proc"]],
                         [["enq", "enq", "enq"], ["untO"], ["one"]]],
            "empty": [[["enq"], ["proc"], ["empty"]], [["enq", "enq"], ["one", "one"], ["empty", "empty"]], [["enq"], ["take"], ["empty"]],
                      [["enq"], ["clear"], ["empty"]]],
        }[profile]
        ndir = (150 if quick else 1500) * (4 if search else 1)
        for j, progs in enumerate(directed):
            for k in range(ndir):
                runs.append(("%s_%s_d%d_%d_%d" % (ctx.prop, profile, j, ctx.seed, k), progs, rng.randrange(1 << 30), rng.choice([0, 0, 20])))
        for i in range(nprog):
            progs = suite_conc.gen_program(rng, profile)
            for k in range(nsched):
                name = "%s_%s_%d_%d_%d" % (ctx.prop, profile, ctx.seed, i, k)
                runs.append((name, progs, rng.randrange(1 << 30), rng.choice([0, 10, 30, 80])))
        okh, exe_h, logh = vlib.build_harness(src="conc_q.cpp", out_name="conc_q_heter", defines=["VQ_HETER=1"])
        ctx.oblige("harness conc_q_heter (HeterEventQueue, same model) builds from /repo/include", okh, logh[-2000:])
        oki, exe_i, logi = vlib.build_harness(src="conc_q.cpp", out_name="conc_q_incl", defines=["VQ_INCLUDE=1"])
        ctx.oblige("harness conc_q_incl (event included in the prototype: the other enqueue overload) builds from /repo/include", oki, logi[-2000:])
        all_runs = runs
        variants = [("conc_q", exe, None, 1)]
        if okh:
            variants.append(("conc_q_heter", exe_h, suite_conc.HETER_OK, 2))
        if oki:
            variants.append(("conc_q_incl", exe_i, None, 3))
        nfail = 0
        norc = 0
        for vlabel, exe, only_ops, stride in variants:
            # the heterogeneous queue has no processUntil / takeEvent / peekEvent / DisableQueueNotify: the runs that use
            # only calls it has are replayed on the same model (every second one, to bound the time)
            runs = [r for r in all_runs if only_ops is None or all(c in only_ops for p in r[1] for c in p)][::stride]
            ctx.dist["runs_" + vlabel] += len(runs)
            B = 400
            for off in range(0, len(runs), B):
                chunk = runs[off:off + B]
                text = "".join(suite_conc.run_text(*r) for r in chunk)
                rc, out, err = vlib.run_harness(exe, text, timeout=600)
                mtext = ""
                for name, progs, seed, spur in chunk:
                    sec = out.get(name)
                    if sec is None:
                        continue
                    mtext += "--- %s\nflag %d\n" % (name, flag) + "".join("thread %s\n" % " ".join(p) for p in suite_conc.model_progs(progs))
                    mtext += "\n".join(l for l in sec if l.startswith("step ")) + "\n"
                rcm, mout, errm = vlib.run_driver("conc", mtext, timeout=900)
                for name, progs, seed, spur in chunk:
                    ctx.cov["evaluations"] += 1
                    sec = out.get(name)
                    script = suite_conc.run_text(name, progs, seed, spur)
                    if sec is None:
                        nfail += 1
                        if nfail <= 3:
                            ctx.fail("violation", "implementation crashed / hung before this run finished (rc=%s): %s" % (rc, err[-800:]), script, vlabel + "/" + profile)
                        continue
                    di = suite_conc.parse(sec)
                    orc = suite_conc.impl_oracles(progs, di)
                    ctx.dist["steps"] += len(di["steps"])
                    ctx.dist["threads"] += len(progs)
                    ctx.dist["terminal_with_parked"] += 1 if (di["terminal"] and di["parked"]) else 0
                    if orc:
                        nfail += 1
                        norc += 1
                        if norc <= 3:
                            kind = "violation"
                            ctx.fail(kind, "%s: %s" % orc, script + "# schedule (global order of the performed micro-steps):\n" + "\n".join("# " + l for l in di["steps"]),
                                     vlabel + "/" + profile, "\n".join(sec[-12:]))
                            ctx.failures[-1]["classifier"] = "%s:%s" % (orc[0], {"C07": "lost-wakeup", "C11": "emptiness"}.get(orc[0], "conservation"))
                            ctx.failures[-1]["found_prop"] = orc[0]
                        continue
                    dm = suite_conc.parse(mout.get(name, []))
                    why = None
                    if dm["mismatch"]:
                        why = dm["mismatch"][0]
                    elif focus == "C11" and dm["c11bad"] and not any(c in suite_conc.PUTBACK for p in progs for c in p):
                        why = dm["c11bad"][0]
                    else:
                        why = suite_conc.compare(di, dm)
                    if why:
                        nfail += 1
                        if nfail <= 3:
                            kind = "violation" if "c11bad" in why else "correspondence"
                            ctx.fail(kind, why, script + "# schedule:\n" + "\n".join("# " + l for l in di["steps"]), vlabel + "/" + profile)
                        continue
                    ctx.cov["traces_validated"] += 1
                    preempt = sum(1 for a, b in zip(di["steps"], di["steps"][1:]) if a.split()[1] != b.split()[1])
                    if preempt >= 3 and len(di["steps"]) >= 8:
                        ctx.nontrivial_keys.add(hashlib.sha1("\n".join(di["steps"]).encode()).hexdigest())
                    if len(ctx.samples) < 2 and len(di["steps"]) > 12:
                        ctx.samples.append({"suite": vlabel + "/" + profile, "programs": progs, "seed": seed, "schedule_head": di["steps"][:16],
                                            "rets": di["rets"], "queue": di["queue"]})
        ctx.cov["failures"] += nfail
    return run


def spin_suite(ctx, search=False):
    """eventpp::SpinLock itself: real threads (the baton scheduler cannot interpose on its std::atomic_flag)"""
    ok, exe, log = vlib.build_harness(src="spin_stress.cpp", out_name="spin_stress", opt="-O2", san=False, extra=["-pthread"])
    ctx.oblige("harness spin_stress builds from /repo/include", ok, log[-1500:])
    if not ok:
        return
    ctx.rule = (ctx.rule + " | " if ctx.rule else "") + (
        "eventpp::SpinLock under real contention: 4 / 8 (thorough: up to 16) threads x 10^5 critical sections with an occupancy counter and a plain counter, "
        "and producers / consumer on an EventQueue with the SpinLock policy (conservation)")
    for nt in ((4, 8) if ctx.quick() else (2, 4, 8, 16)):
        for rep in range(2 if ctx.quick() else 6):
            rc, out, err = vlib.sh([exe, str(nt), "100000"], timeout=300)
            ctx.cov["evaluations"] += 1
            if rc != 0:
                ctx.fail("violation", "SpinLock does not exclude / events lost under contention: " + " ; ".join(out.strip().splitlines()[-3:]) + err[-300:],
                         "# replay: build/spin_stress %d 100000\nthreads %d rounds 100000\n" % (nt, nt), "spin_stress")
                ctx.cov["failures"] += 1
                return
            ctx.cov["traces_validated"] += 1


register(
    "C07",
    lean_modules=["EventppVerif.Properties.C07"],
    fragments=["QueueFrag"],
    suites=[conc_suite("wait", 60, 600, 12, 60, "C07",
                       rule="random programs of 2-4 threads: waiters (wait / waitFor followed by process), enqueuers with and without nested DisableQueueNotify scopes, "
                            "processors (process / processOne / takeEvent / processIf / processUntil), plus a directed family of the smallest programs around each notification window; each run under a seeded random schedule of the baton scheduler (every micro-step of Conc/Queue.lean is a scheduling point, "
                            "spurious wake-ups and time-outs are scheduler choices with probability 0 - 8%); distinct = distinct global step order; "
                            "non-trivial = at least 3 thread switches and 8 steps")],
)


register(
    "C06",
    lean_modules=["EventppVerif.Properties.C06", "EventppVerif.Properties.C03spin"],
    fragments=["SpinFrag"],
    suites=[spin_suite, conc_suite("conserve", 80, 800, 10, 60, "C06",
                       rule="random programs of 2-4 threads mixing enqueue with process / processOne / processIf (even / odd ids declined) / processUntil (stop at the first even / odd id) / "
                            "takeEvent / peekEvent / clearEvents / emptyQueue, "
                            "each run under seeded random schedules of the baton scheduler, plus a directed family of the smallest producer/consumer programs with many schedules "
                            "(among them: a producer enqueueing while the only consumer runs processUntil and then drains with process, for the put-back-in-front order); "
                            "distinct = distinct global step order; non-trivial = at least 3 thread switches and 8 steps")],
)

import reg_q  # noqa: E402

register(
    "C11",
    lean_modules=["EventppVerif.Properties.C11", "EventppVerif.Properties.C11s"],
    fragments=["QueueFrag"],
    suites=[conc_suite("empty", 80, 800, 10, 60, "C11",
                       rule="random programs of 2-4 threads with emptyQueue observers next to enqueuers and threads running process / processOne / takeEvent / clearEvents (no processIf / processUntil: the property excludes them), "
                            "under seeded random schedules; the driver evaluates along the implementation's own step order whether an emptyQueue() that returns true finds every event enqueued before the call consumed; "
                            "plus the single-threaded histories of C05 in which listeners call emptyQueue (seq_q); distinct = distinct global step order / canonical output"),
            reg_q.q_suite("queue", 150, 4000, [reg_q.V("single", 0, 0, 0, 0)], [reg_q.V("single", 0, 0, 0, 0), reg_q.V("multi", 1, 1, 1, 0)],
                          rule="", nontrivial=reg_q.nt_queue)],
)


import suite_concl  # noqa: E402
import reg_cl  # noqa: E402


def concl_suite(ctx, search=False):
    quick = ctx.quick()
    ok, exe, log = vlib.build_harness(src="conc_cl.cpp", out_name="conc_cl")
    ctx.oblige("harness conc_cl builds from /repo/include", ok, log[-2000:])
    if not ok:
        return
    ctx.rule = ("random programs of 2-3 threads x 1-3 calls (append / prepend / insert before a shared handle / remove of shared handles / ownsHandle / empty / invoke) on one CallbackList with "
                "0-3 callbacks attached beforehand, each under seeded random schedules of the baton scheduler (every micro-step of Conc/CList.lean is a scheduling point); the recorded history is "
                "checked for linearizability by brute force, the final list forwards/backwards, the visit rule; distinct = distinct global step order; non-trivial = at least 3 thread switches")
    rng = random.Random("%d/C03" % ctx.seed)
    nprog = (120 if quick else 1500) * (3 if search else 1)
    nsched = 10 if quick else 40
    runs = []
    for i in range(nprog):
        nsetup = rng.randint(0, 3)
        progs = suite_concl.gen_program(rng, nsetup)
        for k in range(nsched):
            runs.append(("C03_%d_%d_%d" % (ctx.seed, i, k), rng.randrange(1 << 30), nsetup, progs))
    jobs = [dict(src="conc_cl.cpp", out_name="conc_cl_disp", defines=["VC_DISP=1"])]
    if not quick:
        jobs.append(dict(src="conc_cl.cpp", out_name="conc_cl_dispmap", defines=["VC_DISP=1", "VC_MAP=1"]))
    variants = [("conc_cl", exe, False, 1)]
    for j in jobs:
        okd, exed, logd = vlib.build_harness(**j)
        ctx.oblige("harness %s (the same calls through an EventDispatcher) builds from /repo/include" % j["out_name"], okd, logd[-2000:])
        if okd:
            variants.append((j["out_name"], exed, True, 2))
    all_runs = runs
    nfail = 0
    for vlabel, exe, disp, stride in variants:
        runs = all_runs[::stride]
        rng2 = random.Random("%d/C03/%s" % (ctx.seed, vlabel))
        ctx.dist["runs_" + vlabel] += len(runs)
        B = 500
        for off in range(0, len(runs), B):
            chunk = runs[off:off + B]
            # dispatcher variants: some threads also add listeners for fresh events in between (not calls of the model)
            hprogs = {r[0]: (suite_concl.with_other(rng2, r[3]) if disp else r[3]) for r in chunk}
            text = "".join(suite_concl.run_text(r[0], r[1], r[2], hprogs[r[0]]) for r in chunk)
            rc, out, err = vlib.run_harness(exe, text, timeout=600)
            mtext = ""
            for name, seed, nsetup, progs in chunk:
                sec = out.get(name)
                if sec is None:
                    continue
                mtext += suite_concl.run_text(name, seed, nsetup, progs) + "\n".join(l for l in sec if l.startswith("step ")) + "\n"
            rcm, mout, errm = vlib.run_driver("concl", mtext, timeout=900)
            for name, seed, nsetup, progs in chunk:
                ctx.cov["evaluations"] += 1
                script = suite_concl.run_text(name, seed, nsetup, progs)
                sec = out.get(name)
                if sec is None:
                    nfail += 1
                    if nfail <= 3:
                        ctx.fail("violation", "implementation crashed / hung before this run finished (rc=%s): %s" % (rc, err[-800:]), script, vlabel)
                    continue
                di = suite_concl.parse(sec)
                why = suite_concl.impl_oracles(nsetup, progs, di)
                if why is None and disp:
                    why = suite_concl.map_protocol(di, progs)
                sched = "# schedule (global order of the performed micro-steps):\n" + "\n".join("# " + l for l in di["steps"])
                if why:
                    nfail += 1
                    if nfail <= 3:
                        ctx.fail("violation", why, script + sched, vlabel, "\n".join(l for l in sec if not l.startswith("step") and not l.startswith("note")))
                    continue
                dm = suite_concl.parse(mout.get(name, []))
                diff = None
                if dm["mismatch"]:
                    diff = dm["mismatch"][0]
                else:
                    for key in ("rets", "visits", "final", "back"):
                        if di[key] != dm[key]:
                            diff = "%s: implementation %r, model %r" % (key, di[key], dm[key])
                            break
                if diff:
                    nfail += 1
                    if nfail <= 3:
                        ctx.fail("correspondence", diff, script + sched, vlabel)
                    continue
                ctx.cov["traces_validated"] += 1
                ctx.dist["steps"] += len(di["steps"])
                preempt = sum(1 for a, b in zip(di["steps"], di["steps"][1:]) if a.split()[1] != b.split()[1])
                if preempt >= 3:
                    ctx.nontrivial_keys.add(hashlib.sha1("\n".join(di["steps"]).encode()).hexdigest())
                if len(ctx.samples) < 2 and len(di["steps"]) > 10:
                    ctx.samples.append({"suite": vlabel, "setup": nsetup, "programs": progs, "seed": seed, "schedule_head": di["steps"][:14],
                                        "rets": di["rets"], "final": di["final"]})
    ctx.cov["failures"] += nfail


def hslot_suite(ctx, search=False):
    """first use of a prototype slot of a HeterCallbackList by several threads (Conc/HeterSlot.lean)"""
    quick = ctx.quick()
    ok, exe, log = vlib.build_harness(src="conc_cl.cpp", out_name="conc_cl_hslot", defines=["VC_HSLOT=1"])
    ctx.oblige("harness conc_cl_hslot (HeterCallbackList, lazily created prototype slot) builds from /repo/include", ok, log[-2000:])
    if not ok:
        return
    ctx.rule = (ctx.rule + " | " if ctx.rule else "") + (
        "2-4 threads x 1-3 appends to one HeterCallbackList whose prototype slot does not exist yet, seeded schedules of the baton scheduler over the unlocked reads of the slot, "
        "the critical section of its mutex and the completed appends; replayed on Conc/HeterSlot.lean; oracle: every callback whose append returned is in the list exactly once")
    rng = random.Random("%d/C03/hslot" % ctx.seed)
    runs = []
    for i in range((60 if quick else 600) * (3 if search else 1)):
        nt = rng.randint(2, 4)
        progs, nid = [], 10
        for t in range(nt):
            p = []
            for _ in range(rng.randint(1, 3)):
                p.append(nid)
                nid += 1
            progs.append(p)
        for k in range(8 if quick else 30):
            runs.append(("C03s_%d_%d_%d" % (ctx.seed, i, k), rng.randrange(1 << 30), progs))

    def text_of(name, seed, progs):
        return "--- %s\nseed %d\n" % (name, seed) + "".join("thread %s\n" % " ; ".join("append %d" % c for c in p) for p in progs)
    nfail = 0
    B = 600
    for off in range(0, len(runs), B):
        chunk = runs[off:off + B]
        rc, out, err = vlib.run_harness(exe, "".join(text_of(*r) for r in chunk), timeout=600)
        mtext = ""
        for name, seed, progs in chunk:
            sec = out.get(name)
            if sec is not None:
                mtext += text_of(name, seed, progs) + "\n".join(l for l in sec if l.startswith("step ")) + "\n"
        rcm, mout, errm = vlib.run_driver("hslot", mtext, timeout=600)
        for name, seed, progs in chunk:
            ctx.cov["evaluations"] += 1
            script = text_of(name, seed, progs)
            sec = out.get(name)
            if sec is None:
                nfail += 1
                if nfail <= 3:
                    ctx.fail("violation", "implementation crashed / hung before this run finished (rc=%s): %s" % (rc, err[-600:]), script, "conc_cl_hslot")
                continue
            steps = [l for l in sec if l.startswith("step ")]
            done = [x for l in sec if l.startswith("done ") for x in l.split()[3:]]
            final = next((l.split()[2:] for l in sec if l.startswith("final")), [])
            sched = "# schedule (global order of the performed micro-steps):\n" + "\n".join("# " + l for l in steps)
            why = None
            lost = [c for c in done if final.count(c) != 1]
            if lost:
                why = "callback(s) %s: append returned, but the list holds them %s time(s): final list %s" % (lost, [final.count(c) for c in lost], final)
            if why:
                nfail += 1
                if nfail <= 3:
                    ctx.fail("violation", why, script + sched, "conc_cl_hslot")
                continue
            msec = mout.get(name, [])
            mm = [l for l in msec if l.startswith("mismatch")]
            mfinal = next((l.split()[2:] for l in msec if l.startswith("final")), None)
            diff = mm[0] if mm else (None if mfinal == final else "final: implementation %s, model %s" % (final, mfinal))
            if diff:
                nfail += 1
                if nfail <= 3:
                    ctx.fail("correspondence", diff, script + sched, "conc_cl_hslot")
                continue
            ctx.cov["traces_validated"] += 1
            ctx.dist["hslot_steps"] += len(steps)
            if sum(1 for a, b in zip(steps, steps[1:]) if a.split()[1] != b.split()[1]) >= 3:
                ctx.nontrivial_keys.add(hashlib.sha1("\n".join(steps).encode()).hexdigest())
    ctx.cov["failures"] += nfail


register(
    "C03",
    lean_modules=["EventppVerif.Properties.C03", "EventppVerif.Properties.C02bridge", "EventppVerif.Properties.C03slot", "EventppVerif.Properties.C03spin"],
    fragments=["ClFrag", "SpinFrag"],
    suites=[concl_suite, hslot_suite, spin_suite,
            # a call that never returns needs no second thread: an addition that takes the list mutex and then wraps the
            # generation counter (getNextCounter locks the same mutex) is reported by the "checked" mutex
            reg_cl.cl_suite("wrap", 150, 3000, nontrivial=lambda feat, script, canon: feat["wrap_cmds"] >= 1 and feat["calls"] >= 2)],
    level_text="Lean theorems on the concurrent micro-step model of CallbackList over the pointer model (every schedule, any number of threads): well-formedness of the list after every micro-step, "
               "linearizability by fixed linearization points (each adding / removing / querying call takes effect in one atomic critical section whose result is the Spec result on the abstract list), "
               "every traversal step calls a live callback and terminates. Partial: sequential consistency is assumed (the library's intentional unlocked reads are data races by the letter of the "
               "standard); the exactly-once clause of the visit rule for concurrent traversals is checked on the implementation (oracle), not proved. Correspondence: baton-scheduled runs replayed on the "
               "model; brute-force linearizability check of every recorded history.",
    level_note="baton scheduler (one real thread at a time) with the library's own Mutex/Atomic policy hooks and EVENTPP_VERIF_POINT markers; weak-memory effects cannot be exhibited",
    design_ref="5.3",
)
