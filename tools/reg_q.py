"""Registrations for the properties decided on the dispatcher/queue machine: C04 C05 C12 C13 (+C11 seq part)."""
import random

import suite_q
import suiterun
import vlib
from props import register
from suite_q import Variant


def q_suite(profile, n_quick, n_thorough, variants_quick, variants_thorough, rule="", nontrivial=None,
            max_ops_quick=45, max_ops_thorough=120, classifier=None, use_corpus=True):
    def run(ctx, search=False):
        quick = ctx.quick()
        variants = variants_quick if quick else variants_thorough
        n = (n_quick if quick else n_thorough) * (3 if search else 1)
        builds = vlib.build_many([v.job() for v in variants])
        exes = []
        for v, (ok, path, log) in zip(variants, builds):
            ctx.oblige("harness %s builds from /repo/include" % v.name, ok, log[-2000:])
            if ok:
                exes.append((v.name, path, v))
        if not exes:
            return
        if rule:
            ctx.rule = (ctx.rule + " | " if ctx.rule else "") + rule
        rng = random.Random("%d/%s/%s" % (ctx.seed, ctx.prop, profile))
        scripts = suiterun.load_corpus(ctx.prop, prefix="q_") if use_corpus else []
        for i in range(n):
            name = "%s_%s_%d_%d" % (ctx.prop, profile, ctx.seed, i)
            scripts.append((name, suite_q.gen_script(rng, name, profile, max_ops_quick if quick else max_ops_thorough)))
        suiterun.run_suite(ctx, "seq_q/" + profile, exes, scripts, suite_q.run_batch, suite_q.run_one, suite_q.judge,
                           suite_q.classify, nontrivial, prep=suite_q.with_cfg, classifier=classifier)
    return run


def nt_queue(feat, script, out):
    return feat["calls_listener"] >= 2 and feat["enqueue"] >= 3 and feat["recycled"] == 1


def nt_dispatch(feat, script, out):
    return feat["calls_listener"] >= 2 and feat["res_false"] >= 1


def nt_filter(feat, script, out):
    return feat["calls_filter"] >= 2 and feat["calls_listener"] >= 1


V = Variant

register(
    "C05",
    lean_modules=["EventppVerif.Properties.C05", "EventppVerif.Properties.C08q"],
    theorems=["Evp.Q." + t for t in ("C05_exactly_once", "C05_no_duplicates", "C05_exactly_once_runN", "C05_stored_not_consumed",
              "C05_all_consumed", "C05_args_intact", "C05_args_intact_step", "C05_dispatch_args", "C05_pred_args", "C05_fifo",
              "C05_queue_in_order", "C05_frame_in_order", "C05_enqueue_goes_to_queue", "C05_results", "C05_peek_take",
              "C05_reachable_runN", "C08_never_stuck")],
    suites=[q_suite("queue", 300, 8000,
                    [V("single", 0, 0, 0, 0), V("checked", 1, 1, 1, 0), V("single", 1, 0, 0, 0, getevent=1)],
                    [V("single", 0, 0, 0, 0), V("multi", 1, 1, 1, 0), V("spin", 0, 1, 0, 0), V("single", 1, 0, 1, 0, std="c++11"),
                     V("checked", 1, 1, 1, 0), V("single", 1, 0, 0, 0, getevent=1), V("checked", 0, 1, 0, 0, getevent=1, cxx="clang++-14")],
                    rule="random single-threaded queue histories (enqueue bursts, process/processOne/processIf/processUntil with scripted predicate verdicts, "
                         "peek/take/clear between partial processing, listeners/predicates/filters that enqueue, process, unlisten and observe emptyQueue), "
                         "<=45 (quick) / <=120 (thorough) top-level commands; distinct = distinct canonical output; non-trivial = >=2 listener calls, >=3 enqueues and at least one recycled slot",
                    nontrivial=nt_queue)],
)

register(
    "C04",
    lean_modules=["EventppVerif.Properties.C04", "EventppVerif.Properties.C04bridge"],
    fragments=["DispatchFrag"],
    theorems=[],
    suites=[q_suite("dispatch", 300, 6000,
                    [V("single", 1, 1, 0, 0), V("checked", 0, 0, 1, 0), V("single", 1, 1, 0, 0, cxx="clang++-14"),
                     V("single", 0, 0, 0, 0, getevent=1), V("checked", 1, 1, 0, 0, getevent=1, mapk=1), V("single", 1, 1, 0, 0, getevent=2)],
                    [V("single", 1, 1, 0, 0), V("multi", 0, 0, 1, 0), V("single", 1, 1, 0, 0, cxx="clang++-14"),
                     V("single", 1, 1, 1, 0, opt="-O2"), V("multi", 1, 0, 0, 0, std="c++11"), V("spin", 0, 1, 0, 0, cxx="clang++-14", opt="-O2"),
                     V("single", 0, 0, 0, 0, getevent=1), V("checked", 1, 1, 0, 0, getevent=1, mapk=1), V("checked", 0, 0, 1, 0),
                     V("multi", 1, 0, 0, 0, getevent=1, cxx="clang++-14"), V("single", 0, 1, 1, 0, getevent=1, std="c++11"),
                     V("single", 1, 1, 0, 0, getevent=2), V("multi", 1, 1, 0, 0, getevent=2, cxx="clang++-14", std="c++11")],
                    rule="random listener-management / dispatch histories over 1-4 event keys (int keys and std::string keys longer than SSO), "
                         "both argument-passing forms (event included in the prototype or not; auto-detected, and explicit ArgumentPassingInclude/ExcludeEvent "
                         "with a user getEvent policy that maps a raw key to the event and takes its parameters by value), hashed and ordered maps, "
                         "prototype by value / const reference, g++ and clang++ "
                         "(the two argument evaluation orders); distinct = distinct canonical output; non-trivial = >=2 listener calls and an inert (false) management result",
                    nontrivial=nt_dispatch)],
)

register(
    "C12",
    lean_modules=["EventppVerif.Properties.C12", "EventppVerif.Properties.C12cl"],
    theorems=[],
    suites=[q_suite("filter", 300, 6000,
                    [V("single", 0, 0, 0, 0), V("multi", 1, 1, 0, 0), V("single", 1, 1, 0, 0, cci=1), V("single", 0, 0, 0, 0, cci=1, getevent=1),
                     V("single", 0, 1, 0, 0, mixins=2)],
                    [V("single", 0, 0, 0, 0), V("multi", 1, 1, 0, 0), V("single", 0, 1, 1, 0), V("spin", 1, 0, 0, 0, cxx="clang++-14"),
                     V("single", 0, 1, 0, 0, mixins=2), V("multi", 1, 0, 0, 0, mixins=2, cci=1),
                     V("single", 1, 1, 0, 0, cci=1), V("single", 0, 0, 0, 0, cci=1, getevent=1), V("multi", 0, 0, 1, 0, cci=1, cxx="clang++-14"),
                     V("single", 0, 1, 0, 1, cci=1, std="c++11")],
                    rule="random histories of filter / listener additions and removals with direct and queued dispatches; filters rewrite the argument "
                         "(by-value prototype) and block by script; variants with a canContinueInvoking policy (parameters by value; per script `cfg cci M R`: "
                         "continue iff value % M != R, evaluated by the model on the possibly rewritten argument), with two mixins (a pass-through mixin listed before MixinFilter), "
                         "listeners registered through conditionalFunctor (run iff value % m == r) and argumentAdapter (own parameter type converted from the payload); distinct = distinct canonical output; non-trivial = >=2 filter calls and >=1 listener call",
                    nontrivial=nt_filter),
            # known finding D12: a mixin without the hook, listed before MixinFilter
            q_suite("filter", 25, 150, [V("single", 0, 0, 0, 0, mixins=3)], [V("single", 0, 0, 0, 0, mixins=3), V("multi", 1, 1, 0, 0, mixins=3)],
                    classifier=lambda script, why: "mixins:hookless-mixin-before-filter-runs-filters-twice" if "ev call filter" in why.split("model=")[0] else None,
                    use_corpus=True)],
)

register(
    "C13",
    lean_modules=["EventppVerif.Properties.C13"],
    theorems=[],
    suites=[q_suite("ordered", 300, 6000,
                    [V("single", 0, 0, 0, 1), V("multi", 0, 1, 0, 2)],
                    [V("single", 0, 0, 0, 1), V("multi", 0, 1, 0, 2), V("single", 1, 0, 1, 1), V("spin", 1, 1, 0, 2)],
                    rule="random queue histories with the OrderedQueueList policy (ascending and descending comparators, many duplicate keys, put-back by "
                         "processIf/processUntil, enqueue during processing); distinct = distinct canonical output; non-trivial as C05",
                    nontrivial=nt_queue)],
)
