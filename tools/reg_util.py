"""Registrations for the utility properties: C18 (AnyId), C17 (AnyData), C16, C15, C14."""
import hashlib
import itertools
import os
import random

import vlib
from props import register


# ------------------------------------------------------------------------------------------ C18

def anyid_oracle(lines, storage):
    """the property itself, checked on the implementation's answers for one id list.
    returns None or a description of the violated law"""
    dg, eq, lt, heq, fm, fu = {}, {}, {}, {}, {}, {}
    for l in lines:
        t = l.split()
        if t[0] == "dg":
            dg[int(t[1])] = (int(t[2]), int(t[3]))
        elif t[0] == "eq":
            eq[(int(t[1]), int(t[2]))] = t[3] == "1"
        elif t[0] == "lt":
            lt[(int(t[1]), int(t[2]))] = t[3] == "1"
        elif t[0] == "heq":
            heq[(int(t[1]), int(t[2]))] = t[3] == "1"
        elif t[0] == "fire_map":
            fm[int(t[1])] = [int(x) for x in t[3:]]
        elif t[0] == "fire_umap":
            fu[int(t[1])] = [int(x) for x in t[3:]]
    n = len(dg)
    R = range(n)
    for i in R:
        if not eq[(i, i)]:
            return "== not reflexive on id %d" % i
        if lt[(i, i)]:
            return "< not irreflexive on id %d" % i
    for i in R:
        for j in R:
            if eq[(i, j)] != eq[(j, i)]:
                return "== not symmetric on %d,%d" % (i, j)
            if eq[(i, j)] and not heq.get((i, j), False):
                return "equal ids %d,%d hash differently" % (i, j)
            incomparable = (not lt[(i, j)]) and (not lt[(j, i)])
            if incomparable != eq[(i, j)]:
                return "incomparability under < differs from == on %d,%d" % (i, j)
            if storage and dg[i][1] != dg[j][1] and eq[(i, j)]:
                return "ids %d,%d with different stored values compare equal" % (i, j)
            if not storage and eq[(i, j)] != (dg[i][0] == dg[j][0]):
                return "without storage, == differs from digest equality on %d,%d" % (i, j)
            if dg[i] == dg[j] and not eq[(i, j)]:
                return "ids %d,%d built from equal values compare unequal" % (i, j)
    for i in R:
        for j in R:
            for k in R:
                if eq[(i, j)] and eq[(j, k)] and not eq[(i, k)]:
                    return "== not transitive on %d,%d,%d" % (i, j, k)
                if lt[(i, j)] and lt[(j, k)] and not lt[(i, k)]:
                    return "< not transitive on %d,%d,%d" % (i, j, k)
    for i in R:
        want = [j for j in R if eq[(i, j)]]
        if fm.get(i) != want:
            return "ordered dispatcher: dispatching id %d reached %s, equal ids are %s" % (i, fm.get(i), want)
        if fu.get(i) != want:
            return "hashed dispatcher: dispatching id %d reached %s, equal ids are %s" % (i, fu.get(i), want)
    return None


def anyid_suite(ctx, search=False):
    quick = ctx.quick()
    jobs = [dict(src="gen_anyid.cpp", out_name="gen_anyid_s%d" % s, defines=["VH_STORAGE=%d" % s, "VH_K=5"]) for s in (0, 1)]
    builds = vlib.build_many(jobs)
    rng = random.Random("%d/C18" % ctx.seed)
    ncase = (40 if quick else 400) * (3 if search else 1)
    nid = 14 if quick else 24
    ctx.rule = ("random id lists (<=%d ids per list) over int / long / std::string values from a small pool (many equal values), digester reduced "
                "mod 5 (forced collisions), Storage supporting both == and < and EmptyAnyStorage; ALL pairs and triples of each list are "
                "checked; distinct = distinct id list; non-trivial = list contains a digest collision between different values and a pair of equal ids" % nid)
    for s, (ok, exe, log) in zip((0, 1), builds):
        ctx.oblige("harness gen_anyid[storage=%d] builds from /repo/include" % s, ok, log[-1500:])
        if not ok:
            continue
        text = ""
        cases = {}
        for c in range(ncase):
            name = "C18_%d_%d_%d" % (ctx.seed, s, c)
            ids = [(rng.choice([0, 1, 2]), rng.randint(0, 12)) for _ in range(rng.randint(3, nid))]
            cases[name] = ids
            text += "--- %s\n" % name + "".join("id %d %d\n" % p for p in ids)
        rc, out, err = vlib.sh([exe], input=text, timeout=300)
        impl = vlib.split_sections(out)
        if rc != 0:
            ctx.fail("violation", "gen_anyid exited with rc=%s: %s" % (rc, err[-500:]), text[:2000], "gen_anyid[storage=%d]" % s)
            continue
        mtext = ""
        for name in cases:
            mtext += "--- %s\ncfg storage %d\n" % (name, s) + "\n".join(l for l in impl.get(name, []) if l.startswith("dg ")) + "\n"
        rcm, model, errm = vlib.run_driver("anyid", mtext)
        for name, ids in cases.items():
            ctx.cov["evaluations"] += 1
            il = impl.get(name, [])
            why = anyid_oracle(il, bool(s)) if il else "no output"
            script = "--- %s\n# storage=%d\n" % (name, s) + "".join("id %d %d\n" % p for p in ids)
            if why:
                # shrink the id list
                def bad(sub):
                    t = "--- x\n" + "".join("id %d %d\n" % p for p in sub)
                    r, o, e = vlib.sh([exe], input=t, timeout=60)
                    sec = vlib.split_sections(o).get("x", [])
                    return bool(sec) and anyid_oracle(sec, bool(s)) is not None
                small = vlib.ddmin(ids, bad) if bad(ids) else ids
                t = "--- x\n" + "".join("id %d %d\n" % p for p in small)
                r, o, e = vlib.sh([exe], input=t, timeout=60)
                sec = vlib.split_sections(o).get("x", [])
                ctx.fail("violation", anyid_oracle(sec, bool(s)) or why, "--- %s\n# storage=%d  (type value): 0=int 1=std::string 2=long\n" % (name, s)
                         + "".join("id %d %d\n" % p for p in small), "gen_anyid[storage=%d]" % s, "\n".join(sec[:60]))
                continue
            if il != model.get(name):
                ctx.fail("correspondence", "model (regenerated operators) and implementation differ", script, "gen_anyid[storage=%d]" % s)
                continue
            ctx.cov["traces_validated"] += 1
            dgs = [tuple(l.split()[2:4]) for l in il if l.startswith("dg ")]
            coll = any(a[0] == b[0] and a[1] != b[1] for a, b in itertools.combinations(dgs, 2))
            dup = len(set(dgs)) < len(dgs)
            ctx.dist["ids"] += len(ids)
            ctx.dist["lists_with_collision"] += 1 if coll else 0
            ctx.dist["lists_with_equal_ids"] += 1 if dup else 0
            if (coll or not s) and dup:
                ctx.nontrivial_keys.add(hashlib.sha1(repr((s, ids)).encode()).hexdigest())
            if len(ctx.samples) < 2:
                ctx.samples.append({"suite": "gen_anyid[storage=%d]" % s, "ids(type,value)": ids, "output_head": il[:10]})


register(
    "C18",
    lean_modules=["EventppVerif.Properties.C18"],
    fragments=["AnyIdFrag"],
    theorems=["Evp.AnyId.C18_eq_equivalence", "Evp.AnyId.C18_lt_strict", "Evp.AnyId.C18_incomparable_iff_eq",
              "Evp.AnyId.C18_incomparable_trans", "Evp.AnyId.C18_eq_hash", "Evp.AnyId.C18_collision_distinct",
              "Evp.AnyId.C18_nostorage", "Evp.AnyId.C18_hash_digest_only", "Evp.AnyId.Cmp.none_coherent"],
    suites=[anyid_suite],
    level_text="Lean theorems over the operator definitions regenerated from anyid.h on every run: == is an equivalence, < a strict weak order "
               "whose incomparability is ==, equal ids hash equally, collisions stay distinct with a comparable Storage, digests decide without one - "
               "for all ids and every coherent Storage. Correspondence: real operators and real ordered/hashed dispatchers on generated id lists with forced collisions, "
               "all pairs and triples, compared with the model and with the laws themselves.",
    level_note="translator of the three operator bodies (tools/translate.py BoolExpr) is trusted; digests are modelled as naturals; std::map/unordered_map are trusted to be correct for coherent keys (and exercised)",
    design_ref="5.18",
    technique="Lean 4 proof over definitions regenerated from the source + differential run of the real operators",
)


# ------------------------------------------------------------------------------------------ C17

def anydata_oracle(script_lines, out_lines):
    """the property itself on one executed script: read-back values, isType, skip rules, no leak.
    (live counts in the middle depend on the representation and are compared with the model only)"""
    slots = {}
    queue = []
    exp = []
    for l in script_lines:
        t = l.split()
        if not t or t[0] in ("---", "cfg"):
            continue
        op = t[0]
        if op == "husk":
            a = int(t[1])
            if a not in slots or not slots[a][2]:
                exp.append("skip")
            else:
                exp.append("husk*")     # moved / none: representation, compared with the model; never "intact"
            continue
        if op in ("new", "newc"):
            a, ty, size, v = map(int, t[1:5])
            if a in slots:
                exp.append("skip")
            else:
                slots[a] = [ty, v, False]
                exp.append("ok")
        elif op == "move":
            b, a = int(t[1]), int(t[2])
            if b in slots or a not in slots:
                exp.append("skip")
            else:
                slots[b] = list(slots[a])
                slots[a][2] = True
                exp.append("ok")
        elif op == "get":
            a = int(t[1])
            exp.append("skip" if a not in slots or slots[a][2] else "val %d" % slots[a][1])
        elif op == "istype":
            a, ty = int(t[1]), int(t[2])
            exp.append("skip" if a not in slots or slots[a][2] else "bool %d" % (1 if slots[a][0] == ty else 0))
        elif op == "del":
            a = int(t[1])
            if a in slots:
                del slots[a]
                exp.append("ok")
            else:
                exp.append("skip")
        elif op == "qput":
            a = int(t[1])
            if a not in slots or slots[a][2]:
                exp.append("skip")
            else:
                queue.append(slots[a][1])
                slots[a][2] = True
                exp.append("ok")
        elif op == "qproc":
            for v in queue:
                exp.append("val %d type 1" % v)
            queue = []
            exp.append("ok")
    got = [l for l in out_lines if not l.startswith("live ") and not l.startswith("final-live")]
    for i in range(max(len(exp), len(got))):
        x = exp[i] if i < len(exp) else "<end>"
        y = got[i] if i < len(got) else "<end>"
        if x == "husk*":
            if y.startswith("husk intact"):
                return "output %d: a moved AnyData left its source object intact (it was copied, not moved): %r" % (i, y)
            if y.startswith("husk "):
                continue
        if x != y:
            return "output %d: expected %r, implementation gave %r" % (i, x, y)
    for l in out_lines:
        if l.startswith("live ") and int(l.split()[1]) < 0:
            return "an object was destroyed twice (live count %s)" % l.split()[1]
        if l.startswith("leak-at-reset"):
            return "payload objects leaked: " + l
    return None


def gen_anydata_script(rng, name, types, exhaustive_ty=None):
    lines = ["--- %s" % name]
    nslots = 6
    tys = list(range(len(types)))
    steps = rng.randint(6, 30)
    if exhaustive_ty is not None:
        # fixed scenario for one payload type: chain of moves, queue round trip, destruction
        ty = exhaustive_ty
        lines += ["new 0 %d %d %d" % (ty, types[ty], 10 + ty), "get 0", "istype 0 %d" % ty, "istype 0 %d" % ((ty + 1) % len(types))]
        lines += ["newc 7 %d %d %d" % (ty, types[ty], 20 + ty), "get 7", "istype 7 %d" % ty, "move 8 7", "husk 7", "get 8", "istype 8 %d" % ty, "del 7", "del 8"]
        for k in range(1, 6):
            lines += ["move %d %d" % (k, k - 1), "get %d" % k, "get %d" % (k - 1), "husk %d" % (k - 1)]
        lines += ["qput 5", "new 6 %d %d 3" % (ty, types[ty]), "qput 6", "qproc"] + ["del %d" % k for k in range(0, 7)]
        return "\n".join(lines) + "\n"
    for _ in range(steps):
        r = rng.random()
        a = rng.randrange(nslots)
        if r < 0.3:
            ty = rng.choice(tys)
            lines.append("%s %d %d %d %d" % (rng.choice(["new", "new", "newc"]), a, ty, types[ty], rng.randint(0, 100)))
        elif r < 0.55:
            lines.append("move %d %d" % (a, rng.randrange(nslots)))
        elif r < 0.64:
            lines.append("get %d" % a)
        elif r < 0.7:
            lines.append("husk %d" % a)
        elif r < 0.78:
            lines.append("istype %d %d" % (a, rng.choice(tys)))
        elif r < 0.88:
            lines.append("del %d" % a)
        elif r < 0.96:
            lines.append("qput %d" % a)
        else:
            lines.append("qproc")
    lines.append("qproc")
    lines += ["del %d" % k for k in range(nslots)]
    return "\n".join(lines) + "\n"


def anydata_suite(ctx, search=False):
    quick = ctx.quick()
    caps = [1, 16, 17, 24, 64]
    jobs = [dict(src="gen_anydata.cpp", out_name="gen_anydata_c%d" % c, defines=["VH_CAP=%d" % c]) for c in caps]
    if not quick:
        jobs += [dict(src="gen_anydata.cpp", out_name="gen_anydata_c%d_11" % c, defines=["VH_CAP=%d" % c], std="c++11", cxx="clang++-14") for c in (16, 24)]
        caps = caps + [16, 24]
    builds = vlib.build_many(jobs)
    ctx.rule = ("for every capacity in {1,16,17,24,64} and every payload type (Blob<N>, N in 1..80 around each capacity, and move-only shared_ptr owners): a fixed "
                "scenario (construct, read, isType, chain of 5 moves, queue round trip, destruction) - exhaustive in the listed sizes - plus random scripts over 6 slots; "
                "distinct = distinct (capacity, script); non-trivial = script moves a live AnyData at least once and reads a value back")
    rng = random.Random("%d/C17" % ctx.seed)
    for cap, (ok, exe, log) in zip(caps, builds):
        ctx.oblige("harness %s builds from /repo/include" % os.path.basename(exe), ok, log[-1500:])
        if not ok:
            continue
        rc, o, e = vlib.sh([exe, "--types"], timeout=30)
        types = []
        szl = 16
        for l in o.splitlines():
            t = l.split()
            if t[0] == "largedata":
                szl = int(t[1])
            else:
                types.append(int(t[1]))
        scripts = []
        for ty in range(len(types)):
            scripts.append(gen_anydata_script(rng, "C17_c%d_ty%d" % (cap, ty), types, exhaustive_ty=ty))
        for i in range((60 if quick else 1500) * (3 if search else 1)):
            scripts.append(gen_anydata_script(rng, "C17_c%d_r%d_%d" % (cap, ctx.seed, i), types))
        text = "".join(scripts)
        rc, out, err = vlib.run_harness(exe, text, timeout=300)
        rcm, model, errm = vlib.run_driver("anydata", "cfg cap %d\ncfg szlarge %d\n" % (cap, szl) + text)
        if rc != 0:
            ctx.fail("violation", "gen_anydata (cap %d) exited with rc=%s: %s" % (cap, rc, err[-800:]), "", os.path.basename(exe))
        for sc in scripts:
            name = sc.splitlines()[0].split()[1]
            ctx.cov["evaluations"] += 1
            il = out.get(name)
            if il is None:
                continue
            if name == list(out)[-1]:
                il = [l for l in il if not l.startswith("final-live")]
            why = anydata_oracle(sc.splitlines(), il)
            if why:
                def bad(sub):
                    t = "--- x\n" + "\n".join(sub) + "\n"
                    r, oo, ee = vlib.run_harness(exe, t, timeout=30)
                    sec = [l for l in oo.get("x", []) if not l.startswith("final-live")]
                    return r != 0 or anydata_oracle(sub, sec) is not None
                body = sc.splitlines()[1:]
                small = vlib.ddmin(body, bad) if bad(body) else body
                ctx.fail("violation", why, "--- %s\n# AnyData<%d>; op a ty size val\n%s\n" % (name, cap, "\n".join(small)), os.path.basename(exe))
                continue
            ml = [l for l in model.get(name, []) if not l.startswith("final-live")]
            if il != ml:
                d = next((i for i in range(max(len(il), len(ml))) if (il[i] if i < len(il) else None) != (ml[i] if i < len(ml) else None)), -1)
                ctx.fail("correspondence", "ledger/outputs differ from the model at line %d: impl=%r model=%r" % (
                    d, il[d] if d < len(il) else None, ml[d] if d < len(ml) else None), sc, os.path.basename(exe))
                continue
            ctx.cov["traces_validated"] += 1
            ctx.dist["ops"] += len(sc.splitlines()) - 1
            if "move" in sc and any(l.startswith("val ") for l in il):
                ctx.nontrivial_keys.add(hashlib.sha1(("%d" % cap + sc).encode()).hexdigest())
            if len(ctx.samples) < 2 and "_r" in name:
                ctx.samples.append({"suite": os.path.basename(exe), "script": sc.splitlines(), "output_head": il[:12]})
        # final leak check of the whole process
        last = list(out)[-1] if out else None
        if last and any(l.startswith("final-live") and l.split()[1] != "0" for l in out[last]):
            ctx.fail("violation", "payload objects still alive at exit (cap %d)" % cap, "", os.path.basename(exe))


register(
    "C17",
    lean_modules=["EventppVerif.Properties.C17"],
    fragments=["AnyDataFrag"],
    theorems=["Evp.AnyData.C17_partition", "Evp.AnyData.C17_ctor_total", "Evp.AnyData.C17_step_inv", "Evp.AnyData.C17_run_inv",
              "Evp.AnyData.C17_no_leak", "Evp.AnyData.C17_value", "Evp.AnyData.C17_move", "Evp.AnyData.C17_size_independent",
              "Evp.AnyData.C17_size_independent_init"],
    suites=[anydata_suite],
    level_text="Lean theorems over the size split regenerated from anydata.h: exactly one constructor is enabled for every size and capacity; ledger invariant "
               "(live payload objects = objects held) for every operation sequence, hence exactly-once destruction and no leak; read-back and move laws. "
               "Partial: placement new / alignment / function-pointer identity are C++ mechanics outside the model; they are exercised by the ASan/UBSan run over every payload size around every capacity.",
    level_note="translator regexes for the two enable_if conditions, maxSize, move/destroy shape are trusted; over-aligned payloads are outside the property's quantifier",
    design_ref="5.17",
    technique="Lean 4 proof over definitions regenerated from the source + differential ledger run, exhaustive in payload size",
)


# ------------------------------------------------------------------------------------------ C14

def gen_heter_script(rng, name, max_ops=35, ncb=5, lvalue_enqueue=False, inc=False):
    """ncb: number of callback kinds of the harness variant; argument kind 6 (a Big lvalue) is always dispatched
    directly, and enqueued only if lvalue_enqueue (on the variant with a non-const reference prototype that is
    the known finding D10)"""
    if inc:
        return gen_heter_inc_script(rng, name, max_ops)
    lines = ["--- %s" % name]
    nk = rng.randint(1, 2)
    issued = 0
    owner = {}
    for _ in range(rng.randint(6, max_ops)):
        r = rng.random()
        k = rng.randrange(nk)
        if rng.random() < 0.14:
            # the stand-alone HeterCallbackList (event key 7 of the model); a callback whose id ends in 8 assigns an
            # empty list to it while it runs
            r2 = rng.random()
            if r2 < 0.5:
                kind = rng.randrange(ncb)
                lines.append("do hlappend %d %d" % (kind, kind * 100 + rng.choice([1, 2, 3, 8, 8])))
                owner[issued] = 7
                issued += 1
            elif r2 < 0.9:
                lines.append("do hlinvoke %d %d" % (rng.randrange(7), rng.randint(0, 20)))
            else:
                mine = [h for h, o in owner.items() if o == 7]
                lines.append("do hremove 7 %d" % (rng.choice(mine) if mine and rng.random() < 0.85 else issued + rng.randint(0, 2)))
            continue
        if r < 0.22:
            kind = rng.randrange(ncb)
            lines.append("do hlisten %d %d %d" % (k, kind, kind * 100 + rng.randint(1, 9)))
            owner[issued] = k
            issued += 1
        elif r < 0.28:
            # a handle is only used with the event it was registered for (anything else is outside the property)
            mine = [h for h, o in owner.items() if o == k]
            lines.append("do hremove %d %d" % (k, rng.choice(mine) if mine and rng.random() < 0.85 else issued + rng.randint(0, 2)))
        elif r < 0.40:
            lines.append("do hdispatch %d %d %d" % (k, rng.randrange(7), rng.randint(0, 20)))
        elif r < 0.70:
            lines.append("do henqueue %d %d %d" % (k, rng.randrange(7 if lvalue_enqueue else 6), rng.randint(0, 20)))
        elif r < 0.73:
            lines.append("do hcopy")
        elif r < 0.78:
            lines.append("do hprocessone")
        elif r < 0.86:
            lines.append("do hprocess")
        else:
            m = rng.randint(1, 3)
            lines.append("do hprocessif %d %d %d" % (rng.randrange(4), m, rng.randrange(m)))
    lines.append("do hprocess")
    return "\n".join(lines) + "\n"


def gen_heter_inc_script(rng, name, max_ops=35):
    """event-included passing form (harness/seq_heter_inc.cpp): kinds 0 = (event), 1 = (event, int); no spawning callback ids, no hcopy"""
    lines = ["--- %s" % name]
    nk = rng.randint(1, 2)
    issued = 0
    owner = {}
    for _ in range(rng.randint(6, max_ops)):
        r = rng.random()
        k = rng.randrange(nk)
        if r < 0.22:
            kind = rng.randrange(2)
            lines.append("do hlisten %d %d %d" % (k, kind, kind * 100 + rng.randint(1, 8)))
            owner[issued] = k
            issued += 1
        elif r < 0.28:
            mine = [h for h, o in owner.items() if o == k]
            lines.append("do hremove %d %d" % (k, rng.choice(mine) if mine and rng.random() < 0.85 else issued + rng.randint(0, 2)))
        elif r < 0.42:
            lines.append("do hdispatch %d %d %d" % (k, rng.randrange(2), rng.randint(0, 20)))
        elif r < 0.72:
            lines.append("do henqueue %d %d %d" % (k, rng.randrange(2), rng.randint(0, 20)))
        elif r < 0.80:
            lines.append("do hprocessone")
        elif r < 0.88:
            lines.append("do hprocess")
        else:
            m = rng.randint(1, 3)
            lines.append("do hprocessif %d %d %d" % (rng.randrange(2), m, rng.randrange(m)))
    lines.append("do hprocess")
    return "\n".join(lines) + "\n"


def heter_suite(ctx, search=False):
    quick = ctx.quick()
    jobs = [dict(src="seq_heter.cpp", out_name="seq_heter_o%d" % o, defines=["VH_ORDER=%d" % o]) for o in (0, 1, 2)]
    jobs.append(dict(src="seq_heter_inc.cpp", out_name="seq_heter_inc"))
    if not quick:
        jobs.append(dict(src="seq_heter.cpp", out_name="seq_heter_o0_clang11", defines=["VH_ORDER=0"], cxx="clang++-14", std="c++11"))
    builds = vlib.build_many(jobs)
    ctx.rule = ("random histories on HeterEventQueue over 5 prototypes (void(), void(int), void(const std::string&), void(const Big&) with Big a 70+ byte non-trivial type, void(long) "
"overlapping with void(int)), two listing orders, a third list with a non-const reference prototype void(Big&) listed before void(const Big&), "
                "and the event-included passing form (ArgumentPassingIncludeEvent) with a long std::string event handed over as an rvalue; copies of the queue (hcopy) stay independent; "
                "callbacks / arguments / predicates of every kind incl. convertible ones (long, short -> first listed match) and lvalue arguments; "
                "queued events of different prototypes in recycled slots; processIf with predicates of every prototype; the library's own prototype selection is compared with "
                "first-match over the CanInvoke matrix measured from the compiler; ASan/UBSan on; distinct = distinct canonical output; "
                "non-trivial = a processIf over a queue holding events of at least two prototypes")
    rng = random.Random("%d/C14" % ctx.seed)
    n = (250 if quick else 6000) * (3 if search else 1)
    import suiterun
    corpus = [t for (_, t) in suiterun.load_corpus("C14")]
    scripts_std = corpus + [gen_heter_script(rng, "C14_%d_%d" % (ctx.seed, i), lvalue_enqueue=True) for i in range(n)]
    # variant o2: callback kind 5 (Big&) exists; lvalue enqueues (known finding D10) only in every sixth script
    scripts_o2 = corpus + \
                 [gen_heter_script(rng, "C14o2_%d_%d" % (ctx.seed, i), ncb=6, lvalue_enqueue=(i % 6 == 0)) for i in range(n)]
    d10_reported = False
    for (ok, exe, log), job in zip(builds, jobs):
        ctx.oblige("harness %s builds from /repo/include" % job["out_name"], ok, log[-1500:])
        if not ok:
            continue
        o2 = job["out_name"] == "seq_heter_o2"
        scripts = scripts_o2 if o2 else scripts_std
        if job["out_name"] == "seq_heter_inc":
            # ArgumentPassingIncludeEvent with a long std::string event passed as an rvalue
            scripts = [gen_heter_script(rng, "C14inc_%d_%d" % (ctx.seed, i), inc=True) for i in range(n // 2)]
        rc, mat, e = vlib.sh([exe, "--matrix"], timeout=30)
        B = 200
        for off in range(0, len(scripts), B):
            chunk = scripts[off:off + B]
            text = "".join(chunk)
            rc, out, err = vlib.run_harness(exe, text, timeout=300)
            rcm, model, errm = vlib.run_driver("heter", mat + text)
            crashed = rc != 0
            for sc in chunk:
                name = sc.splitlines()[0].split()[1]
                ctx.cov["evaluations"] += 1
                il = out.get(name)
                why = None
                if crashed and (il is None or name == list(out)[-1]):
                    r1, o1, e1 = vlib.run_harness(exe, sc, timeout=60)
                    il = o1.get(name)
                    if r1 != 0:
                        why = "implementation crashed (rc=%s): %s" % (r1, (e1 or "")[-700:])
                ml = model.get(name)
                if why is None:
                    if il is None or ml is None:
                        continue
                    il2 = [l for l in il if not l.startswith("final-big")]
                    ml2 = [l for l in ml if not l.startswith("final-big")]
                    if il2 != ml2:
                        d = next(i for i in range(max(len(il2), len(ml2))) if (il2[i] if i < len(il2) else None) != (ml2[i] if i < len(ml2) else None))
                        why = "line %d implementation=%r model=%r" % (d, il2[d] if d < len(il2) else None, ml2[d] if d < len(ml2) else None)
                maybe_d10 = o2 and why and any(l.startswith("do henqueue") and l.split()[3] == "6" for l in sc.splitlines())
                if why and maybe_d10 and d10_reported:
                    # one more script with an lvalue enqueue on the non-const reference variant: the finding is
                    # reported (and classified on its minimal form) once; these scripts do not use up the report cap
                    ctx.cov["d10_scripts"] += 1
                    continue
                if why:
                    ctx.cov["failures"] += 1
                    if ctx.cov["failures"] <= 3 or maybe_d10:
                        def bad(sub):
                            t = "--- x\n" + "\n".join(sub) + "\n"
                            r2, o2, e2 = vlib.run_harness(exe, t, timeout=60)
                            rm, m2, em = vlib.run_driver("heter", mat + t)
                            a = [l for l in (o2.get("x") or []) if not l.startswith("final-big")]
                            b = [l for l in (m2.get("x") or []) if not l.startswith("final-big")]
                            return r2 != 0 or a != b
                        body = sc.splitlines()[1:]
                        small = vlib.ddmin(body, bad) if bad(body) else body
                        ctx.fail("violation", why, "--- %s\n# %s ; hlisten K cbkind cb | henqueue K argkind v | hprocessif predkind m r\n%s\n" % (name, job["out_name"], "\n".join(small)),
                                 job["out_name"])
                        ops = [l.split()[1:] for l in small if l.startswith("do ")]
                        if o2 and ops and all(t[0] in ("hlisten", "hprocess", "hprocessone") or (t[0] == "henqueue" and t[2] == "6") for t in ops) \
                                and any(t[0] == "henqueue" for t in ops):
                            # minimal form: listeners, enqueues of a Big lvalue, processing - nothing else
                            ctx.failures[-1]["classifier"] = "heter.enqueue:lvalue-selects-nonconst-ref-prototype"
                            ctx.cov["failures"] -= 1
                            ctx.cov["d10_scripts"] += 1
                            d10_reported = True
                    continue
                ctx.cov["traces_validated"] += 1
                tags = set()
                for l in il:
                    if l.startswith("q :"):
                        tags |= set(x.split(":")[1] for x in l.split()[2:])
                if "hprocessif" in sc and len(tags) >= 2:
                    ctx.nontrivial_keys.add(hashlib.sha1(("\n".join(il)).encode()).hexdigest())
                if len(ctx.samples) < 2 and len(il) > 30:
                    ctx.samples.append({"suite": job["out_name"], "script": sc.splitlines(), "output_head": il[:14]})
        for l in (model.get(list(model)[0]) if model else []):
            if l.startswith("selection-mismatch"):
                ctx.fail("violation", l, "", job["out_name"])


register(
    "C14",
    lean_modules=["EventppVerif.Properties.C14", "EventppVerif.Properties.C14s"],
    suites=[heter_suite],
    level_text="Lean theorems on the heterogeneous model (first listed callable prototype is selected; an invocation/dispatch/enqueue reaches exactly the callbacks bound to that prototype; "
               "queued events of all prototypes are consumed exactly once in FIFO order; processIf touches only events filed under prototypes its predicate is callable with and never reads a slot as another type; "
               "listeners that enqueue while a processing call runs (stepS) and a callback that empties its own list while it is invoked (stepC: the invocation in flight still reaches every callback it started on, once, in order)) "
               "+ correspondence of HeterEventQueue and of a stand-alone HeterCallbackList with the model on generated histories under ASan, with the callable matrix measured from the compiler.",
    level_note="the C++ overload/convertibility rules are not modelled: the callable matrix is measured by the harness (CanInvoke) for a fixed universe of argument types; slot re-typing is C++ mechanics exercised with ASan",
    design_ref="5.14",
)
