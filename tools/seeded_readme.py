#!/usr/bin/env python3
"""tools/seeded_readme.py — writes seeded/README.md from seeded/*/meta.json"""
import json
import os

ROOT = os.path.dirname(os.path.dirname(os.path.abspath(__file__)))
SD = os.path.join(ROOT, "seeded")


def first_line(txt):
    for l in txt.splitlines():
        l = l.strip(" =-")
        if l:
            return l
    return ""


def main():
    rows = []
    for d in sorted(os.listdir(SD)):
        mp = os.path.join(SD, d, "meta.json")
        if not os.path.exists(mp):
            continue
        m = json.load(open(mp))
        notes = os.path.join(SD, d, "agent_notes.txt")
        title = first_line(open(notes).read()) if os.path.exists(notes) else ""
        checks = m.get("checks_output", [])
        with_input = [c.split()[0] for c in checks if "VIOLATION(input)" in c]
        no_input = [c.split()[0] for c in checks if "VIOLATION(no-input)" in c]
        quiet = [c.split()[0] for c in checks if c.rstrip().endswith("-")]
        rows.append((d, m["breaks_property"], title, m.get("confirmed"), with_input, no_input, quiet, m.get("strengthened", "")))
    out = ["# Seeded changes", "",
           "Each directory holds a change to wqking/eventpp produced by an independent sub-agent that was given only the text of one",
           "property and a scratch worktree (nothing from /verif): `patch.diff` (relative to the pinned tree incl. the fix: commits),",
           "`demo.cpp` (prints PASS on the pristine tree, FAIL on the changed one), `agent_notes.txt` (the agent's description and what the",
           "change needs in order to manifest), `confirm.json` (my own confirmation in a scratch worktree: patch applies, the 299-test suite",
           "passes, demo PASS / FAIL) and `meta.json` (which property, what was run, which checks reported it).",
           "None of these changes is committed to /repo. To replay one: `python3 tools/try_seeded.py seeded/<id>/patch.diff C01,C02`",
           "(applies the patch to /repo, runs the checks, `git checkout -- .` afterwards).", "",
           "`input` = the check printed VIOLATION with a concrete failing input (replay); `no-input` = a theorem / bridge / correspondence",
           "obligation broke and the search found no input (line ends `no-failing-input-found`); `quiet` = related check that does not see the change",
           "(expected when the change is outside that property).", "",
           "| id | property | change | confirmed | caught with input by | caught without input by | related checks that stay quiet |",
           "|---|---|---|---|---|---|---|"]
    for d, p, t, c, wi, ni, q, st in rows:
        out.append("| %s | %s | %s | %s | %s | %s | %s |" % (d, p, t.replace("|", "/")[:160], "yes" if c else "NO", " ".join(wi) or "-", " ".join(ni) or "-", " ".join(q) or "-"))
    extra = os.path.join(SD, "NOTES.md")
    if os.path.exists(extra):
        out += ["", open(extra).read()]
    open(os.path.join(SD, "README.md"), "w").write("\n".join(out) + "\n")
    missed = [r[0] for r in rows if r[3] and r[1] not in r[4] + r[5]]
    print("changes:", len(rows), "not caught by own property's check:", missed)
    none = [r[0] for r in rows if r[3] and not (r[4] or r[5])]
    print("caught by no check:", none)


if __name__ == "__main__":
    main()
