"""Correspondence suite for eventpp::CallbackList (H-seq): generated scripts are run on the real
library (harness/seq_cl.cpp built from /repo now), on the Lean Model and on the Lean Spec; the
three outputs are compared and the raw pointer dumps of the implementation are checked against
the invariant the proofs rely on."""
import os
import random
from collections import Counter

import vlib

THREADINGS = {
    "single": "eventpp::SingleThreading",
    "multi": "eventpp::MultipleThreading",
    "spin": "eventpp::GeneralThreading<eventpp::SpinLock>",
}


def harness_jobs(variants=("single", "multi"), std="c++17", cxx="g++", opt="-O1", tag=""):
    jobs = []
    for v in variants:
        jobs.append(dict(src="seq_cl.cpp", out_name="seq_cl_%s%s" % (v, tag), std=std, cxx=cxx, opt=opt,
                         defines=["VH_THREADING=" + THREADINGS[v]]))
    return jobs


# ---------------------------------------------------------------------------------------------
# generator
# ---------------------------------------------------------------------------------------------

def _handle(rng, issued, inside=False):
    """mostly valid handles; separate streams of stale / never-issued / self-relative ones"""
    r = rng.random()
    if inside and r < 0.45:
        return rng.choice(["self", "self", "self+1", "self-1", "self+2", "self-2"])
    if issued == 0 or r > 0.93:
        return str(issued + rng.randint(0, 3))          # never issued (empty handle)
    return str(rng.randint(0, max(0, issued - 1 + (2 if inside else 0))))


def _cmd(rng, nl, issued, cbs, profile, inside=False, depth=0):
    l = rng.randrange(nl)
    w = {"append": 14, "prepend": 8, "insert": 14, "remove": 18, "owns": 6, "empty": 3,
         "invoke": 10 if depth < 3 else 0, "enum": 5 if depth < 3 else 0}
    if profile == "flat":
        pass
    if profile in ("wrap",):
        w["setcounter"] = 7
    if profile in ("copy",) and not inside:
        w["copy"] = 7
        w["move"] = 5
        w["swap"] = 5
    if inside:
        w["remove"] = 26
        w["insert"] = 18
        if depth >= 3:
            # entries that run on every call must not add callbacks (exponential growth)
            w["append"] = w["prepend"] = w["insert"] = 0
    ops = list(w)
    op = rng.choices(ops, [w[o] for o in ops])[0]
    if op in ("append", "prepend"):
        return "%s %d %d" % (op, l, rng.choice(cbs))
    if op == "insert":
        return "insert %d %d %s" % (l, rng.choice(cbs), _handle(rng, issued, inside))
    if op in ("remove", "owns"):
        return "%s %d %s" % (op, l, _handle(rng, issued, inside))
    if op == "empty":
        return "empty %d" % l
    if op in ("invoke", "enum"):
        return "%s %d %d" % (op, l, rng.randint(0, 9))
    if op == "setcounter":
        return "setcounter %d %d" % (l, rng.randint(0, 6))
    if op in ("copy", "move", "swap"):
        return "%s %d %d" % (op, l, rng.randrange(nl))
    raise AssertionError(op)


def gen_script(rng, name, profile, max_ops=40):
    nl = 1 if profile in ("flat", "reent", "wrap") and rng.random() < 0.7 else rng.randint(2, 3)
    ncb = rng.randint(2, 10)
    cbs = list(range(1, ncb + 1))
    lines = ["--- %s" % name, "lists %d" % nl]
    if profile != "flat":
        for cb in cbs:
            if rng.random() < 0.65:
                for nth in rng.sample(["0", "1", "2", "*"], rng.randint(1, 3)):
                    k = rng.choices([1, 2, 3, 4, 5], [30, 30, 20, 12, 8])[0]
                    # re-invocation only in entries for a specific call number, so every program terminates
                    d = 3 if (nth == "*" or rng.random() < 0.5) else 0
                    body = " ; ".join(_cmd(rng, nl, 12, cbs, profile, inside=True, depth=d) for _ in range(k))
                    lines.append("beh %d %s %d %s" % (cb, nth, 0 if rng.random() < 0.2 else 1, body))
    nops = rng.randint(5, max_ops)
    issued = 0
    for _ in range(nops):
        c = _cmd(rng, nl, issued, cbs, profile)
        if c.split()[0] in ("append", "prepend", "insert"):
            issued += 1
        lines.append("do " + c)
    # always finish by observing every list
    for l in range(nl):
        lines.append("do invoke %d 0" % l)
    return "\n".join(lines) + "\n"


# ---------------------------------------------------------------------------------------------
# running and judging
# ---------------------------------------------------------------------------------------------

def strip_impl(lines):
    """separate canonical lines from raw dumps"""
    canon = [l for l in lines if not (l.startswith("dump ") or l.startswith("nodes"))]
    dumps = [l for l in lines if l.startswith("dump ") or l.startswith("nodes") or l.startswith("state ")]
    return canon, dumps


def first_diff(a, b):
    for i in range(max(len(a), len(b))):
        x = a[i] if i < len(a) else "<end>"
        y = b[i] if i < len(b) else "<end>"
        if x != y:
            return i, x, y
    return None


def classify(script_text, canon):
    """features of one executed script, for the coverage statistics and the non-trivial rule"""
    f = Counter()
    depth_seen = 0
    cmds = []
    for line in script_text.splitlines():
        t = line.split()
        if t and t[0] == "do":
            cmds.append(t[1])
    f["ops"] = len(cmds)
    ncalls = sum(1 for l in canon if l.startswith("ev call"))
    f["calls"] = ncalls
    f["res_false"] = sum(1 for l in canon if l == "ev res false")
    f["res_true"] = sum(1 for l in canon if l == "ev res true")
    f["beh"] = sum(1 for l in script_text.splitlines() if l.startswith("beh "))
    f["wrap_cmds"] = script_text.count("setcounter")
    f["copy_cmds"] = sum(script_text.count(k) for k in ("do copy", "do move", "do swap"))
    last_state = [l for l in canon if l.startswith("state ")]
    f["final_nonempty"] = 1 if any(len(l.split(":", 1)[1].strip()) > 0 for l in last_state[-3:]) else 0
    return f


def run_batch(exe, scripts, names, timeout=120):
    """returns list of dict(name, script, impl, model, spec, impl_rc, stderr) for a batch"""
    text = "".join(scripts)
    rc_i, impl, err_i = vlib.run_harness(exe, text, timeout=timeout)
    rc_m, model, err_m = vlib.run_driver("model", text)
    rc_s, spec, err_s = vlib.run_driver("spec", text)
    res = []
    for n, s in zip(names, scripts):
        res.append(dict(name=n, script=s, impl=impl.get(n), model=model.get(n), spec=spec.get(n)))
    return res, (rc_i, err_i), (rc_m, err_m), (rc_s, err_s)


def run_one(exe, script, timeout=20):
    name = script.splitlines()[0].split()[1]
    res, i, m, s = run_batch(exe, [script], [name], timeout)
    return res[0], i


def judge(r, impl_status):
    """compare one script's three outputs. returns None if all agree, else a reason string.
    'violation:' prefix = the implementation disagrees with the Spec (the property statement);
    'corr:' prefix = implementation agrees with the Spec but not with the Model / invariant."""
    rc, err = impl_status
    if r["impl"] is None:
        return "violation: implementation produced no output for this script (crash/hang rc=%s) %s" % (rc, err[-400:])
    canon, _ = strip_impl(r["impl"])
    if r["spec"] is None or r["model"] is None:
        return "corr: driver produced no output"
    d = first_diff(canon, r["spec"])
    if d:
        return "violation: line %d impl=%r spec=%r" % d
    d = first_diff(r["model"], r["spec"])
    if d:
        return "corr: model differs from spec at line %d model=%r spec=%r" % d
    return None
