"""Correspondence suite for eventpp::CallbackList (H-seq): generated scripts are run on the real
library (harness/seq_cl.cpp built from /repo now), on the Lean Model and on the Lean Spec; the
three outputs are compared and the raw pointer dumps of the implementation are checked against
the invariant the proofs rely on."""
import os
import random
import re
from collections import Counter

import vlib

THREADINGS = {
    "single": "eventpp::SingleThreading",
    "multi": "eventpp::MultipleThreading",
    "spin": "eventpp::GeneralThreading<eventpp::SpinLock>",
    # harness/common.h: use-after-destruction of a mutex and self-deadlock are reported instead of going unnoticed / hanging
    "checked": "eventpp::GeneralThreading<CheckedMutex,std::atomic,std::condition_variable_any>",
}


# ScopedRemover's other specialisation: target = EventDispatcher / EventQueue (harness/seq_rem.cpp)
REM_TARGETS = {"remdisp": (1, "checked"), "remqueue": (2, "multi"), "remqueue_spin": (2, "spin")}


def harness_jobs(variants=("single", "multi"), std="c++17", cxx="g++", opt="-O1", tag=""):
    jobs = []
    for v in variants:
        if v in REM_TARGETS:
            tgt, thr = REM_TARGETS[v]
            jobs.append(dict(src="seq_rem.cpp", out_name="seq_rem_%s%s" % (v, tag), std=std, cxx=cxx, opt=opt,
                             defines=["VR_TARGET=%d" % tgt, "VH_THREADING=" + THREADINGS[thr]]))
            continue
        jobs.append(dict(src="seq_cl.cpp", out_name="seq_cl_%s%s" % (v, tag), std=std, cxx=cxx, opt=opt,
                         defines=["VH_THREADING=" + THREADINGS[v]]))
    return jobs


# ---------------------------------------------------------------------------------------------
# generator
# ---------------------------------------------------------------------------------------------

def _handle(rng, issued, inside=False):
    """mostly valid handles; separate streams of stale / never-issued / self-relative ones"""
    r = rng.random()
    if inside and r < 0.45:
        return rng.choice(["self", "self", "self+1", "self-1", "self+2", "self-2"])
    if issued == 0 or r > 0.93:
        return str(issued + rng.randint(0, 3))          # never issued (empty handle)
    return str(rng.randint(0, max(0, issued - 1 + (2 if inside else 0))))


def _cmd(rng, nl, issued, cbs, profile, inside=False, depth=0):
    l = rng.randrange(nl)
    w = {"append": 14, "prepend": 8, "insert": 14, "remove": 18, "owns": 6, "empty": 3,
         "invoke": 10 if depth < 3 else 0, "enum": 5 if depth < 3 else 0}
    if profile == "flat":
        pass
    if profile in ("wrap",):
        w["setcounter"] = 7
    if profile in ("copy",) and not inside:
        w["copy"] = 7
        w["move"] = 5
        w["swap"] = 5
    if inside:
        w["remove"] = 26
        w["insert"] = 18
        if depth >= 3:
            # entries that run on every call must not add callbacks (exponential growth)
            w["append"] = w["prepend"] = w["insert"] = 0
    ops = list(w)
    op = rng.choices(ops, [w[o] for o in ops])[0]
    if op in ("append", "prepend"):
        return "%s %d %d" % (op, l, rng.choice(cbs))
    if op == "insert":
        return "insert %d %d %s" % (l, rng.choice(cbs), _handle(rng, issued, inside))
    if op in ("remove", "owns"):
        return "%s %d %s" % (op, l, _handle(rng, issued, inside))
    if op == "empty":
        return "empty %d" % l
    if op in ("invoke", "enum"):
        return "%s %d %d" % (op, l, rng.randint(0, 9))
    if op == "setcounter":
        if rng.random() < 0.25:
            # half way round the 2^32 circle from the first callbacks' generation numbers: a comparison of the two
            # counters by signed distance (serial-number arithmetic) goes wrong exactly there
            return "setcounter %d %d" % (l, 2147483648 + rng.randint(-8, 3))
        return "setcounter %d %d" % (l, rng.randint(0, 6))
    if op in ("copy", "move", "swap"):
        return "%s %d %d" % (op, l, rng.randrange(nl))
    raise AssertionError(op)


def gen_counted_script(rng, name, max_ops=30):
    """CounterRemover / ConditionalRemover: wrapped listeners with every kind of trigger count, other listeners
    around them, wrapped listeners that re-invoke the list (nested triggers)"""
    nl = 1 if rng.random() < 0.7 else 2
    lines = ["--- %s" % name, "lists %d" % nl]
    plain = list(range(1, rng.randint(2, 5)))
    nwrapped = rng.randint(1, 5)
    wrapped = list(range(50, 50 + nwrapped))
    for cb in plain + wrapped:
        if rng.random() < 0.5:
            for nth in rng.sample(["0", "1", "2"], rng.randint(1, 2)):
                k = rng.randint(1, 3)
                cmds = []
                for _ in range(k):
                    r = rng.random()
                    l = rng.randrange(nl)
                    if r < 0.45:
                        cmds.append("invoke %d %d" % (l, rng.randint(0, 9)))
                    elif r < 0.6:
                        cmds.append("remove %d %s" % (l, rng.choice(["self", "self+1", "self-1", str(rng.randint(0, 8))])))
                    elif r < 0.8:
                        cmds.append("append %d %d" % (l, rng.choice(plain)))
                    else:
                        cmds.append("owns %d self" % l)
                lines.append("beh %d %s 1 %s" % (cb, nth, " ; ".join(cmds)))
    counts = [-2147483648, -3, -1, 0, 1, 1, 2, 2, 3, 5, 2147483647]
    pending = list(wrapped)
    rng.shuffle(pending)
    for _ in range(rng.randint(6, max_ops)):
        r = rng.random()
        l = rng.randrange(nl)
        if pending and r < 0.25:
            cb = pending.pop()
            if rng.random() < 0.6:
                lines.append("do counted %d %d %d" % (l, cb, rng.choice(counts)))
            else:
                m = rng.randint(1, 4)
                lines.append("do conditional %d %d %d %d" % (l, cb, m, rng.randrange(m)))
        elif r < 0.4:
            lines.append("do append %d %d" % (l, rng.choice(plain)))
        elif r < 0.5:
            lines.append("do remove %d %d" % (l, rng.randint(0, 10)))
        else:
            # (no forEach enumeration here: the machines number a callback's calls including enumeration visits,
            #  the real wrapper counts only invocations; enumerations are exercised by the other profiles)
            lines.append("do invoke %d %d" % (l, rng.randint(0, 9)))
    for l in range(nl):
        lines.append("do invoke %d 0" % l)
        lines.append("do invoke %d 1" % l)
    return "\n".join(lines) + "\n"


def gen_rem_script(rng, name, max_ops=40):
    """ScopedRemover histories over 2 lists and removers 0..2.  The generator tracks which list every
    handle belongs to and each remover's target, so that no handle is used on a list it does not
    belong to (that is outside every property)."""
    nl = 2
    lines = ["--- %s" % name, "lists %d" % nl]
    owner = {}          # handle id -> list
    target = {}         # live remover -> target list
    issued = 0
    gone = []           # handles detached directly (`remove`)

    def handle_for(l):
        mine = [h for h, o in owner.items() if o == l]
        if mine and rng.random() < 0.85:
            return rng.choice(mine)
        return issued + rng.randint(0, 2)

    for _ in range(rng.randint(6, max_ops)):
        r = rng.random()
        R = rng.randrange(3)
        if r < 0.12:
            l = rng.randrange(nl)
            lines.append("do rnew %d %d" % (R, l))
            if R not in target:
                target[R] = l
        elif r < 0.40:
            op = rng.choice(["rappend", "rappend", "rprepend", "rinsert"])
            if op == "rinsert":
                lines.append("do rinsert %d %d %d" % (R, rng.randint(1, 9), handle_for(target.get(R, 0))))
            else:
                lines.append("do %s %d %d" % (op, R, rng.randint(1, 9)))
            if R in target:
                owner[issued] = target[R]
                issued += 1
        elif r < 0.50:
            # also: a listener that was already detached directly, removed again through (one of) the removers
            mine_any = [h for h in owner]
            if mine_any and rng.random() < 0.3:
                h = rng.choice(mine_any)
                lines.append("do rremoveheld %d %d %d" % (R, owner[h], h))
                gone.append(h)
            elif gone and rng.random() < 0.35:
                h = rng.choice(gone)
                for RR in rng.sample(range(3), 3):
                    lines.append("do rremove %d %d" % (RR, h))
            else:
                # through the event's own key, an equivalent key (custom Map policy), or for another event
                lines.append("do %s %d %d" % (rng.choice(["rremove", "rremove", "rremoveeq", "rremoveother"]), R, rng.randint(0, max(0, issued))))
        elif r < 0.56:
            lines.append("do rreset %d" % R)
        elif r < 0.62:
            l = rng.randrange(nl)
            lines.append("do rtarget %d %d" % (R, l))
            if R in target:
                target[R] = l
        elif r < 0.70:
            S = rng.randrange(3)
            lines.append("do rmovector %d %d" % (R, S))
            if R not in target and S in target:
                target[R] = target[S]
        elif r < 0.80:
            S = rng.randrange(3)
            lines.append("do rmoveassign %d %d" % (R, S))
            if R in target and S in target:
                target[R] = target[S]
        elif r < 0.86:
            S = rng.randrange(3)
            lines.append("do rswap %d %d" % (R, S))
            if R in target and S in target:
                target[R], target[S] = target[S], target[R]
        elif r < 0.90:
            lines.append("do rdestroy %d" % R)
            target.pop(R, None)
        elif r < 0.94:
            l = rng.randrange(nl)
            lines.append("do append %d %d" % (l, rng.randint(1, 9)))
            owner[issued] = l
            issued += 1
        else:
            l = rng.randrange(nl)
            h = handle_for(l)
            lines.append("do remove %d %d" % (l, h))
            if h in owner:
                gone.append(h)
    for R in range(3):
        lines.append("do rdestroy %d" % R)
    return "\n".join(lines) + "\n"


def gen_script(rng, name, profile, max_ops=40):
    if profile == "counted":
        return gen_counted_script(rng, name, max_ops)
    if profile == "rem":
        return gen_rem_script(rng, name, max_ops)
    nl = 1 if profile in ("flat", "reent", "wrap") and rng.random() < 0.7 else rng.randint(2, 3)
    ncb = rng.randint(2, 10)
    cbs = list(range(1, ncb + 1))
    lines = ["--- %s" % name, "lists %d" % nl]
    if profile != "flat":
        for cb in cbs:
            if rng.random() < 0.65:
                for nth in rng.sample(["0", "1", "2", "*"], rng.randint(1, 3)):
                    k = rng.choices([1, 2, 3, 4, 5], [30, 30, 20, 12, 8])[0]
                    # re-invocation only in entries for a specific call number, so every program terminates
                    d = 3 if (nth == "*" or rng.random() < 0.5) else 0
                    body = " ; ".join(_cmd(rng, nl, 12, cbs, profile, inside=True, depth=d) for _ in range(k))
                    lines.append("beh %d %s %d %s" % (cb, nth, 0 if rng.random() < 0.2 else 1, body))
    nops = rng.randint(5, max_ops)
    issued = 0
    for _ in range(nops):
        c = _cmd(rng, nl, issued, cbs, profile)
        if c.split()[0] in ("append", "prepend", "insert"):
            issued += 1
        lines.append("do " + c)
    # always finish by observing every list
    for l in range(nl):
        lines.append("do invoke %d 0" % l)
    return "\n".join(lines) + "\n"


# ---------------------------------------------------------------------------------------------
# running and judging
# ---------------------------------------------------------------------------------------------

def strip_impl(lines):
    """separate canonical lines from raw dumps"""
    canon = [l for l in lines if not (l.startswith("dump ") or l.startswith("nodes"))]
    dumps = [l for l in lines if l.startswith("dump ") or l.startswith("nodes") or l.startswith("state ")]
    return canon, dumps


def first_diff(a, b):
    for i in range(max(len(a), len(b))):
        x = a[i] if i < len(a) else "<end>"
        y = b[i] if i < len(b) else "<end>"
        if x != y:
            return i, x, y
    return None


def classify(script_text, canon):
    """features of one executed script, for the coverage statistics and the non-trivial rule"""
    f = Counter()
    depth_seen = 0
    cmds = []
    for line in script_text.splitlines():
        t = line.split()
        if t and t[0] == "do":
            cmds.append(t[1])
    f["ops"] = len(cmds)
    ncalls = sum(1 for l in canon if l.startswith("ev call"))
    f["calls"] = ncalls
    f["res_false"] = sum(1 for l in canon if l == "ev res false")
    f["res_true"] = sum(1 for l in canon if l == "ev res true")
    f["beh"] = sum(1 for l in script_text.splitlines() if l.startswith("beh "))
    f["wrap_cmds"] = script_text.count("setcounter")
    f["copy_cmds"] = sum(script_text.count(k) for k in ("do copy", "do move", "do swap"))
    last_state = [l for l in canon if l.startswith("state ")]
    f["final_nonempty"] = 1 if any(len(l.split(":", 1)[1].strip()) > 0 for l in last_state[-3:]) else 0
    return f


def run_batch(exe, scripts, names, timeout=120):
    """returns list of dict(name, script, impl, model, spec, impl_rc, stderr) for a batch"""
    text = "".join(scripts)
    rc_i, impl, err_i = vlib.run_harness(exe, text, timeout=timeout)
    if is_rem_script(text):
        # ScopedRemover scripts run on Util/Removers.lean (one model; the lists are Spec lists)
        rc_m, model, err_m = vlib.run_driver("rem", text)
        rc_s, spec, err_s = rc_m, model, err_m
    else:
        rc_m, model, err_m = vlib.run_driver("model", text)
        rc_s, spec, err_s = vlib.run_driver("spec", text)
    # the proved structural invariant evaluated on the implementation's raw pointer dumps
    raw = "".join("--- %s\n%s\n" % (n, "\n".join(impl.get(n) or [])) for n in names)
    rc_v, inv, err_v = vlib.run_driver("inv", raw)
    res = []
    for n, s in zip(names, scripts):
        res.append(dict(name=n, script=s, impl=impl.get(n), model=model.get(n), spec=spec.get(n),
                        inv=[l for l in (inv.get(n) or []) if l.startswith("inv bad")]))
    return res, (rc_i, err_i), (rc_m, err_m), (rc_s, err_s)


def run_one(exe, script, timeout=8):
    name = script.splitlines()[0].split()[1]
    res, i, m, s = run_batch(exe, [script], [name], timeout)
    return res[0], i


def rem_oracle(script, canon):
    """property C15 itself on one executed ScopedRemover script (which ends by destroying every remover)"""
    cmds = [l.split()[1:] for l in script.splitlines() if l.startswith("do ")]
    res, states = [], []
    cur = None
    for l in canon:
        if l.startswith("ev res"):
            res.append(l.split()[2])
            states.append({})
        elif l.startswith("state ") and states:
            t = l.split(":", 1)
            states[-1][int(t[0].split()[1])] = [int(x.split(":")[0]) for x in t[1].split()]
    if len(res) < len(cmds):
        return "implementation stopped after %d of %d commands" % (len(res), len(cmds))
    via, direct, removed_direct = set(), set(), set()
    live_rem = set()
    resp = {}       # remover -> the listeners it is responsible for (added through it, or taken over by move / swap)
    for i, c in enumerate(cmds):
        r = res[i]
        R = int(c[1]) if len(c) > 1 and c[0].startswith("r") and c[1].lstrip("-").isdigit() else None
        ids_now = set(x for v in states[i].values() for x in v)
        ids_before = set(x for v in states[i - 1].values() for x in v) if i else set()
        if c[0] in ("rappend", "rprepend", "rinsert") and r.startswith("h"):
            via.add(int(r[1:]))
            resp.setdefault(R, set()).add(int(r[1:]))
        elif c[0] == "append" and r.startswith("h"):
            direct.add(int(r[1:]))
        elif c[0] == "remove" and r == "true":
            removed_direct.add(int(c[2]))
        elif c[0] == "rremoveheld":
            if r == "true":
                return "the remover reported that listener %s was attached although it had just been detached directly" % c[3]
        elif c[0] == "rremoveother":
            if r == "true":
                return "removal for another event reported that listener %s was attached" % c[2]
            if c[2].isdigit() and int(c[2]) in ids_before and int(c[2]) not in ids_now:
                return "removal for another event detached listener %s" % c[2]
        elif c[0] in ("rremove", "rremoveeq"):
            h = int(c[2])
            if r == "false" and h in ids_before and h in resp.get(R, ()):
                return "%s through remover %d reported that listener %d was not attached, but it was (and the remover is responsible for it)" % (c[0], R, h)
            if r == "true":
                resp.get(R, set()).discard(h)
            if r == "true" and h in ids_now:
                return "rremove reported success but listener %d is still attached" % h
            if r == "true" and h not in ids_before:
                return "rremove reported that listener %d was attached, but it was not (detached earlier)" % h
            if r == "false" and h in ids_before and h not in ids_now:
                return "rremove reported failure but detached listener %d" % h
        if r == "unit" and c[0] in ("rreset", "rtarget", "rdestroy"):
            resp[R] = set()
        if r == "unit" and c[0] in ("rmovector", "rmoveassign") and int(c[2]) != R:
            resp[R] = resp.get(int(c[2]), set())
            resp[int(c[2])] = set()
        if r == "unit" and c[0] == "rswap":
            resp[R], resp[int(c[2])] = resp.get(int(c[2]), set()), resp.get(R, set())
        if c[0] == "rnew" and r == "unit":
            live_rem.add(int(c[1]))
        if c[0] == "rmovector" and r == "unit":
            live_rem.add(int(c[1]))
        if c[0] == "rdestroy" and r == "unit":
            live_rem.discard(int(c[1]))
        if c[0] != "remove":
            gone = (ids_before & direct) - ids_now
            if gone:
                return "command %s detached listener(s) %s that were not added through a remover" % (" ".join(c), sorted(gone))
        if not live_rem:
            left = ids_now & via
            if left:
                return "no remover is alive but listener(s) %s added through a remover are still attached" % sorted(left)
    return None


def is_rem_script(text):
    return re.search(r"^do r(new|append|prepend|insert|remove|removeheld|reset|target|movector|moveassign|swap|destroy) ", text, re.M) is not None


def judge(r, impl_status):
    """compare one script's three outputs. returns None if all agree, else a reason string.
    'violation:' prefix = the implementation disagrees with the Spec (the property statement);
    'corr:' prefix = implementation agrees with the Spec but not with the Model / invariant."""
    rc, err = impl_status
    if r["impl"] is None:
        return "violation: implementation produced no output for this script (crash/hang rc=%s) %s" % (rc, err[-400:])
    canon, _ = strip_impl(r["impl"])
    if r["spec"] is None or r["model"] is None:
        return "corr: driver produced no output"
    wraps = 0
    model = []
    for l in r["model"]:
        if l.startswith("wraps "):
            wraps = int(l.split()[1])
        else:
            model.append(l)
    r = dict(r, model=model)
    if wraps > 0 and not is_rem_script(r["script"]):
        # a generation counter wrapped: invocations in progress at that moment may additionally call
        # callbacks added during them (C19); the pointer Model is the reference for such runs
        d = first_diff(canon, model)
        if d:
            return "violation: (run with a counter wrap) line %d impl=%r model=%r" % d
        return None
    d = first_diff(canon, r["spec"])
    if d and is_rem_script(r["script"]):
        # the Model detaches at once where the property allows "at the latest when the removers are gone":
        # a difference is a violation only if the property itself fails on the implementation's output
        why = rem_oracle(r["script"], canon)
        if why:
            return "violation: " + why
        return "corr: implementation differs from the ScopedRemover model at line %d impl=%r model=%r (the property's own oracle is satisfied)" % d
    if d:
        return "violation: line %d impl=%r spec=%r" % d
    d = first_diff(r["model"], r["spec"])
    if d:
        return "corr: model differs from spec at line %d model=%r spec=%r" % d
    if r.get("inv"):
        return "corr: results agree with the Spec but the implementation's pointer structure violates the invariant the proofs rely on: " + r["inv"][0]
    return None
