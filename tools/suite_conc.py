"""Correspondence suite for the concurrent queue (H-conc, harness/conc_q.cpp) against Conc/Queue.lean
(driver mode `conc`): random thread programs x seeded random schedules under the baton scheduler; the
global step order of the implementation is replayed on the model; results, final state and the
per-step tags must agree.  Property oracles on the implementation's own output: conservation (C06),
no lost wake-up in a terminal state (C07); C11 is evaluated by the driver along the replay."""
import os
import random
import re
from collections import Counter

import vlib

CONSUMERS = ["proc", "one", "ifE", "ifO", "untE", "untO", "take", "clear"]
# calls that put events back (processIf: the declined ones; processUntil: the first one the predicate
# stops at and everything behind it); C11 excludes them
PUTBACK = ("ifE", "ifO", "untE", "untO")


# calls the heterogeneous queue has too (harness variant VQ_HETER)
HETER_OK = ("enq", "proc", "one", "ifE", "ifO", "wait", "waitfor", "empty", "clear")


def gen_program(rng, profile):
    """list of thread programs (lists of call names)"""
    nt = rng.randint(2, 4)
    progs = []
    for t in range(nt):
        r = rng.random()
        p = []
        if profile == "wait" and (t == 0 or r < 0.35):
            for _ in range(rng.randint(1, 2)):
                p += [rng.choice(["wait", "wait", "waitfor"]), "proc"]
        elif r < 0.5 or (profile == "wait" and t == 1):
            # enqueuer, possibly inside (nested) DisableQueueNotify scopes
            depth = 0
            for _ in range(rng.randint(1, 3)):
                if rng.random() < (0.45 if profile == "wait" else 0.15) and depth < 2:
                    p.append("dqnb")
                    depth += 1
                p.append("enq")
                if depth and rng.random() < 0.5:
                    p.append("dqne")
                    depth -= 1
            p += ["dqne"] * depth
        else:
            choices = {"conserve": ["proc", "one", "ifE", "ifO", "untE", "untO", "take", "clear", "peek", "enq", "empty"],
                       "empty": ["proc", "one", "take", "clear", "empty", "empty", "enq"],
                       "wait": ["proc", "one", "take", "enq", "empty", "ifE", "ifO", "untE", "untO"]}[profile]
            for _ in range(rng.randint(1, 4)):
                p.append(rng.choice(choices))
        progs.append(p)
    if not any("enq" in p for p in progs):
        progs[-1] = ["enq", "enq"]
    return progs


def wf_for_c07(progs):
    for p in progs:
        depth = 0
        for i, c in enumerate(p):
            if c in ("wait", "waitfor") and (i + 1 >= len(p) or p[i + 1] != "proc"):
                return False
            if c == "dqnb":
                depth += 1
            if c == "dqne":
                depth -= 1
                if depth < 0:
                    return False
        if depth != 0:
            return False
    return True


def run_text(name, progs, seed, spur):
    return "--- %s\nseed %d\nspur %d\n" % (name, seed, spur) + "".join("thread %s\n" % " ".join(p) for p in progs)


def parse(section):
    d = dict(steps=[], notes=[], rets={}, queue=[], counters=None, consumed=[], parked=[], terminal=None, mismatch=[], cleared=None, c11bad=[])
    for l in section:
        t = l.split()
        if not t:
            continue
        if t[0] == "step":
            d["steps"].append(l)
        elif t[0] == "note":
            d["notes"].append(l)
        elif t[0] == "rets":
            d["rets"][int(t[1])] = t[3:]
        elif t[0] == "queue":
            d["queue"] = [int(x) for x in t[2:]]
        elif t[0] == "counters":
            d["counters"] = (int(t[1]), int(t[2]))
        elif t[0] == "consumed":
            d["consumed"].append((int(t[1]), t[2], int(t[3])))
        elif t[0] == "cleared":
            d["cleared"] = [int(x) for x in t[2:]]
        elif t[0] == "parked":
            d["parked"] = [int(x) for x in t[2:]]
        elif t[0] == "terminal":
            d["terminal"] = int(t[1])
        elif t[0] == "mismatch":
            d["mismatch"].append(l)
        elif t[0] == "c11bad":
            d["c11bad"].append(l)
    return d


def impl_oracles(progs, d):
    """property-level checks on the implementation's own output. returns (prop, message) or None"""
    for l in d["notes"]:
        if "waitfor-duration-altered" in l:
            return "C07", "waitFor handed the condition variable %s ns instead of the caller's 1500000 ns: it gives up before (or after) its time-out" % l.split()[-1]
    for l in d["steps"]:
        if "peek-copy-unlocked" in l:
            return "C06", "peekEvent copied the queued event while the queue mutex was not held: another thread can take / recycle that slot in between (thread %s)" % l.split()[1]
    n_enq_done = sum(1 for t, p in enumerate(progs) for i, c in enumerate(p) if c == "enq" and i < len(d["rets"].get(t, [])))
    ids = [c[0] for c in d["consumed"]]
    if len(set(ids)) != len(ids):
        return "C06", "an event was dispatched or taken more than once: %s" % sorted(x for x in ids if ids.count(x) > 1)
    both = set(ids) & set(d["queue"])
    if both:
        return "C06", "events %s are both consumed and still queued" % sorted(both)
    if len(set(d["queue"])) != len(d["queue"]):
        return "C06", "an event is queued twice: %s" % d["queue"]
    has_clear = any("clear" in p for p in progs)
    if d["terminal"] == 0 or not d["parked"]:
        all_done = all(len(d["rets"].get(t, [])) == len(p) for t, p in enumerate(progs))
        if all_done and not has_clear:
            missing = set(range(n_enq_done)) - set(ids) - set(d["queue"])
            if missing:
                return "C06", "events %s were enqueued but are neither queued nor consumed (lost)" % sorted(missing)
    # single consumer thread, no processIf: consumption order = enqueue order.  processUntil is allowed
    # (Lean: C06_order_single_consumer): it dispatches a prefix of what it swapped out and puts the rest
    # back in FRONT of the queue, so its dispatches count like those of process
    consumers = [t for t, p in enumerate(progs) if any(c in ("proc", "one", "take", "ifE", "ifO", "untE", "untO") for c in p)]
    if len(consumers) == 1 and not any(c in ("ifE", "ifO") for p in progs for c in p):
        seq = [c[0] for c in d["consumed"]]
        if seq != sorted(seq):
            return "C06", "single consumer consumed out of enqueue order: %s" % seq
    if d["terminal"] == 1 and d["parked"] and d["queue"] and d["counters"] and d["counters"][1] == 0 and wf_for_c07(progs):
        return "C07", "all remaining threads %s are blocked in wait while events %s are pending and notification is enabled" % (d["parked"], d["queue"])
    return None


def compare(di, dm):
    for k in ("rets", "queue", "counters", "parked"):
        if di[k] != dm[k]:
            return "%s: implementation %r, model %r" % (k, di[k], dm[k])
    if di["consumed"] != dm["consumed"]:
        return "consumed: implementation %r, model %r" % (di["consumed"], dm["consumed"])
    return None
