"""Correspondence suite for the concurrent queue (H-conc, harness/conc_q.cpp) against Conc/Queue.lean
(driver mode `conc`): random thread programs x seeded random schedules under the baton scheduler; the
global step order of the implementation is replayed on the model; results, final state and the
per-step tags must agree.  Property oracles on the implementation's own output: conservation (C06),
no lost wake-up in a terminal state (C07); C11 is evaluated by the driver along the replay."""
import os
import random
import re
from collections import Counter

import vlib

CONSUMERS = ["proc", "one", "ifE", "ifO", "untE", "untO", "take", "clear"]
# calls that put events back (processIf: the declined ones; processUntil: the first one the predicate
# stops at and everything behind it); C11 excludes them
PUTBACK = ("ifE", "ifO", "untE", "untO")


# calls the heterogeneous queue has too (harness variant VQ_HETER)
HETER_OK = ("enq", "proc", "one", "ifE", "ifO", "wait", "waitfor", "empty", "clear")


def gen_program(rng, profile):
    """list of thread programs (lists of call names)"""
    nt = rng.randint(2, 4)
    progs = []
    for t in range(nt):
        r = rng.random()
        p = []
        if profile == "wait" and (t == 0 or r < 0.35):
            for _ in range(rng.randint(1, 2)):
                p += [rng.choice(["wait", "wait", "waitfor"]), "proc"]
        elif r < 0.5 or (profile == "wait" and t == 1):
            # enqueuer, possibly inside (nested) DisableQueueNotify scopes
            depth = 0
            for _ in range(rng.randint(1, 3)):
                if rng.random() < (0.45 if profile == "wait" else 0.15) and depth < 2:
                    # the second object of a nest is sometimes a copy of the first
                    p.append("dqnc" if depth and rng.random() < 0.5 else "dqnb")
                    depth += 1
                if depth and rng.random() < 0.2:
                    p.append("dqna")
                p.append("enq")
                if depth and rng.random() < 0.5:
                    p.append("dqne")
                    depth -= 1
            p += ["dqne"] * depth
        else:
            choices = {"conserve": ["proc", "one", "ifE", "ifO", "untE", "untO", "take", "clear", "peek", "enq", "empty"],
                       "empty": ["proc", "one", "take", "clear", "empty", "empty", "enq"],
                       "wait": ["proc", "one", "take", "enq", "empty", "ifE", "ifO", "untE", "untO"]}[profile]
            for _ in range(rng.randint(1, 4)):
                p.append(rng.choice(choices))
        progs.append(p)
    if not any("enq" in p for p in progs):
        progs[-1] = ["enq", "enq"]
    return progs


def wf_for_c07(progs):
    for p in progs:
        depth = 0
        for i, c in enumerate(p):
            if c in ("wait", "waitfor") and (i + 1 >= len(p) or p[i + 1] != "proc"):
                return False
            if c in ("dqnb", "dqnc"):
                depth += 1
            if c == "dqne":
                depth -= 1
                if depth < 0:
                    return False
        if depth != 0:
            return False
    return True


def model_progs(progs):
    """the programs as the model sees them: a copy of a DisableQueueNotify is one more object (dqnb), a temporary
    assigned to a live one is an object that comes and goes (dqnb dqne)"""
    return [[x for c in p for x in {"dqnc": ["dqnb"], "dqna": ["dqnb", "dqne"]}.get(c, [c])] for p in progs]


def run_text(name, progs, seed, spur):
    return "--- %s\nseed %d\nspur %d\n" % (name, seed, spur) + "".join("thread %s\n" % " ".join(p) for p in progs)


def parse(section):
    d = dict(steps=[], notes=[], rets={}, queue=[], counters=None, consumed=[], parked=[], terminal=None, mismatch=[], cleared=None, c11bad=[], log=[])
    for l in section:
        t = l.split()
        if not t:
            continue
        if t[0] in ("step", "note", "mark"):
            d["log"].append(t)
        if t[0] == "step":
            d["steps"].append(l)
        elif t[0] == "note":
            d["notes"].append(l)
        elif t[0] == "rets":
            d["rets"][int(t[1])] = t[3:]
        elif t[0] == "queue":
            d["queue"] = [int(x) for x in t[2:]]
        elif t[0] == "counters":
            d["counters"] = (int(t[1]), int(t[2]))
        elif t[0] == "consumed":
            d["consumed"].append((int(t[1]), t[2], int(t[3])))
        elif t[0] == "cleared":
            d["cleared"] = [int(x) for x in t[2:]]
        elif t[0] == "parked":
            d["parked"] = [int(x) for x in t[2:]]
        elif t[0] == "terminal":
            d["terminal"] = int(t[1])
        elif t[0] == "mismatch":
            d["mismatch"].append(l)
        elif t[0] == "c11bad":
            d["c11bad"].append(l)
    return d


def c11_on_trace(progs, d):
    """C11 on the implementation's own trace (no model involved): an emptyQueue() that returned true must find every
    event whose enqueue had completed before the call began consumed.  A call is taken to begin at its first shared
    access and to be over at its last one (no other thread can tell the difference), an event counts as consumed when its
    listener has run / when takeEvent took it out under the lock.  Programs with clearEvents or with calls that put events
    back (the property excludes them) are not judged."""
    if any(c in PUTBACK or c == "clear" for p in progs for c in p):
        return None
    cur = {}          # thread -> dict(call, first, last)
    enq_done = {}     # gid -> index of the last step of its enqueue
    consumed_at = {}  # gid -> index
    last_cs = {}
    for i, t in enumerate(d["log"]):
        if t[0] == "mark" and t[2] == "begin":
            cur[t[1]] = dict(call=t[3], first=None, last=None)
        elif t[0] == "step":
            c = cur.get(t[1])
            if c is not None:
                if c["first"] is None:
                    c["first"] = i
                c["last"] = i
            if t[2] == "cs":
                last_cs[t[1]] = i
        elif t[0] == "note" and t[2] == "dispatched":
            consumed_at.setdefault(int(t[3]), i)
        elif t[0] == "note" and t[2] == "taken":
            consumed_at.setdefault(int(t[3]), last_cs.get(t[1], i))
        elif t[0] == "mark" and t[2] == "end":
            c = cur.pop(t[1], None)
            if c is None:
                continue
            if t[3] == "enq" and len(t) > 5 and int(t[5]) >= 0 and c["last"] is not None:
                enq_done[int(t[5])] = c["last"]
            if t[3] == "empty" and t[4] == "true" and c["first"] is not None:
                owed = sorted(g for g, at in enq_done.items() if at < c["first"] and not (g in consumed_at and consumed_at[g] < c["last"]))
                if owed:
                    return "C11", ("emptyQueue() on thread %s returned true although events %s, whose enqueue had completed before the call made its "
                                   "first access, were not consumed yet when it made its last one" % (t[1], owed))
    return None


def impl_oracles(progs, d):
    """property-level checks on the implementation's own output. returns (prop, message) or None"""
    r = c11_on_trace(progs, d)
    if r:
        return r
    wf = wf_for_c07(progs)
    progs = model_progs(progs)      # one result per model call
    for l in d["notes"]:
        if "waitfor-duration-altered" in l:
            return "C07", "waitFor handed the condition variable %s ns instead of the caller's 1500000 ns: it gives up before (or after) its time-out" % l.split()[-1]
    for l in d["steps"]:
        if "peek-copy-unlocked" in l:
            return "C06", "peekEvent copied the queued event while the queue mutex was not held: another thread can take / recycle that slot in between (thread %s)" % l.split()[1]
    n_enq_done = sum(1 for t, p in enumerate(progs) for i, c in enumerate(p) if c == "enq" and i < len(d["rets"].get(t, [])))
    ids = [c[0] for c in d["consumed"]]
    if len(set(ids)) != len(ids):
        return "C06", "an event was dispatched or taken more than once: %s" % sorted(x for x in ids if ids.count(x) > 1)
    both = set(ids) & set(d["queue"])
    if both:
        return "C06", "events %s are both consumed and still queued" % sorted(both)
    if len(set(d["queue"])) != len(d["queue"]):
        return "C06", "an event is queued twice: %s" % d["queue"]
    has_clear = any("clear" in p for p in progs)
    if d["terminal"] == 0 or not d["parked"]:
        all_done = all(len(d["rets"].get(t, [])) == len(p) for t, p in enumerate(progs))
        if all_done and not has_clear:
            missing = set(range(n_enq_done)) - set(ids) - set(d["queue"])
            if missing:
                return "C06", "events %s were enqueued but are neither queued nor consumed (lost)" % sorted(missing)
    # single consumer thread, no processIf: consumption order = enqueue order.  processUntil is allowed
    # (Lean: C06_order_single_consumer): it dispatches a prefix of what it swapped out and puts the rest
    # back in FRONT of the queue, so its dispatches count like those of process
    consumers = [t for t, p in enumerate(progs) if any(c in ("proc", "one", "take", "ifE", "ifO", "untE", "untO") for c in p)]
    if len(consumers) == 1 and not any(c in ("ifE", "ifO") for p in progs for c in p):
        seq = [c[0] for c in d["consumed"]]
        if seq != sorted(seq):
            return "C06", "single consumer consumed out of enqueue order: %s" % seq
    # DisableQueueNotify objects alive at the end, counted from the calls that were made (not from the library's counter)
    live = 0
    for t, p in enumerate(progs):
        for c in p[:len(d["rets"].get(t, []))]:
            live += {"dqnb": 1, "dqne": -1}.get(c, 0)
    if d["terminal"] == 1 and d["parked"] and d["queue"] and live == 0 and wf:
        return "C07", "all remaining threads %s are blocked in wait while events %s are pending and notification is enabled" % (d["parked"], d["queue"])
    return None


def compare(di, dm):
    for k in ("rets", "queue", "counters", "parked"):
        if di[k] != dm[k]:
            return "%s: implementation %r, model %r" % (k, di[k], dm[k])
    if di["consumed"] != dm["consumed"]:
        return "consumed: implementation %r, model %r" % (di["consumed"], dm["consumed"])
    return None
