"""H-conc suite for CallbackList (C03): random thread programs x seeded schedules on harness/conc_cl.cpp,
replayed on Conc/CList.lean; implementation-level oracles: linearizability of the results and of the final
list (brute force over the recorded history), structural consistency, the visit rule."""
import random


def gen_program(rng, nsetup):
    nt = rng.randint(2, 3)
    progs = []
    handles = list(range(nsetup))
    for t in range(nt):
        p = []
        for _ in range(rng.randint(1, 3)):
            r = rng.random()
            h = rng.choice(handles + [999]) if handles else 999   # 999: a handle that is never issued
            if r < 0.16:
                p.append(["append"])
            elif r < 0.26:
                p.append(["prepend"])
            elif r < 0.44:
                p.append(["insert", str(h)])
            elif r < 0.66:
                p.append(["remove", str(h)])
            elif r < 0.74:
                p.append(["owns", str(h)])
            elif r < 0.80:
                p.append(["empty"])
            else:
                p.append(["invoke"])
        progs.append(p)
    return progs


def with_other(rng, progs):
    """dispatcher variant: some threads also add listeners for fresh events (the map grows while others look event 1 up)"""
    out = []
    for p in progs:
        q = []
        for c in p:
            if rng.random() < 0.3:
                q.append(["other"])
            q.append(c)
        out.append(q)
    return out


def map_protocol(di, progs):
    """dispatcher variant: every call takes the dispatcher's listenerMutex exactly once"""
    cur = {}
    count = {}
    for t in di["log"]:
        if t[0] == "note" and t[2] == "begin":
            cur[int(t[1])] = int(t[3])
            count[(int(t[1]), int(t[3]))] = 0
        elif t[0] == "note" and t[2] == "end":
            cur[int(t[1])] = -1
        elif t[0] == "step" and t[2] == "map" and cur.get(int(t[1]), -1) >= 0:
            k = (int(t[1]), cur[int(t[1])])
            count[k] = count.get(k, 0) + 1
    for (t, k), n in sorted(count.items()):
        if n != 1:
            call = progs[t][k] if t < len(progs) and 0 <= k < len(progs[t]) else ["?"]
            return "call %d of thread %d (%s) took the dispatcher's listenerMutex %d times (expected exactly once)" % (k, t, " ".join(call), n)
    return None


def run_text(name, seed, nsetup, progs):
    return "--- %s\nseed %d\nsetup %s\n" % (name, seed, " ".join(["a"] * nsetup)) + \
        "".join("thread %s\n" % " ; ".join(" ".join(c) for c in p) for p in progs)


def parse(section):
    d = dict(steps=[], log=[], rets={}, visits={}, final=[], back=[], mismatch=[])
    for l in section:
        t = l.split()
        if not t:
            continue
        if t[0] in ("step", "note"):
            d["log"].append(t)
            if t[0] == "step":
                d["steps"].append(l)
        elif t[0] == "rets":
            d["rets"][int(t[1])] = t[3:]
        elif t[0] == "visit":
            d["visits"].setdefault(int(t[1]), []).append([int(x) for x in t[3:]])
        elif t[0] == "final":
            d["final"] = [int(x) for x in t[2:]]
        elif t[0] == "back":
            d["back"] = [int(x) for x in t[2:]]
        elif t[0] == "mismatch":
            d["mismatch"].append(l)
    return d


def spec_apply(lst, call, ret):
    """apply one call to the abstract list; returns (new list, ok) where ok = the recorded result is the Spec's"""
    op = call[0]
    if op in ("append", "prepend", "insert"):
        nid = int(ret[1:])
        if op == "append":
            return lst + [nid], True
        if op == "prepend":
            return [nid] + lst, True
        b = int(call[1])
        if b in lst:
            i = lst.index(b)
            return lst[:i] + [nid] + lst[i:], True
        return lst + [nid], True
    if op == "remove":
        h = int(call[1])
        if h in lst:
            return [x for x in lst if x != h], ret == "true"
        return lst, ret == "false"
    if op == "owns":
        return lst, ret == ("true" if int(call[1]) in lst else "false")
    if op == "empty":
        return lst, ret == ("true" if not lst else "false")
    return lst, True


def linearizable(nsetup, progs, d):
    """is there a sequential order of the completed calls, respecting program order and real-time order, that
    explains every result and the final list?"""
    begin, end = {}, {}
    for i, t in enumerate(d["log"]):
        if t[0] == "note":
            (begin if t[2] == "begin" else end)[(int(t[1]), int(t[3]))] = i
    calls = []
    for t, p in enumerate(progs):
        for k, c in enumerate(p):
            if k < len(d["rets"].get(t, [])):
                calls.append((t, k, c, d["rets"][t][k]))
    nthreads = len(progs)
    done_upto = [0] * nthreads
    total = len(calls)
    by_thread = {t: [c for c in calls if c[0] == t] for t in range(nthreads)}
    seen = set()

    def rec(lst, pos, count):
        if count == total:
            return lst == d["final"]
        key = (tuple(lst), tuple(pos))
        if key in seen:
            return False
        seen.add(key)
        # candidates: next call of each thread, not preceded in real time by an unpicked call
        for t in range(nthreads):
            if pos[t] >= len(by_thread[t]):
                continue
            c = by_thread[t][pos[t]]
            b = begin.get((t, c[1]), 0)
            blocked = False
            for u in range(nthreads):
                if u != t and pos[u] < len(by_thread[u]):
                    cu = by_thread[u][pos[u]]
                    if end.get((u, cu[1]), 10 ** 9) < b:
                        blocked = True
                        break
            if blocked:
                continue
            nl, ok = spec_apply(lst, c[2], c[3])
            if not ok:
                continue
            pos2 = list(pos)
            pos2[t] += 1
            if rec(nl, pos2, count + 1):
                return True
        return False

    return rec(list(range(nsetup)), [0] * nthreads, 0)


def impl_oracles(nsetup, progs, d):
    if d["back"] != list(reversed(d["final"])):
        return "the list read backwards through tail/previous %s is not the reverse of the list read through head/next %s" % (d["back"], d["final"])
    if len(set(d["final"])) != len(d["final"]) or -1 in d["final"]:
        return "a callback appears twice (or an unknown node) in the final list %s" % d["final"]
    if not linearizable(nsetup, progs, d):
        return "no sequential order of the calls (respecting program order and real-time order) explains the results %s and the final list %s" % (d["rets"], d["final"])
    # visit rule
    begin, end = {}, {}
    for i, t in enumerate(d["log"]):
        if t[0] == "note":
            (begin if t[2] == "begin" else end)[(int(t[1]), int(t[3]))] = i
    added_end, removed_begin = {i: -1 for i in range(nsetup)}, {}
    for t, p in enumerate(progs):
        for k, c in enumerate(p):
            if k >= len(d["rets"].get(t, [])):
                continue
            r = d["rets"][t][k]
            if c[0] in ("append", "prepend", "insert"):
                added_end[int(r[1:])] = end.get((t, k), 10 ** 9)
            if c[0] == "remove" and r == "true":
                h = int(c[1])
                removed_begin[h] = min(removed_begin.get(h, 10 ** 9), begin.get((t, k), 0))
    for t, p in enumerate(progs):
        vi = 0
        for k, c in enumerate(p):
            if c[0] != "invoke" or k >= len(d["rets"].get(t, [])):
                continue
            vs = d["visits"].get(t, [])
            if vi >= len(vs):
                break
            V = vs[vi]
            vi += 1
            if len(set(V)) != len(V):
                return "an invocation of thread %d called a callback twice: %s" % (t, V)
            b, e = begin.get((t, k), 0), end.get((t, k), 10 ** 9)
            for n, ae in added_end.items():
                if ae < b and removed_begin.get(n, 10 ** 9) > e and n not in V:
                    return "callback %d stayed in the list during the whole invocation of thread %d but was not called (%s)" % (n, t, V)
            stay = [n for n in V if n in d["final"]]
            if stay != [n for n in d["final"] if n in stay]:
                return "an invocation of thread %d called callbacks out of list order: %s vs final %s" % (t, V, d["final"])
    return None
