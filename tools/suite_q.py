"""Correspondence suite for EventDispatcher / EventQueue / MixinFilter / OrderedQueueList (H-seq,
harness/seq_q.cpp) against Q/Machine.lean (driver mode `q`)."""
import hashlib
import os
import random
import zlib
from collections import Counter

import vlib

THREADINGS = {
    "single": "eventpp::SingleThreading",
    "multi": "eventpp::MultipleThreading",
    "spin": "eventpp::GeneralThreading<eventpp::SpinLock>",
    # harness/common.h: use-after-destruction of a mutex and self-deadlock are reported instead of going unnoticed / hanging
    "checked": "eventpp::GeneralThreading<CheckedMutex,std::atomic,std::condition_variable_any>",
}


class Variant:
    def __init__(self, threading="single", key=0, include=0, proto=0, ordered=0, std="c++17", cxx="g++", opt="-O1", mapk=0,
                 getevent=0, cci=0, mixins=1):
        self.threading, self.key, self.include, self.proto, self.ordered = threading, key, include, proto, ordered
        self.std, self.cxx, self.opt, self.mapk = std, cxx, opt, mapk
        self.getevent, self.cci, self.mixins = getevent, cci, mixins

    @property
    def name(self):
        return "q_%s_k%d_i%d_p%d_o%d_m%d_g%d_c%d_x%d_%s_%s_%s" % (self.threading, self.key, self.include, self.proto, self.ordered, self.mapk,
                                                              self.getevent, self.cci, self.mixins,
                                                              self.cxx.replace("+", "p"), self.std.replace("+", "p"), self.opt.strip("-"))

    def job(self):
        return dict(src="seq_q.cpp", out_name=self.name, std=self.std, cxx=self.cxx, opt=self.opt,
                    defines=["VH_THREADING=" + THREADINGS[self.threading], "VH_KEY=%d" % self.key,
                             "VH_INCLUDE=%d" % self.include, "VH_PROTO=%d" % self.proto, "VH_ORDERED=%d" % self.ordered,
                             "VH_MAP=%d" % self.mapk, "VH_GETEVENT=%d" % self.getevent, "VH_CCI=%d" % self.cci,
                             "VH_MIXINS=%d" % self.mixins])

    def cfg_lines(self, name=""):
        l = []
        if self.cci:
            # the canContinueInvoking policy of this script: continue iff value % M != R (M = 0: always)
            h = zlib.crc32(name.encode())
            m = [0, 2, 2, 3, 4][h % 5]
            l.append("cfg cci %d %d" % (m, (h >> 8) % m if m else 0))
        if self.include:
            l.append("cfg include 1")
        if self.proto == 1:
            l.append("cfg norw 1")
        if self.ordered:
            l.append("cfg ordered %s" % ("asc" if self.ordered == 1 else "desc"))
        return l


def _handle(rng, issued, inside):
    r = rng.random()
    if inside and r < 0.4:
        return rng.choice(["self", "self", "self+1", "self-1"])
    if issued == 0 or r > 0.92:
        return str(issued + rng.randint(0, 2))
    return str(rng.randint(0, max(0, issued - 1 + (2 if inside else 0))))


WEIGHTS = {
    # profile: weights of top-level commands
    "queue": dict(listen=10, listenfront=3, listenbefore=4, unlisten=6, hasany=2, dispatch=5, enqueue=26, process=8,
                  processone=7, processif=7, processuntil=5, peek=4, take=4, clear=2, emptyq=4, addfilter=2, removefilter=1),
    "dispatch": dict(listencounted=6, listencondrem=5, listencond=6, listenadapt=5, listen=18, listenfront=8, listenbefore=10, unlisten=12, hasany=5, dispatch=30, enqueue=4, process=3,
                     addfilter=1),
    "filter": dict(listencond=5, listenadapt=3, listen=10, listenfront=2, unlisten=4, dispatch=22, enqueue=14, process=8, processone=4, processif=3,
                   addfilter=14, removefilter=8, emptyq=1),
    "qcopy": dict(listen=12, listenfront=3, listenbefore=4, unlisten=6, hasany=2, dispatch=8, enqueue=20, process=8,
                  processone=5, processif=3, peek=2, take=3, clear=1, emptyq=8, addfilter=3, removefilter=1, qcopy=7, qmove=4,
                  qassign=4, qmoveassign=3, qselfassign=4, dqnb=5, dqne=3, dqnc=3, dqna=3),
    "ordered": dict(listen=8, unlisten=2, enqueue=34, process=8, processone=8, processif=10, processuntil=8, peek=4, take=5,
                    clear=1, emptyq=2, dispatch=2),
}


def _cmd(rng, profile, nk, issued, cbs, preds, filters, inside=False, allow_proc=True):
    w = dict(WEIGHTS[profile])
    if inside:
        w.pop("qcopy", None)
        w.pop("qmove", None)
        w.pop("qassign", None)
        w.pop("qmoveassign", None)
        w.pop("qselfassign", None)
        w.pop("dqnb", None)
        w.pop("dqne", None)
        w.pop("dqnc", None)
        w.pop("dqna", None)
        # inside listeners / predicates / filters: mutate near the running entry, enqueue, observe
        # re-entrant dispatch / processing only where the caller guarantees termination
        # (listeners that add listeners every time they run make the lists grow exponentially)
        for k in ("process", "processone", "processif", "processuntil", "dispatch", "listen", "listenfront",
                  "listenbefore", "addfilter", "enqueue", "listencond", "listenadapt", "listencounted", "listencondrem"):
            if k in w:
                w[k] = w[k] * (1.0 if k == 'enqueue' else 0.5) if allow_proc else 0
        # a remover-wrapped callback id is added at most once per script (the wrappers count per listener, the model per callback id)
        w.pop("listencounted", None)
        w.pop("listencondrem", None)
        w["emptyq"] = w.get("emptyq", 0) + 6
        w["unlisten"] = w.get("unlisten", 0) + 8
    ops = [o for o in w if w[o] > 0]
    op = rng.choices(ops, [w[o] for o in ops])[0]
    k = rng.randrange(nk)
    if op in ("listen", "listenfront"):
        return "%s %d %d" % (op, k, rng.choice(cbs))
    if op == "listencond":
        # callbacks 40..44 are registered through conditionalFunctor; one condition per callback id and script
        cb = 40 + rng.randrange(5)
        m = 2 + cb % 3
        return "listencond %d %d %d %d" % (k, cb, m, cb % m)
    if op == "listenadapt":
        return "listenadapt %d %d" % (k, rng.choice(cbs))
    if op == "listencounted":
        # callbacks 50..54: added through CounterRemover (dispatcher / queue target); the trigger count is fixed per callback id
        cb = 50 + rng.randrange(5)
        return "listencounted %d %d %d" % (k, cb, [1, 2, 3, 0, -2147483648][cb - 50])
    if op == "listencondrem":
        cb = 55 + rng.randrange(5)
        m = 2 + cb % 3
        return "listencondrem %d %d %d %d" % (k, cb, m, cb % m)
    if op == "listenbefore":
        return "listenbefore %d %d %s" % (k, rng.choice(cbs), _handle(rng, issued, inside))
    if op == "unlisten":
        return "unlisten %d %s" % (k, _handle(rng, issued, inside))
    if op == "hasany":
        return "hasany %d" % k
    if op in ("dispatch", "enqueue"):
        return "%s %d %d" % (op, k, rng.randint(0, 50))
    if op in ("processif", "processuntil"):
        return "%s %d" % (op, rng.choice(preds))
    if op == "addfilter":
        return "addfilter %d" % rng.choice(filters)
    if op == "removefilter":
        return "removefilter %s" % _handle(rng, issued, inside)
    if op in ("qcopy", "qmove", "qassign", "qmoveassign"):
        # storage pattern the new object is constructed over
        return "%s %d" % (op, rng.choice([0, 255, 255, 90, 165]))
    return op


def gen_script(rng, name, profile, max_ops=50):
    nk = rng.randint(1, 4)
    cbs = list(range(1, rng.randint(2, 8) + 1))
    preds = list(range(30, 30 + rng.randint(1, 3)))
    filters = list(range(20, 20 + rng.randint(1, 4)))
    lines = ["--- %s" % name, "lists %d" % nk]
    for f in filters:
        if rng.random() < 0.7:
            lines.append("cfg rw %d %d" % (f, rng.randint(1, 9)))
    # behaviours: listeners, filters (verdict = let through), predicates (verdict = predicate value)
    for cb in cbs + filters + preds:
        is_pred = cb >= 30
        is_filter = 20 <= cb < 30
        p_beh = 0.9 if is_pred else (0.6 if is_filter else 0.55)
        if rng.random() < p_beh:
            for nth in rng.sample(["0", "1", "2", "3", "*"], rng.randint(1, 4)):
                k = rng.choices([0, 1, 2, 3], [25, 40, 25, 10])[0]
                # processing calls from inside only in entries for a specific call number (termination)
                allow = nth != "*" and rng.random() < 0.6
                body = " ; ".join(_cmd(rng, profile, nk, 10, cbs, preds, filters, inside=True, allow_proc=allow)
                                  for _ in range(k))
                if is_pred:
                    verdict = 1 if rng.random() < 0.5 else 0
                elif is_filter:
                    verdict = 0 if rng.random() < 0.25 else 1
                else:
                    verdict = 1
                lines.append(("beh %d %s %d %s" % (cb, nth, verdict, body)).rstrip())
    issued = 0
    if profile == "ordered" and rng.random() < 0.35:
        # a long run of events over very few keys: more than 16 equal keys in the list at once (sort algorithms that are
        # stable only for short ranges), with a listener on the key so that the dispatch order is visible
        lines.append("do listen 0 %d" % cbs[0])
        issued += 1
        for _ in range(rng.randint(18, 40)):
            lines.append("do enqueue %d %d" % (rng.randrange(min(nk, 2)), rng.randint(0, 50)))
    used_wrapped = set()
    for _ in range(rng.randint(6, max_ops)):
        c = _cmd(rng, profile, nk, issued, cbs, preds, filters)
        if c.split()[0] in ("listencounted", "listencondrem"):
            if c.split()[2] in used_wrapped:
                c = "listen %s %d" % (c.split()[1], rng.choice(cbs))
            else:
                used_wrapped.add(c.split()[2])
        if c.split()[0] in ("listen", "listenfront", "listenbefore", "addfilter", "listencond", "listenadapt", "listencounted", "listencondrem"):
            issued += 1
        lines.append("do " + c)
    lines.append("do process")
    lines.append("do emptyq")
    return "\n".join(lines) + "\n"


def with_cfg(script, variant):
    lines = script.splitlines()
    return "\n".join([lines[0]] + variant.cfg_lines(lines[0].split()[1] if len(lines[0].split()) > 1 else "") + lines[1:]) + "\n"


def first_diff(a, b):
    for i in range(max(len(a), len(b))):
        x = a[i] if i < len(a) else "<end>"
        y = b[i] if i < len(b) else "<end>"
        if x != y:
            return i, x, y
    return None


def run_batch(exe, texts, names, timeout=120):
    text = "".join(texts)
    rc_i, impl, err_i = vlib.run_harness(exe, text, timeout=timeout)
    rc_m, model, err_m = vlib.run_driver("q", text)
    res = [dict(name=n, script=s, impl=impl.get(n), model=model.get(n)) for n, s in zip(names, texts)]
    return res, (rc_i, err_i), (rc_m, err_m)


def run_one(exe, text, timeout=8):
    name = text.splitlines()[0].split()[1]
    res, i, m = run_batch(exe, [text], [name], timeout)
    return res[0], i


def judge(r, impl_status):
    rc, err = impl_status
    if r["impl"] is None:
        return "violation: implementation produced no output (rc=%s) %s" % (rc, err[-400:])
    if r["model"] is None:
        return "corr: driver produced no output"
    d = first_diff(r["impl"], r["model"])
    if d:
        return "violation: line %d impl=%r model=%r" % d
    if rc != 0:
        return "violation: implementation exited with rc=%s: %s" % (rc, err[-600:])
    return None


def classify(script, out):
    f = Counter()
    f["ops"] = sum(1 for l in script.splitlines() if l.startswith("do "))
    f["calls_listener"] = sum(1 for l in out if l.startswith("ev call listener"))
    f["calls_filter"] = sum(1 for l in out if l.startswith("ev call filter"))
    f["calls_pred"] = sum(1 for l in out if l.startswith("ev call pred"))
    f["enqueue"] = script.count("enqueue")
    f["putback"] = 0
    # a processing call that left something queued = put-back happened
    prev_q = None
    for l in out:
        if l.startswith("q :"):
            prev_q = l
    f["res_true"] = sum(1 for l in out if l == "ev res true")
    f["res_false"] = sum(1 for l in out if l == "ev res false")
    f["recycled"] = 1 if any(l.startswith("slots ") and int(l.split()[2]) > 0 for l in out) else 0
    return f
