"""Generic driver for a correspondence suite: corpus first, then generated scripts, batching,
crash isolation, judging, statistics, shrinking of the first failures."""
import hashlib
import time
import os

import vlib


def shrink_script(script, bad):
    """delta-debug `do` and `beh` lines, then the commands inside each `beh` line"""
    lines = script.splitlines()
    head = [l for l in lines if not (l.startswith("do ") or l.startswith("beh "))]
    body = [l for l in lines if l.startswith("do ") or l.startswith("beh ")]

    def mk(sub):
        behs = [l for l in sub if l.startswith("beh ")]
        dos = [l for l in sub if l.startswith("do ")]
        return "\n".join(head + behs + dos) + "\n"

    if not bad(mk(body)):
        return script
    small = vlib.ddmin(body, lambda sub: bad(mk(sub)))
    changed = True
    while changed:
        changed = False
        for i, l in enumerate(small):
            if l.startswith("beh "):
                t = l.split()
                headt, cmds = t[:4], [c for c in " ".join(t[4:]).split(" ; ") if c.strip()]
                if len(cmds) >= 1:
                    for k in range(len(cmds)):
                        cand = small[:i] + [(" ".join(headt) + " " + " ; ".join(cmds[:k] + cmds[k + 1:])).rstrip()] + small[i + 1:]
                        if bad(mk(cand)):
                            small = cand
                            changed = True
                            break
                if changed:
                    break
    return mk(small)


def run_suite(ctx, suite_name, exes, scripts, run_batch, run_one, judge, classify, nontrivial, prep=None,
              batch=100, max_report=3, classifier=None):
    """exes: list of (label, exe_path, variant_obj). scripts: list of (name, text).
    prep(text, variant) -> text adapts a script to a variant (cfg lines)."""
    nfail = 0
    for label, exe, variant in exes:
        texts_all = [(n, prep(t, variant) if prep else t) for n, t in scripts]
        for off in range(0, len(texts_all), batch):
            chunk = texts_all[off:off + batch]
            names = [c[0] for c in chunk]
            texts = [c[1] for c in chunk]
            res, ist, *_ = run_batch(exe, texts, names)
            crashed = ist[0] != 0
            for r in res:
                st = (0, "")
                if crashed:
                    r, st = run_one(exe, r["script"])
                j = judge(r, st)
                ctx.cov["evaluations"] += 1
                out = r["impl"] or []
                feat = classify(r["script"], out)
                for k, val in feat.items():
                    ctx.dist[suite_name + "." + k] += val
                if j is None:
                    ctx.cov["traces_validated"] += 1
                    if nontrivial is None or nontrivial(feat, r["script"], out):
                        ctx.nontrivial_keys.add(hashlib.sha1("\n".join(out).encode()).hexdigest())
                    if len(ctx.samples) < 3 and feat.get("ops", 0) > 3 and len(out) > 10:
                        ctx.samples.append({"suite": "%s[%s]" % (suite_name, label), "script": r["script"].splitlines(),
                                            "output_head": [l for l in out if not l.startswith("nodes") and not l.startswith("dump")][:12]})
                else:
                    nfail += 1
                    if nfail > max_report and crashed:
                        # the batch died (crash / hang) and enough failures are reported already: do not re-run
                        # the remaining scripts of a dying build one by one
                        ctx.cov["failures"] += nfail
                        return nfail
                    if nfail <= max_report:
                        kind = "violation" if j.startswith("violation") else "correspondence"
                        script = r["script"]
                        extra = ""
                        if kind == "violation":
                            deadline = time.time() + 240

                            def bad(txt):
                                if time.time() > deadline:
                                    return False
                                rr, ss = run_one(exe, txt)
                                jj = judge(rr, ss)
                                return jj is not None and jj.startswith("violation")
                            script = shrink_script(script, bad)
                            r2, st2 = run_one(exe, script)
                            exp = r2.get("spec") or r2.get("model") or []
                            extra = "observed (implementation, %s):\n%s\nexpected (Spec/Model):\n%s\nstderr tail:\n%s" % (
                                label, "\n".join(l for l in (r2["impl"] or []) if not l.startswith("nodes") and not l.startswith("dump")),
                                "\n".join(exp), st2[1][-1500:])
                            j = judge(r2, st2) or j
                        ctx.fail(kind, j, script, "%s[%s]" % (suite_name, label), extra)
                        if classifier:
                            ctx.failures[-1]["classifier"] = classifier(script, j)
    ctx.cov["failures"] += nfail
    return nfail


def load_corpus(prop, prefix=None):
    """corpus scripts of a property; files named `q_*` belong to the queue harness, all others to the
    callback-list harness (prefix=None)"""
    res = []
    cdir = os.path.join(vlib.CORPUS, prop)
    if os.path.isdir(cdir):
        for f in sorted(os.listdir(cdir)):
            if prefix is None and f.startswith("q_"):
                continue
            if prefix is not None and not f.startswith(prefix):
                continue
            txt = open(os.path.join(cdir, f)).read()
            # a corpus file may hold several scripts
            cur = []
            for line in txt.splitlines():
                if line.startswith("--- ") and cur:
                    res.append((cur[0].split()[1], "\n".join(cur) + "\n"))
                    cur = []
                cur.append(line)
            if cur:
                res.append((cur[0].split()[1], "\n".join(cur) + "\n"))
    return res
