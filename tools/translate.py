"""Tie B: re-emit Lean definitions from small decisive fragments of /repo's source on every run.
Each fragment function returns (ok, lean_text, log).  regenerate() writes
lean/EventppVerif/Generated/<Frag>.lean only when the text changed (so lake rebuilds only then)."""
import os
import re

import vlib

GEN_DIR = os.path.join(vlib.LEAN, "EventppVerif", "Generated")

FRAGMENTS = {}


def fragment(name):
    def deco(f):
        FRAGMENTS[name] = f
        return f
    return deco


def read_src(rel):
    return open(os.path.join(vlib.REPO, rel)).read()


def write_if_changed(path, text):
    old = open(path).read() if os.path.exists(path) else None
    if old != text:
        os.makedirs(os.path.dirname(path), exist_ok=True)
        with open(path, "w") as f:
            f.write(text)


def regenerate(names):
    ok = True
    logs = []
    with vlib.Lock("translate"):
        for n in names:
            try:
                good, text, log = FRAGMENTS[n]()
            except Exception as e:  # a fragment the translator cannot parse any more
                good, text, log = False, None, "translator failed on %s: %r" % (n, e)
            if text is not None:
                write_if_changed(os.path.join(GEN_DIR, n + ".lean"), text)
            ok = ok and good
            if log:
                logs.append(log)
    return ok, "\n".join(logs)
