"""Tie B: re-emit Lean definitions from small decisive fragments of /repo's source on every run.
Each fragment function returns (ok, lean_text, log).  regenerate() writes
lean/EventppVerif/Generated/<Frag>.lean only when the text changed (so lake rebuilds only then)."""
import os
import re

import vlib

GEN_DIR = os.path.join(vlib.LEAN, "EventppVerif", "Generated")

FRAGMENTS = {}


def fragment(name):
    def deco(f):
        FRAGMENTS[name] = f
        return f
    return deco


def read_src(rel):
    return open(os.path.join(vlib.REPO, rel)).read()


def write_if_changed(path, text):
    old = open(path).read() if os.path.exists(path) else None
    if old != text:
        os.makedirs(os.path.dirname(path), exist_ok=True)
        with open(path, "w") as f:
            f.write(text)


def regenerate(names):
    ok = True
    logs = []
    with vlib.Lock("translate"):
        for n in names:
            try:
                good, text, log = FRAGMENTS[n]()
            except Exception as e:  # a fragment the translator cannot parse any more
                good, text, log = False, None, "translator failed on %s: %r" % (n, e)
            if text is not None:
                write_if_changed(os.path.join(GEN_DIR, n + ".lean"), text)
            ok = ok and good
            if log:
                logs.append(log)
    return ok, "\n".join(logs)


# ---------------------------------------------------------------------------------------------
# a tiny C++ boolean-expression translator: && || ! ( ) == over a fixed vocabulary of atoms
# ---------------------------------------------------------------------------------------------

def find_function_body(src, signature_regex):
    """return the text between the braces of the first function whose header matches"""
    m = re.search(signature_regex, src, re.S)
    if not m:
        raise ValueError("signature not found: " + signature_regex)
    i = src.index("{", m.end() - 1 if src[m.end() - 1] == "{" else m.end())
    depth = 0
    for j in range(i, len(src)):
        if src[j] == "{":
            depth += 1
        elif src[j] == "}":
            depth -= 1
            if depth == 0:
                return src[i + 1:j]
    raise ValueError("unbalanced braces")


def strip_comments(s):
    s = re.sub(r"//[^\n]*", "", s)
    return re.sub(r"/\*.*?\*/", "", s, flags=re.S)


def rename_words(text, mapping):
    """rename identifiers (whole words); two-phase so that swaps work"""
    for i, (old, _) in enumerate(mapping.items()):
        text = re.sub(r"\b%s\b" % re.escape(old), "\x00%d\x00" % i, text)
    for i, (_, new) in enumerate(mapping.items()):
        text = text.replace("\x00%d\x00" % i, new)
    return text


def expand_local_usings(body):
    """remove local `using X = T;` aliases from a function body and substitute them (textually, repeatedly)"""
    body = strip_comments(body)
    aliases = re.findall(r"\busing\s+(\w+)\s*=\s*([^;]+);", body)
    body = re.sub(r"\busing\s+\w+\s*=\s*[^;]+;", "", body)
    for _ in range(len(aliases) + 1):
        for name, val in aliases:
            body = re.sub(r"\b%s\b" % re.escape(name), val.strip(), body)
    return body


def inline_void_helpers(src, body_re):
    """calls `name();` of parameterless private helpers `void name() [const] { BODY }` whose normalised BODY matches
    body_re are replaced by BODY (each call by the nearest definition that follows it: the helpers of wrapper structs
    are defined after their use); lets a `removeSelf()` extraction through"""
    defs = [(m.start(), m.end(), m.group(1), m.group(2)) for m in re.finditer(r"void\s+(\w+)\s*\(\s*\)\s*(?:const\s*)?\{([^{}]*)\}", src)]
    defs = [d for d in defs if re.fullmatch(body_re, BoolExpr.norm(d[3]))]
    if not defs:
        return src
    out, prev = "", 0
    for start, end, name, body in defs:
        seg = src[prev:start]
        out += re.sub(r"\b%s\(\);" % re.escape(name), body.strip(), seg) + src[start:end]
        prev = end
    return out + src[prev:]


def single_return_expr(body):
    body = strip_comments(body).strip()
    m = re.fullmatch(r"return\s+(.*?);\s*", body, re.S)
    if not m:
        raise ValueError("body is not a single return statement: %r" % body[:200])
    return m.group(1)


class BoolExpr:
    """recursive descent over: or := and ('||' and)* ; and := un ('&&' un)* ; un := '!' un | '(' or ')' | atom"""

    def __init__(self, text, atoms):
        self.atoms = atoms      # normalised C++ text -> Lean term
        self.toks = self.tokenize(text)
        self.i = 0

    @staticmethod
    def norm(s):
        return re.sub(r"\s+", "", s)

    def tokenize(self, text):
        text = text.strip()
        toks = []
        i = 0
        cur = ""
        depth = 0
        while i < len(text):
            c = text[i]
            two = text[i:i + 2]
            if depth == 0 and two in ("&&", "||"):
                if cur.strip():
                    toks.append(("atom", cur))
                toks.append((two, two))
                cur = ""
                i += 2
                continue
            if depth == 0 and c == "!" and two != "!=":
                if cur.strip():
                    raise ValueError("unexpected '!' inside atom")
                toks.append(("!", "!"))
                i += 1
                continue
            if c == "(":
                # grouping parenthesis (not a call) if nothing identifier-like precedes it
                if depth == 0 and not cur.strip():
                    toks.append(("(", "("))
                    i += 1
                    continue
                depth += 1
            elif c == ")":
                if depth == 0:
                    if cur.strip():
                        toks.append(("atom", cur))
                        cur = ""
                    toks.append((")", ")"))
                    i += 1
                    continue
                depth -= 1
            cur += c
            i += 1
        if cur.strip():
            toks.append(("atom", cur))
        return toks

    def peek(self):
        return self.toks[self.i][0] if self.i < len(self.toks) else None

    def eat(self, k):
        if self.peek() != k:
            raise ValueError("expected %s at token %d of %r" % (k, self.i, self.toks))
        self.i += 1

    def parse(self):
        e = self.p_or()
        if self.i != len(self.toks):
            raise ValueError("trailing tokens in %r" % (self.toks,))
        return e

    def p_or(self):
        e = self.p_and()
        while self.peek() == "||":
            self.eat("||")
            e = "(%s || %s)" % (e, self.p_and())
        return e

    def p_and(self):
        e = self.p_un()
        while self.peek() == "&&":
            self.eat("&&")
            e = "(%s && %s)" % (e, self.p_un())
        return e

    def p_un(self):
        k = self.peek()
        if k == "!":
            self.eat("!")
            return "(!%s)" % self.p_un()
        if k == "(":
            self.eat("(")
            e = self.p_or()
            self.eat(")")
            return e
        if k == "atom":
            a = self.norm(self.toks[self.i][1])
            self.i += 1
            if a not in self.atoms:
                raise ValueError("unknown atom %r" % a)
            return self.atoms[a]
        raise ValueError("unexpected token %r" % (k,))


def ordered_semantics(text, atom_map):
    """short-circuit semantics of a C++ boolean expression over named atoms: for every assignment of the atoms, the
    value and the order in which the atoms are read.  atom_map: normalised C++ atom text -> (name, polarity).
    Two expressions with the same result are interchangeable for the model (same value, same reads in the same order),
    whatever the spelling (De Morgan, double negation, `0 == x`, redundant parentheses)."""
    import itertools
    names = sorted({nm for nm, _ in atom_map.values()})
    terms = {k: ("A('%s')" % nm if pol else "(not A('%s'))" % nm) for k, (nm, pol) in atom_map.items()}
    e = BoolExpr(text, terms).parse()
    e = e.replace("||", " or ").replace("&&", " and ").replace("!", " not ")
    table = []
    for vals in itertools.product((False, True), repeat=len(names)):
        env = dict(zip(names, vals))
        trace = []
        def A(nm):
            trace.append(nm)
            return env[nm]
        table.append((vals, bool(eval(e, {"A": A})), tuple(trace)))
    return tuple(table)


def zero_test_atoms(expr, name):
    """the spellings of `expr == 0` (polarity True) and `expr != 0` (polarity False)"""
    e = BoolExpr.norm(expr)
    return {e + "==0": (name, True), "0==" + e: (name, True), e + "!=0": (name, False), "0!=" + e: (name, False)}


GEN_HEADER = "/- GENERATED by tools/translate.py from /repo (%s) on every run. Do not edit. -/\n"


@fragment("AnyIdFrag")
def frag_anyid():
    src = read_src("include/eventpp/utilities/anyid.h")
    atoms = {
        "a.getDigest()==b.getDigest()": "deq",
        "a.getDigest()<b.getDigest()": "dlt",
        "anyid_internal_::compareEqual(a.getValue(),b.getValue())": "veq",
        "anyid_internal_::compareLessThan(a.getValue(),b.getValue())": "vlt",
    }
    def op_body(opre):
        """body of a two-parameter AnyId operator with its parameters renamed to a, b"""
        sig = r"bool\s+operator\s*" + opre + r"\s*\(const\s+AnyId<Digester,\s*Storage>\s*&\s*(\w+),\s*const\s+AnyId<Digester,\s*Storage>\s*&\s*(\w+)\)\s*\{"
        m = re.search(sig, src, re.S)
        if not m:
            raise ValueError("AnyId operator %s not found" % opre)
        body = expand_local_usings(find_function_body(src, sig))
        return rename_words(body, {m.group(1): "a", m.group(2): "b"} if (m.group(1), m.group(2)) != ("a", "b") else {})
    eq = BoolExpr(single_return_expr(op_body("==")), atoms).parse()
    lt = BoolExpr(single_return_expr(op_body("<")), atoms).parse()
    hsig = r"std::size_t\s+operator\(\)\(const\s+eventpp::AnyId<Digester,\s*Storage>\s*&\s*(\w+)\)\s*const\s+noexcept\s*\{"
    hm = re.search(hsig, src, re.S)
    if not hm:
        raise ValueError("std::hash<AnyId>::operator() not found")
    hbody = single_return_expr(rename_words(expand_local_usings(find_function_body(src, hsig)), {hm.group(1): "value"}))
    hn = BoolExpr.norm(hbody)
    if hn != "eventpp::anyid_internal_::MakeHash<typenameeventpp::AnyId<Digester,Storage>::DigestType>()(value.getDigest())":
        raise ValueError("std::hash<AnyId> body not recognised: " + hn)
    # compareEqual / compareLessThan fall-backs (no operator: true / false)
    ce = re.search(r"compareEqual\(const T &, const T &\)\s*->[^{]*\{\s*return\s+(\w+);", src)
    cl = re.search(r"compareLessThan\(const T &, const T &\)\s*->[^{]*\{\s*return\s+(\w+);", src)
    if not ce or not cl:
        raise ValueError("fallback comparison not found")
    text = GEN_HEADER % "include/eventpp/utilities/anyid.h operator==, operator<, std::hash<AnyId>, compare* fall-backs"
    text += "namespace Evp.Gen.AnyId\n\n"
    text += "/-- `operator==` over the atoms digests-equal / values-equal -/\ndef eq (deq veq : Bool) : Bool := %s\n\n" % eq
    text += "/-- `operator<` over the atoms digest-less / value-less / digests-equal -/\ndef lt (dlt vlt deq : Bool) : Bool := %s\n\n" % lt
    text += "/-- `std::hash<AnyId>` hashes the digest only -/\ndef hashOfDigestOnly : Bool := true\n\n"
    text += "/-- value comparison when the Storage has no `==` / no `<` -/\ndef noEqFallback : Bool := %s\ndef noLtFallback : Bool := %s\n\n" % (ce.group(1), cl.group(1))
    text += "end Evp.Gen.AnyId\n"
    return True, text, ""


CMP_LEAN = {"<=": "≤", "<": "<", ">": ">", ">=": "≥", "==": "=", "!=": "≠"}


@fragment("AnyDataFrag")
def frag_anydata():
    src = strip_comments(read_src("include/eventpp/utilities/anydata.h"))
    # the two SFINAE constructors: conditions on sizeof(T) against maxSize, and what each constructs
    ctors = re.findall(r"AnyData\(T && object,\s*typename std::enable_if<\(sizeof\(typename anydata_internal_::RemoveCvRef<T>::Type\)\s*(<=|<|>=|>)\s*maxSize\)>::type\s*\*\s*=\s*(?:0|nullptr|NULL)\)\s*:\s*functions\(anydata_internal_::getAnyDataFunctions<(\w+)>\(\)\)", src)
    if len(ctors) != 2:
        raise ValueError("expected two size-split constructors, found %d" % len(ctors))
    kinds = {}
    for op, what in ctors:
        kinds["large" if what == "LargeData" else "inline"] = op
    if set(kinds) != {"inline", "large"}:
        raise ValueError("constructors do not split into inline / LargeData: %r" % (ctors,))
    m = re.search(r"static constexpr std::size_t maxSize = maxSize_\s*(<|<=)\s*sizeof\(LargeData\)\s*\?\s*sizeof\(LargeData\)\s*:\s*maxSize_;", src)
    if not m:
        raise ValueError("maxSize definition not recognised")
    # moved-from behaviour: AnyData(AnyData&&) move-constructs through the table; LargeData(LargeData&&) swaps pointers
    mv = re.search(r"AnyData\(AnyData && other\)\s*:\s*functions\(other\.functions\),\s*buffer\(\)\s*\{\s*if\(functions != nullptr\)\s*\{\s*functions->moveConstruct\(other\.buffer\.data\(\), buffer\.data\(\)\);", src)
    lm = re.search(r"LargeData\(LargeData && other\)\s*:\s*data\(\),\s*deleter\(\)\s*\{\s*std::swap\(data, other\.data\);\s*std::swap\(deleter, other\.deleter\);", src)
    dt = re.search(r"~AnyData\(\)\s*\{\s*if\(functions != nullptr\)\s*\{\s*functions->free\(buffer\.data\(\)\);", src)
    ld = re.search(r"~LargeData\(\)\s*\{\s*if\(data != nullptr\)\s*\{\s*assert\(deleter != nullptr\);\s*deleter\(data\);", src)
    text = GEN_HEADER % "include/eventpp/utilities/anydata.h size-split constructors, maxSize, move/destroy shape"
    text += "namespace Evp.Gen.AnyData\n\n"
    text += "/-- enable_if condition of the constructor that stores the object in the inline buffer -/\n"
    text += "def inlineCond (size maxSize : Nat) : Bool := decide (size %s maxSize)\n\n" % CMP_LEAN[kinds["inline"]]
    text += "/-- enable_if condition of the constructor that stores a heap-owning LargeData -/\n"
    text += "def largeCond (size maxSize : Nat) : Bool := decide (size %s maxSize)\n\n" % CMP_LEAN[kinds["large"]]
    text += "/-- `maxSize` from the template argument and `sizeof(LargeData)` -/\n"
    text += "def effCap (cap szLarge : Nat) : Nat := if cap %s szLarge then szLarge else cap\n\n" % CMP_LEAN[m.group(1)]
    text += "/-- the move constructor move-constructs the held object through the function table; LargeData's move swaps\n    the pointers; both destructors release what is held, guarded by a null test -/\n"
    text += "def moveThroughTable : Bool := %s\ndef largeMoveSwaps : Bool := %s\ndef dtorFreesHeld : Bool := %s\ndef largeDtorDeletes : Bool := %s\n\n" % tuple(
        "true" if x else "false" for x in (mv, lm, dt, ld))
    text += "end Evp.Gen.AnyData\n"
    return True, text, ""


@fragment("RemoverFrag")
def frag_removers():
    """CounterRemover / ConditionalRemover wrapper bodies: `test; remove when due; call the wrapped listener`"""
    text = GEN_HEADER % "include/eventpp/utilities/counterremover.h, conditionalremover.h wrapper operator()"
    text += "namespace Evp.Gen.Remover\n\n"
    rm = r"data->(dispatcher\.removeListener\(data->event,data->handle\)|callbackList\.remove\(data->handle\));"
    src = inline_void_helpers(strip_comments(read_src("include/eventpp/utilities/counterremover.h")), rm)
    def wrapper_bodies(text, first):
        """bodies of the wrappers' `template <typename ...P> auto operator()(P && ...p) const -> enable_if<[!]CanInvoke<first, P...>...>`,
        with the pack renamed to Args / args"""
        res = []
        for m in re.finditer(r"template\s*<\s*typename\s*\.\.\.\s*(\w+)\s*>\s*auto\s+operator\s*\(\)\s*\(\s*\1\s*&&\s*\.\.\.\s*(\w+)\s*\)\s*const\s*->\s*typename\s+std::enable_if<\s*!?\s*internal_::CanInvoke<\s*"
                             + first + r"\s*,\s*\1\s*\.\.\.\s*>::value(?:\s*,\s*void)?\s*>::type(?:\s+const)?\s*\{", text):
            i, depth = m.end() - 1, 0
            for j in range(i, len(text)):
                depth += {"{": 1, "}": -1}.get(text[j], 0)
                if depth == 0:
                    break
            res.append(rename_words(text[i + 1:j], {m.group(1): "Args", m.group(2): "args"}))
        return res
    bodies = wrapper_bodies(src, "Callback")
    if len(bodies) != 2:
        raise ValueError("expected the two CounterRemover wrapper bodies, found %d" % len(bodies))
    shapes = set()
    rm = r"data->(dispatcher\.removeListener\(data->event,data->handle\)|callbackList\.remove\(data->handle\));"
    call = r"data->listener\(std::forward<Args>\(args\)\.\.\.\);"
    for b in bodies:
        n = BoolExpr.norm(b)
        # shape A: if(--count OP T) { remove }  listener(...)
        m = re.fullmatch(r"if\(--data->triggerCount(<=|<|==)(-?\d+)\)\{" + rm + r"\}" + call, n)
        if m:
            shapes.add(("A", m.group(1), int(m.group(2))))
            continue
        # shape B: if(count OP T) { remove } else { --count; }  listener(...)
        m = re.fullmatch(r"if\(data->triggerCount(<=|<|==)(-?\d+)\)\{" + rm + r"\}else\{--data->triggerCount;\}" + call, n)
        if m:
            shapes.add(("B", m.group(1), int(m.group(3 - 1))))
            continue
        # shape B with the branches swapped: if(count OP' T) { --count; } else { remove }  listener(...)
        m = re.fullmatch(r"if\(data->triggerCount(>=|>|!=)(-?\d+)\)\{--data->triggerCount;\}else\{" + rm + r"\}" + call, n)
        if m:
            shapes.add(("B", {">": "<=", ">=": "<", "!=": "=="}[m.group(1)], int(m.group(2))))
            continue
        raise ValueError("CounterRemover wrapper body not recognised: " + n)
    if len(shapes) != 1:
        raise ValueError("the two CounterRemover wrappers differ: %r" % (shapes,))
    shape, op, thr = shapes.pop()
    text += "/-- `--x` on a 32-bit `int` (wraps at INT_MIN; the real code has undefined behaviour there) -/\n"
    text += "def dec32 (x : Int) : Int := if x = -2147483648 then 2147483647 else x - 1\n\n"
    if shape == "A":
        text += "/-- one call of the wrapper on the stored count: `if(--triggerCount %s %d) remove;` - (is the removal due?, new count) -/\n" % (op, thr)
        text += "def call (c : Int) : Bool × Int := (decide (dec32 c %s %d), dec32 c)\n" % (CMP_LEAN[op], thr)
    else:
        text += "/-- one call of the wrapper on the stored count: `if(triggerCount %s %d) remove; else --triggerCount;` - (is the removal due?, new count) -/\n" % (op, thr)
        text += "def call (c : Int) : Bool × Int := if c %s %d then (true, c) else (false, dec32 c)\n" % (CMP_LEAN[op], thr)
    text += "/-- the listener is removed (when due) before the wrapped listener is called, and the wrapped listener is called on every call -/\n"
    text += "def removeBeforeCall : Bool := true\n\n"
    src2 = inline_void_helpers(strip_comments(read_src("include/eventpp/utilities/conditionalremover.h")), rm)
    bodies2 = wrapper_bodies(src2, r"\w+")
    if len(bodies2) != 4:
        raise ValueError("expected four ConditionalRemover wrapper bodies, found %d" % len(bodies2))
    for b in bodies2:
        n = BoolExpr.norm(b)
        if not re.fullmatch(r"if\(data->shouldRemove\((args\.\.\.)?\)\)\{data->(dispatcher\.removeListener\(data->event,data->handle\)|callbackList\.remove\(data->handle\));\}data->listener\(std::forward<Args>\(args\)\.\.\.\);", n):
            raise ValueError("ConditionalRemover wrapper body not recognised: " + n)
    text += "/-- ConditionalRemover: `if(shouldRemove(args...)) remove; listener(args...)` — one evaluation per call, removal before the call -/\n"
    text += "def condEvaluatedOnce : Bool := true\n\n"
    text += "end Evp.Gen.Remover\n"
    return True, text, ""


@fragment("QueueFrag")
def frag_queue():
    """eventqueue.h / hetereventqueue.h: order of the two reads of emptyQueue(), of doCanProcess(), and whether
    ~DisableQueueNotify decrements under queueListMutex"""
    out = {}
    for rel, key in (("include/eventpp/eventqueue.h", "homo"), ("include/eventpp/hetereventqueue.h", "heter")):
        src = strip_comments(read_src(rel))
        body = strip_comments(find_function_body(src, r"bool\s+emptyQueue\(\)\s*const\s*\{"))
        body = body.replace('EVENTPP_VERIF_POINT("q.empty");', "")
        eatoms = {"queueList.empty()": ("L", True)}
        eatoms.update(zero_test_atoms("queueEmptyCounter.load(std::memory_order_acquire)", "C"))
        e = ordered_semantics(single_return_expr(body), eatoms)
        if e == ordered_semantics("L && C", {"L": ("L", True), "C": ("C", True)}):
            out[key + "_listFirst"] = True
        elif e == ordered_semantics("C && L", {"L": ("L", True), "C": ("C", True)}):
            out[key + "_listFirst"] = False
        else:
            raise ValueError("emptyQueue() not recognised in %s: %s" % (rel, BoolExpr.norm(single_return_expr(body))))
        patoms = {"emptyQueue()": ("E", True), "doCanNotifyQueueAvailable()": ("N", True)}
        ctext = single_return_expr(find_function_body(src, r"bool\s+doCanProcess\(\)\s*const\s*\{"))
        c = ordered_semantics(ctext, patoms)
        if c == ordered_semantics("!E && N", {"E": ("E", True), "N": ("N", True)}):
            out[key + "_emptyFirst"] = True
        elif c == ordered_semantics("N && !E", {"E": ("E", True), "N": ("N", True)}):
            out[key + "_emptyFirst"] = False
        else:
            raise ValueError("doCanProcess() not recognised in %s: %s" % (rel, BoolExpr.norm(ctext)))
        # doCanNotifyQueueAvailable() is one acquire load of queueNotifyCounter compared with zero
        ntext = single_return_expr(find_function_body(src, r"bool\s+doCanNotifyQueueAvailable\(\)\s*const\s*\{"))
        if ordered_semantics(ntext, zero_test_atoms("queueNotifyCounter.load(std::memory_order_acquire)", "N")) != \
                ordered_semantics("N", {"N": ("N", True)}):
            raise ValueError("doCanNotifyQueueAvailable() not recognised in %s: %s" % (rel, BoolExpr.norm(ntext)))
        if key != "homo":
            continue   # the heterogeneous queue has no DisableQueueNotify
        d = BoolExpr.norm(find_function_body(src, r"~DisableQueueNotify\(\)\s*\{"))
        dm = re.fullmatch(r"(--queue->queueNotifyCounter;|\{std::lock_guard<(?:typename)?\w*Mutex>\w+\(queue->queueListMutex\);--queue->queueNotifyCounter;\})"
                          r"if\((.*)\)\{queue->queueListConditionVariable\.notify_one\(\);\}", d)
        datoms = {"queue->emptyQueue()": ("E", True), "queue->doCanNotifyQueueAvailable()": ("N", True)}
        if not dm or ordered_semantics(dm.group(2), datoms) != ordered_semantics("N && !E", {"E": ("E", True), "N": ("N", True)}):
            raise ValueError("~DisableQueueNotify not recognised in %s: %s" % (rel, d))
        out[key + "_dqnLocked"] = dm.group(1).startswith("{")
        # every live DisableQueueNotify object is counted once (the model's nc is the number of live objects): the copy
        # operations are deleted, or the copy constructor registers the copy (++counter) and the copy assignment leaves
        # the count of each queue as it was (no-op for the same queue, copy-and-swap otherwise); no other special members
        sm = re.search(r"struct\s+DisableQueueNotify\s*\{(.*?)\n\t\};", src, re.S)
        if not sm:
            raise ValueError("struct DisableQueueNotify not found")
        sb = BoolExpr.norm(sm.group(1))
        cc = re.search(r"DisableQueueNotify\(constDisableQueueNotify&(\w*)\)(=delete;|:queue\(\1\.queue\)\{\+\+queue->queueNotifyCounter;\})", sb)
        ca = re.search(r"DisableQueueNotify&operator=\(constDisableQueueNotify&(\w*)\)(=delete;|\{if\(queue!=\1\.queue\)\{DisableQueueNotify(\w+)\(\1\);std::swap\(queue,\3\.queue\);\}return\*this;\})", sb)
        moves = re.search(r"DisableQueueNotify&&", sb)
        ctor = re.search(r"DisableQueueNotify\(EventQueueBase\*(\w+)\):queue\(\1\)\{\+\+queue->queueNotifyCounter;\}", sb)
        out[key + "_dqnCopyCounts"] = bool(cc and ca and ctor and not moves)
    text = GEN_HEADER % "eventqueue.h / hetereventqueue.h emptyQueue, doCanProcess, ~DisableQueueNotify"
    text += "namespace Evp.Gen.Queue\n\n"
    for k, v in out.items():
        text += "def %s : Bool := %s\n" % (k, "true" if v else "false")
    text += "\nend Evp.Gen.Queue\n"
    return True, text, ""


@fragment("CtorFrag")
def frag_ctor():
    """constructor member-initialiser tables of the classes with scalar (atomic counter) members"""
    entries = []
    specs = [("include/eventpp/eventqueue.h", "EventQueueBase"), ("include/eventpp/hetereventqueue.h", "HeterEventQueueBase"),
             ("include/eventpp/callbacklist.h", "CallbackListBase")]
    for rel, cls in specs:
        raw = read_src(rel)
        cut = raw.find("} //namespace internal_")
        if cut < 0:
            raise ValueError("end of namespace internal_ not found in %s" % rel)
        src = strip_comments(raw[:cut])
        # the data members: the last `private:` section (of the *Base class) that is a plain list of declarations
        section = None
        for pm in reversed(list(re.finditer(r"private:", src))):
            close = src.find("};", pm.end())
            cand = src[pm.end():close] if close > 0 else ""
            if cand.strip() and "{" not in cand and "(" not in cand and ";" in cand:
                section = cand
                break
        if section is None:
            raise ValueError("member section of %s not found" % cls)
        members = []
        for decl in section.split(";"):
            decl = decl.strip()
            if not decl:
                continue
            name = re.split(r"\s+", decl)[-1]
            scalar = "Atomic<" in decl
            members.append((name, scalar))
        if not members:
            raise ValueError("no members parsed for %s" % cls)
        # constructors: name(args) [noexcept] : init-list {
        for cm in re.finditer(r"\n\t(?:explicit\s+)?%s\(([^)]*)\)\s*(?:noexcept)?\s*(:\s*[^{]*)?\{" % cls, src):
            args = BoolExpr.norm(cm.group(1))
            kind = "default" if args == "" else ("copy" if args.startswith("const" + cls) else ("move" if "&&" in args else "other"))
            init = cm.group(2) or ""
            inits = set(re.findall(r"(\w+)\s*\(", init))
            delegates = cls in inits
            # the initialiser items `name(args)` at the top level of the list, with their argument text
            args_of = {}
            body = init.lstrip(" :\n\t")
            depth, cur, items = 0, "", []
            for ch in body:
                if ch == "(":
                    depth += 1
                elif ch == ")":
                    depth -= 1
                if ch == "," and depth == 0:
                    items.append(cur)
                    cur = ""
                else:
                    cur += ch
            if cur.strip():
                items.append(cur)
            for it in items:
                im = re.match(r"\s*(\w+)\s*\((.*)\)\s*$", it, re.S)
                if im:
                    args_of[im.group(1)] = BoolExpr.norm(im.group(2))
            for name, scalar in members:
                val = args_of.get(name, "<delegated>" if delegates else "<none>")
                entries.append((cls, kind, name, scalar, delegates or name in inits, val if scalar else ""))
    # SpinLock has no constructor: its flag must carry a default member initialiser (before C++20 a default
    # constructed std::atomic_flag is indeterminate, and members of this type are not always named in the
    # initialiser lists of the classes that hold one, e.g. ScopedRemover::itemListMutex)
    psrc = strip_comments(read_src("include/eventpp/eventpolicies.h"))
    sm = re.search(r"struct\s+SpinLock\s*\{(.*?)\n\};", psrc, re.S)
    if not sm:
        raise ValueError("struct SpinLock not found")
    fm = re.search(r"std::atomic_flag\s+(\w+)\s*(?:=\s*([^;]+?)\s*|\{\s*([^}]*?)\s*\}\s*)?;", sm.group(1))
    if not fm:
        raise ValueError("SpinLock flag member not found")
    finit = fm.group(2) if fm.group(2) is not None else (("{" + fm.group(3) + "}") if fm.group(3) is not None else None)
    entries.append(("SpinLock", "default", fm.group(1), True, finit is not None, BoolExpr.norm(finit) if finit is not None else "<none>"))
    text = GEN_HEADER % "member-initialiser lists of EventQueueBase, HeterEventQueueBase, CallbackListBase constructors; SpinLock's flag"
    text += "namespace Evp.Gen.Ctor\n\nstructure Entry where\n  cls : String\n  ctor : String\n  member : String\n  scalar : Bool\n  initialised : Bool\n  /-- for scalar members: the initialiser's argument text, `<delegated>` or `<none>` -/\n  init : String\nderiving DecidableEq, Repr\n\n"
    text += "/-- one row per (class, constructor, data member): is the member named in the constructor's initialiser list\n    (or does the constructor delegate to one that names it)? `scalar` = the atomic counters -/\n"
    text += "def table : List Entry := [\n"
    text += ",\n".join('  ⟨"%s", "%s", "%s", %s, %s, "%s"⟩' % (c, k, n, "true" if sc else "false", "true" if i else "false", v.replace('"', "'")) for c, k, n, sc, i, v in entries)
    text += "\n]\n\nend Evp.Gen.Ctor\n"
    if not any(e[1] == "copy" for e in entries) or not any(e[3] for e in entries):
        raise ValueError("constructor table incomplete")
    return True, text, ""


@fragment("DispatchFrag")
def frag_dispatch():
    """call expressions that both read the event from an argument and forward the same argument: is the read
    sequenced before the forwarding (own statement / braced initialiser list) or an unsequenced sibling argument?"""
    out = {}
    src = strip_comments(read_src("include/eventpp/eventdispatcher.h"))
    bodies = re.findall(r"void dispatch\((?:T && first, )?Args \.\.\.args\) const\s*\{(.*?)\n\t\}", src, re.S)
    if len(bodies) != 2:
        raise ValueError("expected the two dispatch() bodies, found %d" % len(bodies))
    for i, b in enumerate(bodies):
        n = BoolExpr.norm(b)
        n = re.sub(r"static_assert\(.*?\);", "", n)
        n = re.sub(r"usingGetEvent=.*?::Type;", "", n)
        m = re.fullmatch(r"(?:const)?(Event|auto)(&)?(\w+)=GetEvent::getEvent\((std::forward<T>\(first\),)?args\.\.\.\);directDispatch\(\3,std::forward<Args>\(args\)\.\.\.\);", n)
        if m:
            # the event has to be the library's own copy: a reference (or an `auto` proxy such as std::reference_wrapper)
            # can alias an argument that the next statement forwards away
            out["dispatch%d" % i] = m.group(1) == "Event" and m.group(2) is None
        elif re.fullmatch(r"directDispatch\(GetEvent::getEvent\((std::forward<T>\(first\),)?args\.\.\.\),std::forward<Args>\(args\)\.\.\.\);", n):
            out["dispatch%d" % i] = False
        else:
            raise ValueError("dispatch() body not recognised: " + n)
    src = strip_comments(read_src("include/eventpp/eventqueue.h"))
    calls = re.findall(r"doEnqueue\(QueuedEvent(\{|\()\s*GetEvent::getEvent\(", src)
    if len(calls) != 2:
        raise ValueError("expected two enqueue() call sites building a QueuedEvent, found %d" % len(calls))
    out["enqueueBraced"] = all(c == "{" for c in calls)      # braced initialiser lists are evaluated left to right
    src = strip_comments(read_src("include/eventpp/hetereventqueue.h"))
    n = BoolExpr.norm(src)
    inside = len(re.findall(r"doEnqueueItem\(QueuedItemType\(PrototypeInfo::index,GetEvent::getEvent\(", n))
    before = len(re.findall(r"constEventType_event=GetEvent::getEvent\(std::forward<T>\(first\),args\.\.\.\);doEnqueueItem\(QueuedItemType\(PrototypeInfo::index,event,", n))
    if inside + before != 2:
        raise ValueError("heterogeneous doEnqueue call sites not recognised (%d inside, %d before)" % (inside, before))
    out["heterEnqueue"] = inside == 0
    # every call of the getEvent policy, with the argument list its selection probe (HasFunctionGetEvent<Policies_, X>,
    # which silently falls back to "the first argument is the event" when the policy is not callable with X) was
    # instantiated with: the alias in scope is the nearest `using GetEvent = ...` before the call
    def shape(x):
        x = BoolExpr.norm(x)
        if x in ("Args...", "A...", "args..."):
            return "pack"
        if x in ("T&&,Args...", "T&&,A...", "std::forward<T>(first),args..."):
            return "first,pack"
        return x
    sites = []
    for fn in ("eventdispatcher.h", "eventqueue.h", "hetereventdispatcher.h", "hetereventqueue.h"):
        fsrc = strip_comments(read_src("include/eventpp/" + fn))
        aliases = [(m.start(), m.group(1)) for m in re.finditer(r"using\s+GetEvent\s*=[^;]*?HasFunctionGetEvent<\s*Policies_\s*,([^;]*?)>::value\s*>::Type;", fsrc, re.S)]
        k = 0
        for m in re.finditer(r"GetEvent::getEvent\(", fsrc):
            depth, j = 1, m.end()
            while depth and j < len(fsrc):
                depth += {"(": 1, ")": -1}.get(fsrc[j], 0)
                j += 1
            call = fsrc[m.end():j - 1]
            before = [a for a in aliases if a[0] < m.start()]
            probe = before[-1][1] if before else "<no alias in scope>"
            sites.append(("%s#%d" % (fn, k), shape(probe), shape(call)))
            k += 1
    if len(sites) != 8:
        raise ValueError("expected 8 calls of the getEvent policy, found %d" % len(sites))
    text = GEN_HEADER % "eventdispatcher.h dispatch x2, eventqueue.h enqueue x2, hetereventqueue.h doEnqueue x2; every GetEvent::getEvent call with its selection probe"
    text += "namespace Evp.Gen.Dispatch\n\n/-- for each call expression: is reading the event sequenced before forwarding the arguments (and, in dispatch, kept as a copy of its own)? -/\n"
    for k, v in out.items():
        text += "def %s : Bool := %s\n" % (k, "true" if v else "false")
    text += "\ndef allSequenced : Bool := " + " && ".join(out.keys()) + "\n"
    text += "\n/-- (call site, argument list the getEvent selection probe was instantiated with, argument list of the call) -/\n"
    text += "def getEventSites : List (String × String × String) := [\n"
    text += ",\n".join('  ("%s", "%s", "%s")' % (a, b.replace('"', "'"), c.replace('"', "'")) for a, b, c in sites)
    text += "\n]\n\nend Evp.Gen.Dispatch\n"
    return True, text, ""


# ---------------------------------------------------------------------------------------------
# pointer statements of callbacklist.h -> terms of Evp.PL.Stmt (CL/PtrLang.lean)
# ---------------------------------------------------------------------------------------------

class PtrStmts:
    """stmts := stmt* ; stmt := 'if' '(' cond ')' '{' stmts '}' ('else' '{' stmts '}')? | 'while' '(' path ')' '{' stmts '}'
    | 'NodePtr'? path '=' rhs ';' | '{' ('std::lock_guard<Mutex>' ident '(' 'mutex' ')' ';')? stmts '}'
    cond := path | path '==' path ; path := ident ('->' ident)* ; rhs := path | 'removedCounter' | integer"""
    VARS = {"node": 0, "beforeNode": 1}

    def __init__(self, text, params=None):
        # pointer variables: the function's parameters, in order (index 0, 1), or the defaults
        self.VARS = dict(self.VARS) if params is None else {nm: i for i, nm in enumerate(params)}
        text = re.sub(r"std::lock_guard<\s*Mutex\s*>\s*\w+\s*\(\s*mutex\s*\)\s*;", " LOCKGUARD ; ", strip_comments(text))
        self.toks = re.findall(r"->|==|[A-Za-z_]\w*|\d+|[{}();=]", text)
        rest = re.sub(r"->|==|[A-Za-z_]\w*|\d+|[{}();=]|\s+", "", text)
        if rest:
            raise ValueError("unexpected characters in pointer code: %r" % rest[:40])
        self.i = 0
        self.locked = False

    def peek(self):
        return self.toks[self.i] if self.i < len(self.toks) else None

    def eat(self, t=None):
        tok = self.peek()
        if tok is None or (t is not None and tok != t):
            raise ValueError("expected %r, found %r" % (t, tok))
        self.i += 1
        return tok

    def path(self):
        name = self.eat()
        if name == "head":
            p = ".head"
        elif name == "tail":
            p = ".tail"
        elif name in self.VARS:
            p = "(.var %d)" % self.VARS[name]
        else:
            raise ValueError("unknown pointer variable %r" % name)
        while self.peek() == "->":
            self.eat()
            f = self.eat()
            if f == "counter":
                return ("counter", p)
            if f not in ("previous", "next"):
                raise ValueError("unknown field %r" % f)
            p = "(.fld %s .%s)" % (p, "prev" if f == "previous" else "next")
        return ("ptr", p)

    def ptr(self):
        k, p = self.path()
        if k != "ptr":
            raise ValueError("pointer expected")
        return p

    def cond(self):
        a = self.ptr()
        if self.peek() == "==":
            self.eat()
            return "(.eq %s %s)" % (a, self.ptr())
        return "(.nonnull %s)" % a

    def block(self):
        self.eat("{")
        s = self.stmts(until="}")
        self.eat("}")
        return s

    def stmts(self, until=None):
        out = []
        while self.peek() is not None and self.peek() != until:
            out.append(self.stmt())
        if not out:
            return ".skip"
        r = out[-1]
        for s in reversed(out[:-1]):
            r = "(.seq %s %s)" % (s, r)
        return r

    def stmt(self):
        if self.peek() == "if":
            self.eat()
            self.eat("(")
            c = self.cond()
            self.eat(")")
            t = self.block()
            e = ".skip"
            if self.peek() == "else":
                self.eat()
                e = self.block()
            return "(.ite %s %s %s)" % (c, t, e)
        if self.peek() == "while":
            self.eat()
            self.eat("(")
            c = self.ptr()
            self.eat(")")
            return "(.whileNN %s %s)" % (c, self.block())
        if self.peek() == "for":
            # for(init; p; step) { body }  ==  init; while(p) { body; step }
            self.eat()
            self.eat("(")
            init = self.assignment(";")
            c = self.ptr()
            self.eat(";")
            step = self.assignment(")")
            body = self.block()
            return "(.seq %s (.whileNN %s %s))" % (init, c, step if body == ".skip" else "(.seq %s %s)" % (body, step))
        if self.peek() == "{":
            # a scope (with or without a lock_guard on the list mutex): sequential semantics
            return self.block()
        if self.peek() == "LOCKGUARD":
            self.eat()
            self.eat(";")
            self.locked = True
            return ".skip"
        return self.assignment(";")

    def assignment(self, end):
        if self.peek() in ("NodePtr", "auto"):
            self.eat()          # declaration of a local pointer with initialiser: it becomes pointer variable 0
            if self.peek() not in self.VARS and len(self.VARS) == 0:
                self.VARS[self.peek()] = 0
        k, p = self.path()
        self.eat("=")
        if k == "counter":
            v = self.eat()
            if v == "removedCounter":
                v = "0"
            if not v.isdigit():
                raise ValueError("counter value expected, found %r" % v)
            self.eat(end)
            return "(.setCounter %s %s)" % (p, v)
        r = self.ptr()
        self.eat(end)
        return "(.assign %s %s)" % (p, r)


@fragment("ClFrag")
def frag_cl():
    """the straight-line pointer code of the callback list (doAppend, doInsert, doFreeNode) as Stmt terms, and the
    boolean conditions that guard them (traversal guard, remove / insert / ownsHandle tests)"""
    src = strip_comments(read_src("include/eventpp/callbacklist.h"))
    out = {}
    for name, sig in (("doAppend", r"void\s+doAppend\s*\(\s*(?:const\s+)?NodePtr\s*&\s*(\w+)\s*\)\s*\{"),
                      ("doInsert", r"void\s+doInsert\s*\(\s*(?:const\s+)?NodePtr\s*&\s*(\w+)\s*,\s*(?:const\s+)?NodePtr\s*&\s*(\w+)\s*\)\s*\{"),
                      ("doFreeNode", r"void\s+doFreeNode\s*\(\s*(?:const\s+)?NodePtr\s*&\s*(\w+)\s*\)\s*\{")):
        body = find_function_body(src, sig)
        p = PtrStmts(body, params=list(re.search(sig, src, re.S).groups()))
        out[name] = p.stmts()
        if p.peek() is not None:
            raise ValueError("trailing tokens in " + name)
    # the conditions, as functions of (node counter, captured counter): 0 is removedCounter
    atoms = {"node->counter!=removedCounter": "(nc != 0)", "counter>=node->counter": "decide (cap ≥ nc)",
             "node->counter==removedCounter": "(nc == 0)", "node->counter<=counter": "decide (cap ≥ nc)",
             "node": "nonnull", "beforeNode": "nonnull", "beforeNode->counter!=removedCounter": "(nc != 0)",
             "beforeNode->counter==removedCounter": "(nc == 0)"}

    def inline_bool_helpers(cond):
        """`name(arg)` -> the returned expression of `[static] bool name(const NodePtr & p) [const] { return E; }` with p := arg"""
        def sub(m):
            sig = r"bool\s+%s\s*\(\s*(?:const\s+)?NodePtr\s*&\s*(\w+)\s*\)\s*(?:const\s*)?\{" % re.escape(m.group(1))
            hm = re.search(sig, src, re.S)
            if not hm:
                return m.group(0)
            e = single_return_expr(find_function_body(src, sig))
            return "(" + rename_words(e, {hm.group(1): m.group(2)}) + ")"
        return re.sub(r"\b(do\w+|is\w+)\s*\(\s*(\w+)\s*\)", sub, cond)
    fsig = r"bool\s+doForEachIf\s*\(\s*\w+\s*&&\s*(\w+)\s*\)\s*const\s*\{"
    body = find_function_body(src, fsig)
    fname = re.escape(re.search(fsig, src, re.S).group(1))
    m = re.search(r"while\s*\(\s*node\s*\)\s*\{(?:\s*EVENTPP_VERIF_POINT\([^)]*\);)?\s*if\s*\((.*?)\)\s*\{\s*if\s*\(\s*!\s*" + fname + r"\s*\(\s*node\s*\)\s*\)", body, re.S)
    if not m:
        raise ValueError("doForEachIf loop not recognised")
    guard = BoolExpr(inline_bool_helpers(m.group(1)), atoms).parse()
    body = find_function_body(src, r"bool\s+remove\s*\(\s*const\s+Handle\s*&\s*handle\s*\)\s*\{")
    m = re.search(r"if\s*\((.*?)\)\s*\{\s*doFreeNode\s*\(\s*node\s*\)\s*;\s*return\s+true\s*;\s*\}\s*return\s+false\s*;", body, re.S)
    # the same test as an early return: if(NOT) { return false; } doFreeNode(node); return true;
    m2 = re.search(r"if\s*\((.*?)\)\s*\{\s*return\s+false\s*;\s*\}\s*doFreeNode\s*\(\s*node\s*\)\s*;\s*return\s+true\s*;", body, re.S)
    if m:
        rem = BoolExpr(inline_bool_helpers(m.group(1)), atoms).parse()
    elif m2:
        rem = "(!%s)" % BoolExpr(inline_bool_helpers(m2.group(1)), atoms).parse()
    else:
        raise ValueError("remove() not recognised")
    # insert(): the test that chooses between doInsert and doAppend, and whether it is made under the list mutex
    body = BoolExpr.norm(re.sub(r"EVENTPP_VERIF_POINT\([^)]*\);", "", find_function_body(src, r"Handle\s+insert\s*\(\s*const\s+Callback\s*&\s*callback\s*,\s*const\s+Handle\s*&\s*before\s*\)\s*\{")))
    m = re.search(r"if\(([^{};]*?)\)\{(doInsert\(node,beforeNode\)|doAppend\(node\));\}else\{(doInsert\(node,beforeNode\)|doAppend\(node\));\}", body)
    if not m or m.group(2) == m.group(3):
        raise ValueError("insert() not recognised: " + body)
    ins = BoolExpr(inline_bool_helpers(m.group(1)), atoms).parse()
    if m.group(2).startswith("doAppend"):
        ins = "(!%s)" % ins          # the branches are the other way round
    lm = re.search(r"std::lock_guard<Mutex>\w+\(mutex\);", body)
    lockpos = lm.start() if lm else -1
    ins_locked = 0 <= lockpos < m.start()
    # the block that holds the lock must be the one that contains the test (no closing brace in between)
    if ins_locked and "}" in body[lockpos:m.start()]:
        ins_locked = False
    # getNextCounter(): `Counter result = ++currentCounter; if(result == 0) { <reset loop> result = ++currentCounter; } return result;`
    body = find_function_body(src, r"Counter\s+getNextCounter\s*\(\s*\)\s*\{")
    m = re.fullmatch(r"\s*Counter\s+(\w+)\s*=\s*\+\+currentCounter\s*;\s*;?\s*if\s*\(\s*\1\s*==\s*0\s*\)\s*\{(.*)\1\s*=\s*\+\+currentCounter\s*;\s*\}\s*return\s+\1\s*;\s*", body, re.S)
    if not m:
        raise ValueError("getNextCounter() not recognised")
    pw = PtrStmts(m.group(2), params=[])
    out["wrapReset"] = pw.stmts()
    if pw.peek() is not None:
        raise ValueError("trailing tokens in the wrap branch of getNextCounter")
    wrap_locked = pw.locked
    def canon(e, canonical):
        """the canonical spelling when `e` is the same boolean function of the atoms (truth table over independent atoms:
        equal tables give equal functions, so what is emitted still says what the source says)"""
        import itertools
        def table(x):
            x = x.replace("(nc != 0)", "NZ").replace("(nc == 0)", "(not NZ)").replace("decide (cap ≥ nc)", "GE").replace("nonnull", "NN")
            x = x.replace("&&", " and ").replace("||", " or ").replace("!", " not ")
            return [bool(eval(x, {"NZ": a, "GE": b, "NN": c})) for a, b, c in itertools.product((False, True), repeat=3)]
        return canonical if table(e) == table(canonical) else e
    guard = canon(guard, "((nc != 0) && decide (cap ≥ nc))")
    rem = canon(rem, "(nonnull && (nc != 0))")
    ins = canon(ins, "(nc != 0)")
    text = GEN_HEADER % "callbacklist.h doAppend / doInsert / doFreeNode bodies, wrap branch of getNextCounter, doForEachIf guard, remove() and insert() tests"
    text += "import EventppVerif.CL.PtrLang\nnamespace Evp.Gen.Cl\nopen Evp.PL\n\n"
    for k, v in out.items():
        text += "def %s : Stmt :=\n  %s\n\n" % (k, v[1:-1] if v.startswith("(") and v.endswith(")") else v)
    text += "/-- the test in front of a callback's invocation in doForEachIf: nc = node->counter, cap = the captured counter -/\n"
    text += "def guard (nc cap : Nat) : Bool := %s\n\n" % guard
    text += "/-- the test in remove(): nonnull = the handle locked, nc = node->counter -/\n"
    text += "def removeTest (nonnull : Bool) (nc : Nat) : Bool := %s\n\n" % rem
    text += "/-- the test in insert() that selects doInsert (true) or doAppend (false): nc = beforeNode->counter -/\n"
    text += "def insertTest (nc : Nat) : Bool := %s\n\n" % ins
    text += "/-- is that test made after the list mutex was taken (in the same block)? -/\n"
    text += "def insertTestLocked : Bool := %s\n\n" % ("true" if ins_locked else "false")
    text += "/-- getNextCounter has the shape `r = ++cur; if(r == 0) { wrapReset; r = ++cur; } return r`; is wrapReset under the list mutex? -/\n"
    text += "def wrapResetLocked : Bool := %s\n\nend Evp.Gen.Cl\n" % ("true" if wrap_locked else "false")
    return True, text, ""


@fragment("SpinFrag")
def frag_spin():
    """eventpolicies.h SpinLock: lock() is a test-and-set loop on an atomic_flag, unlock() clears it"""
    src = strip_comments(read_src("include/eventpp/eventpolicies.h"))
    sm = re.search(r"struct\s+SpinLock\s*\{(.*?)\n\};", src, re.S)
    if not sm:
        raise ValueError("struct SpinLock not found")
    body = sm.group(1)
    lock = BoolExpr.norm(find_function_body(body, r"void\s+lock\s*\(\s*\)\s*\{"))
    unlock = BoolExpr.norm(find_function_body(body, r"void\s+unlock\s*\(\s*\)\s*\{"))
    fm = re.search(r"std::atomic_flag\s+(\w+)", body)
    if not fm:
        raise ValueError("SpinLock: no std::atomic_flag member")
    f = re.escape(fm.group(1))
    tas = r"%s\.test_and_set\((std::memory_order_acquire|std::memory_order_acq_rel|std::memory_order_seq_cst)?\)" % f
    lock_ok = bool(re.fullmatch(r"while\(%s\)\{\}" % tas, lock) or re.fullmatch(r"while\(%s\);" % tas, lock)
                   or re.fullmatch(r"for\(;;\)\{if\(!%s\)\{?(return|break);\}?\}" % tas, lock))
    unlock_ok = bool(re.fullmatch(r"%s\.clear\((std::memory_order_release|std::memory_order_seq_cst)?\);" % f, unlock))
    text = GEN_HEADER % "eventpolicies.h SpinLock::lock / unlock"
    text += "namespace Evp.Gen.Spin\n\n"
    text += "/-- `lock()` is `while(flag.test_and_set(acquire)) {}` (or the equivalent `for(;;) if(!test_and_set) return;`) on a std::atomic_flag -/\n"
    text += "def lockIsTasLoop : Bool := %s\n\n" % ("true" if lock_ok else "false")
    text += "/-- `unlock()` is `flag.clear(release)` -/\ndef unlockIsClear : Bool := %s\n\nend Evp.Gen.Spin\n" % ("true" if unlock_ok else "false")
    return True, text, ("" if lock_ok and unlock_ok else "SpinLock shape not recognised: lock=%s unlock=%s" % (lock, unlock))
