#!/usr/bin/env python3
"""tools/try_seeded.py <patch.diff> [C01,C02,...]  — applies a change to /repo, runs the checks, reverts it.
Prints which checks report a violation (and whether with a concrete input)."""
import os
import subprocess
import sys
from concurrent.futures import ThreadPoolExecutor

ROOT = os.path.dirname(os.path.dirname(os.path.abspath(__file__)))
ALL = ["C%02d" % i for i in range(1, 21)]


def main():
    patch = os.path.abspath(sys.argv[1])
    checks = sys.argv[2].split(",") if len(sys.argv) > 2 else ALL
    st = subprocess.run(["git", "-C", "/repo", "status", "--porcelain", "--untracked-files=no"], capture_output=True, text=True).stdout.strip()
    if st:
        print("refusing: /repo has uncommitted changes:\n" + st)
        return 2
    r = subprocess.run(["git", "-C", "/repo", "apply", patch], capture_output=True, text=True)
    if r.returncode != 0:
        print("patch does not apply:", r.stderr)
        return 2
    try:
        def run(c):
            p = subprocess.run([os.path.join(ROOT, "check"), c], capture_output=True, text=True, timeout=3000,
                               env=dict(os.environ, VERIF_SEED=os.environ.get("VERIF_SEED", "1")))
            v = [l for l in p.stdout.splitlines() if l.startswith("VIOLATION")]
            return c, p.returncode, v
        with ThreadPoolExecutor(max_workers=5) as ex:
            res = list(ex.map(run, checks))
    finally:
        subprocess.run(["git", "-C", "/repo", "checkout", "--", "."])
        # the checks regenerated lean/EventppVerif/Generated from the changed tree: put the fragments of the clean tree back
        subprocess.run([sys.executable, "-c", "import translate; translate.regenerate(list(translate.FRAGMENTS))"],
                       cwd=os.path.join(ROOT, "tools"))
    caught = []
    for c, rc, v in res:
        kind = "-"
        if rc != 0:
            kind = "VIOLATION(no-input)" if v and v[0].endswith("no-failing-input-found") else "VIOLATION(input)"
            caught.append(c)
        print("%s rc=%d %s" % (c, rc, kind))
    print("CAUGHT-BY:", ",".join(caught) if caught else "none")
    return 0


if __name__ == "__main__":
    sys.exit(main())
