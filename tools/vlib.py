"""Shared machinery for the eventpp verification checks.

Everything a registered check needs lives under /verif (build output in /verif/build, which is
git-ignored); nothing is kept under /tmp.
"""
import fcntl
import hashlib
import json
import os
import threading
import random
import re
import subprocess
import sys
import time
from concurrent.futures import ThreadPoolExecutor

ROOT = os.path.dirname(os.path.dirname(os.path.abspath(__file__)))
REPO = os.environ.get("VERIF_REPO", "/repo")
LEAN = os.path.join(ROOT, "lean")
BUILD = os.path.join(ROOT, "build")
HARNESS = os.path.join(ROOT, "harness")
EVID = os.path.join(ROOT, "evidence")
REPLAYS = os.path.join(ROOT, "replays")
CORPUS = os.path.join(ROOT, "corpus")
DRIVER = os.path.join(LEAN, ".lake", "build", "bin", "driver")
GUARD = "EVENTPP_VERIF"

ALLOWED_AXIOMS = {"propext", "Classical.choice", "Quot.sound"}


def log(*a):
    print(*a, file=sys.stderr, flush=True)


def sh(cmd, cwd=None, timeout=None, input=None, env=None):
    """run a command, return (rc, stdout, stderr); rc=-9 on timeout"""
    try:
        p = subprocess.run(cmd, cwd=cwd, timeout=timeout, input=input, env=env,
                           stdout=subprocess.PIPE, stderr=subprocess.PIPE, text=True,
                           shell=isinstance(cmd, str))
        return p.returncode, p.stdout, p.stderr
    except subprocess.TimeoutExpired as e:
        out = e.stdout or ""
        err = e.stderr or ""
        if isinstance(out, bytes):
            out = out.decode(errors="replace")
        if isinstance(err, bytes):
            err = err.decode(errors="replace")
        return -9, out, err


class Lock:
    def __init__(self, name):
        os.makedirs(BUILD, exist_ok=True)
        self.path = os.path.join(BUILD, name + ".lock")

    def __enter__(self):
        self.f = open(self.path, "w")
        fcntl.flock(self.f, fcntl.LOCK_EX)
        return self

    def __exit__(self, *a):
        fcntl.flock(self.f, fcntl.LOCK_UN)
        self.f.close()


# ---------------------------------------------------------------------------------------------
# Lean side
# ---------------------------------------------------------------------------------------------

def lean_build(targets=("EventppVerif", "driver")):
    """lake build; returns (ok, log). Serialised across concurrently running checks."""
    with Lock("lake"):
        rc, out, err = sh(["lake", "build", *targets], cwd=LEAN, timeout=3000)
    return rc == 0, out + err


def lean_build_module(mod):
    with Lock("lake"):
        rc, out, err = sh(["lake", "build", mod], cwd=LEAN, timeout=3000)
    return rc == 0, out + err


_comment_re = re.compile(r"/-.*?-/", re.S)


def strip_lean_comments(src):
    src = _comment_re.sub("", src)
    return "\n".join(l.split("--")[0] for l in src.splitlines())


FORBIDDEN = re.compile(r"\bsorry\b|\badmit\b|^\s*axiom\s|native_decide|bv_decide|implemented_by|\bunsafe\s|maxHeartbeats\s+0", re.M)


def lean_forbidden_scan():
    """grep the library (comments stripped) for constructs the trusted base excludes"""
    hits = []
    for dp, _, fs in os.walk(os.path.join(LEAN, "EventppVerif")):
        for f in fs:
            if f.endswith(".lean"):
                p = os.path.join(dp, f)
                m = FORBIDDEN.search(strip_lean_comments(open(p).read()))
                if m:
                    hits.append((os.path.relpath(p, LEAN), m.group(0).strip()))
    return hits


def lean_axioms(theorems, imports):
    """#print axioms for each theorem; returns {name: [axioms]} or {name: None} if it does not exist"""
    os.makedirs(BUILD, exist_ok=True)
    path = os.path.join(BUILD, "Audit_%d.lean" % os.getpid())
    with open(path, "w") as f:
        for i in imports:
            f.write("import %s\n" % i)
        for t in theorems:
            f.write("#print axioms %s\n" % t)
    rc, out, err = sh(["lake", "env", "lean", path], cwd=LEAN, timeout=1200)
    os.unlink(path)
    res = {t: None for t in theorems}
    text = out + err
    # "'Name' depends on axioms: [a, b]"  or "'Name' does not depend on any axioms"
    for m in re.finditer(r"^'(.+?)' depends on axioms: \[([^\]]*)\]", text, re.M):
        res[m.group(1)] = [a.strip() for a in m.group(2).replace("\n", " ").split(",") if a.strip()]
    for m in re.finditer(r"^'(.+?)' does not depend on any axioms", text, re.M):
        res[m.group(1)] = []
    return res, text


# ---------------------------------------------------------------------------------------------
# C++ side
# ---------------------------------------------------------------------------------------------

SAN = ["-fsanitize=address,undefined", "-fno-sanitize-recover=all"]


def build_harness(src, out_name, std="c++17", cxx="g++", opt="-O1", defines=(), san=True, extra=()):
    """compile harness/<src> against /repo/include as it is now"""
    os.makedirs(BUILD, exist_ok=True)
    out = os.path.join(BUILD, out_name)
    cmd = [cxx, "-std=" + std, opt, "-g", "-fno-access-control", "-D" + GUARD,
           "-I" + os.path.join(REPO, "include"), "-I" + HARNESS]
    if san:
        cmd += SAN
    cmd += ["-D" + d for d in defines]
    cmd += list(extra)
    # compile to a private name, then rename atomically: checks may run concurrently and share harnesses
    # (two threads of one process may build the same variant when a variant list names it twice)
    tmp = "%s.tmp.%d.%d" % (out, os.getpid(), threading.get_ident())
    cmd += [os.path.join(HARNESS, src), "-o", tmp, "-pthread"]
    rc, o, e = sh(cmd, timeout=900)
    if rc == 0:
        os.replace(tmp, out)
    elif os.path.exists(tmp):
        os.unlink(tmp)
    return rc == 0, out, (o + e)


def build_many(jobs):
    """jobs: list of kwargs for build_harness; built in parallel. returns list of (ok, path, log)"""
    # a variant named twice is built once
    uniq = {}
    for kw in jobs:
        uniq.setdefault(kw["out_name"], kw)
    with ThreadPoolExecutor(max_workers=min(16, max(1, len(uniq)))) as ex:
        done = dict(zip(uniq, ex.map(lambda kw: build_harness(**kw), uniq.values())))
    return [done[kw["out_name"]] for kw in jobs]


def split_sections(text):
    """split '--- name' separated output into {name: [lines]} (ordered)"""
    res = {}
    cur = None
    for line in text.splitlines():
        if line.startswith("--- "):
            cur = line[4:].strip()
            res[cur] = []
        elif cur is not None:
            res[cur].append(line.rstrip())
    return res


def run_driver(mode, script_text, timeout=600):
    rc, out, err = sh([DRIVER, mode], input=script_text, timeout=timeout)
    return rc, split_sections(out), err


def run_harness(exe, script_text, timeout=300, env=None):
    e = dict(os.environ)
    e["ASAN_OPTIONS"] = "detect_leaks=1:abort_on_error=0:exitcode=66"
    e["UBSAN_OPTIONS"] = "print_stacktrace=1:halt_on_error=1"
    if env:
        e.update(env)
    rc, out, err = sh([exe], input=script_text, timeout=timeout, env=e)
    return rc, split_sections(out), err


# ---------------------------------------------------------------------------------------------
# violations, known findings, evidence
# ---------------------------------------------------------------------------------------------

def load_known():
    p = os.path.join(ROOT, "known_findings.json")
    if os.path.exists(p):
        return json.load(open(p))
    return {"findings": [], "fixed": []}


def write_replay(prop, seed, tag, body):
    os.makedirs(REPLAYS, exist_ok=True)
    path = os.path.join(REPLAYS, "%s-%s-%s.replay" % (prop, seed, tag))
    with open(path, "w") as f:
        f.write(body)
    return path


def write_evidence(prop, tier, seed, coverage, wall, violations, assumptions):
    os.makedirs(EVID, exist_ok=True)
    ev = {
        "property_id": prop,
        "tier": tier,
        "seed": seed,
        "level": "proof",
        "coverage": coverage,
        "assumptions": assumptions,
        "wall_s": round(wall, 2),
        "violations": violations,
    }
    with open(os.path.join(EVID, prop + ".json"), "w") as f:
        json.dump(ev, f, indent=1)


def ddmin(items, test):
    """delta debugging: smallest sublist of items for which test(sub) is still True"""
    n = 2
    items = list(items)
    while len(items) >= 2:
        chunk = max(1, len(items) // n)
        subsets = [items[i:i + chunk] for i in range(0, len(items), chunk)]
        reduced = False
        for i in range(len(subsets)):
            comp = [x for j, s in enumerate(subsets) if j != i for x in s]
            if comp and test(comp):
                items = comp
                n = max(n - 1, 2)
                reduced = True
                break
        if not reduced:
            if n >= len(items):
                break
            n = min(len(items), n * 2)
    return items
